#!/bin/sh
# C01 only: the XML model runner + RoundTripCanon.knownb  ->  _build/avm_xmlk   (same driver; the line marked KNOWNB-HOOK is switched on)
set -e
cd "$(dirname "$0")"
python3 ../tools/coqmake.py Extract/ExtractXml.vo Xml/RoundTripCanon.vo >/dev/null || { echo "coq build of Xml/RoundTripCanon.vo failed"; exit 1; }
mkdir -p gen/k _build/xmlk
stamp=$(cat ../coq/Xml/Lexer.v ../coq/Xml/Parser.v ../coq/Xml/Serializer.v ../coq/Xml/RoundTripCanon.v ../coq/Xml/RoundTripValues.v ../coq/Extract/ExtractXml.v ../coq/Gen/XmlVexprs.v \
        ../coq/Spec/SpecOps.v ../coq/Hash/HashModel.v ../coq/Base/*.v ../coq/Gen/Versions.v ../coq/Spec/Versions.v ../coq/Regex/Vexpr.v ../coq/Regex/Bisim.v \
        extract_xml_known.v xml_driver.ml | md5sum | cut -d' ' -f1)
if [ -f _build/xmlk/stamp ] && [ "$(cat _build/xmlk/stamp)" = "$stamp" ] && [ -x _build/avm_xmlk ]; then exit 0; fi
( cd gen/k && cp ../../extract_xml_known.v extract_xmlk_run.v && coqc -w none -Q ../../../coq AV extract_xmlk_run.v >/dev/null && rm -f extract_xmlk_run.vo extract_xmlk_run.glob extract_xmlk_run.vok extract_xmlk_run.vos .extract_xmlk_run.aux )
cp gen/k/xmlmodel.ml gen/k/xmlmodel.mli _build/xmlk/
sed 's|^let knownb_hook : (tables -> etree -> bool) option = None (\* KNOWNB-HOOK \*)|let knownb_hook : (tables -> etree -> bool) option = Some knownb|' xml_driver.ml > _build/xmlk/xml_driver.ml
cd _build/xmlk
ocamlfind ocamlopt -O3 -w -a -c xmlmodel.mli
ocamlfind ocamlopt -O3 -w -a -c xmlmodel.ml
ocamlfind ocamlopt -O3 -w -a -c xml_driver.ml
ocamlfind ocamlopt -O3 -w -a xmlmodel.cmx xml_driver.cmx -o ../avm_xmlk
echo "$stamp" > stamp
