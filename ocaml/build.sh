#!/bin/sh
# builds the model runner `avm` from the extracted Coq code + driver.ml  (needs coq/Extract/Extract.vo deps built)
set -e
cd "$(dirname "$0")"
mkdir -p gen _build
( cd gen && coqc -w none -Q ../../coq AV ../../coq/Extract/Extract.v >/dev/null )
cp gen/avmodel.ml gen/avmodel.mli driver.ml _build/
cd _build
ocamlfind ocamlopt -O3 -unboxed-types 2>/dev/null >/dev/null || true
ocamlfind ocamlopt -w -a -c avmodel.mli
ocamlfind ocamlopt -w -a -c avmodel.ml
ocamlfind ocamlopt -w -a -c driver.ml
ocamlfind ocamlopt -w -a avmodel.cmx driver.cmx -o avm
