(* extraction of the element-tree model; run by build_tree.sh inside ocaml/gen (outside the coq/ tree). ExtrOcamlBasic only. *)
From Coq Require Import Extraction ExtrOcamlBasic.
From AV Require Import Base.Bytes Base.Outcome Hash.HashModel Spec.SpecOps Tree.Heap Tree.Ops Tree.Script Tree.Script2 Tree.Load Tree.MergeSpec Tree.MergePure Tree.CheckFn Tree.Iter.
Extraction Language OCaml.
Extraction "treemodel.ml"
  HashModel.from_bytes HashModel.to_str SpecOps.content_mode SpecOps.et_new
  Script.run_op Script2.run_op2 Script2.q_cmp Script2.q_serialize_file Script.discover Script.walk
  Script.q_parent Script.q_position Script.q_path Script.q_model Script.q_file_membership Script.q_min_version
  Script.q_item_name Script.q_is_identifiable Script.q_get_by_path Script.q_refs_to Script.q_get_reference_target
  Script.q_character_data Script.q_insert_range Script.q_check_references
  Load.q_get_by_path_live Load.q_check_references_live MergePure.check_load_buffer
  Iter.model_elements_dfs Iter.file_elements_dfs Iter.elements_dfs
  CheckFn.check_fn_model.
