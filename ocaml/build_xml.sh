#!/bin/sh
# builds the XML model runner `_build/avm_xml` from the extracted Coq loader/writer models + xml_driver.ml
# (coq/Extract/ExtractXml.vo and its dependencies are built through tools/coqmake.py, under the shared lock)
set -e
cd "$(dirname "$0")"
python3 ../tools/coqmake.py Extract/ExtractXml.vo >/dev/null || { echo "coq build of Extract/ExtractXml.vo failed"; python3 ../tools/coqmake.py Extract/ExtractXml.vo | tail -20; exit 1; }
mkdir -p gen _build/xml
# re-extract only when a source of the models changed
stamp=$(cat ../coq/Xml/Lexer.v ../coq/Xml/Parser.v ../coq/Xml/Serializer.v ../coq/Extract/ExtractXml.v ../coq/Gen/XmlVexprs.v \
        ../coq/Spec/SpecOps.v ../coq/Hash/HashModel.v ../coq/Base/*.v ../coq/Gen/Versions.v ../coq/Spec/Versions.v ../coq/Regex/Vexpr.v ../coq/Regex/Bisim.v \
        extract_xml.v xml_driver.ml | md5sum | cut -d' ' -f1)
if [ -f _build/xml/stamp ] && [ "$(cat _build/xml/stamp)" = "$stamp" ] && [ -x _build/avm_xml ]; then exit 0; fi
( cd gen && cp ../extract_xml.v extract_xml_run.v && coqc -w none -Q ../../coq AV extract_xml_run.v >/dev/null && rm -f extract_xml_run.vo extract_xml_run.glob extract_xml_run.vok extract_xml_run.vos .extract_xml_run.aux )
cp gen/xmlmodel.ml gen/xmlmodel.mli xml_driver.ml _build/xml/
cd _build/xml
ocamlfind ocamlopt -O3 -w -a -c xmlmodel.mli
ocamlfind ocamlopt -O3 -w -a -c xmlmodel.ml
ocamlfind ocamlopt -O3 -w -a -c xml_driver.ml
ocamlfind ocamlopt -O3 -w -a xmlmodel.cmx xml_driver.cmx -o ../avm_xml
echo "$stamp" > stamp
