(* extraction for the C01-only variant of the XML model runner: everything of extract_xml.v plus the decidable
   "recorded classes" predicate RoundTripCanon.knownb (the hypothesis of C01_reload_identity).  Separate binary
   (_build/avm_xmlk) so that C02 / C08 never depend on the C01 proof files compiling. *)
From Coq Require Import Extraction ExtrOcamlBasic.
From AV Require Import Base.Bytes Base.Outcome Hash.HashModel Spec.SpecOps Xml.Lexer Xml.Parser Xml.Serializer Extract.ExtractXml Xml.RoundTripCanon.
Extraction Language OCaml.
Extraction "xmlmodel.ml"
  HashModel.from_bytes HashModel.to_str SpecOps.content_mode SpecOps.et_new
  Parser.load Parser.check_arxml_header Parser.unescape_string Parser.parse_attribute_text
  Serializer.serialize_file Serializer.escape_text ExtractXml.check_fn_model RoundTripCanon.knownb.
