
(** val negb : bool -> bool **)

let negb = function
| true -> false
| false -> true

type nat =
| O
| S of nat

(** val option_map : ('a1 -> 'a2) -> 'a1 option -> 'a2 option **)

let option_map f = function
| Some a -> Some (f a)
| None -> None

(** val fst : ('a1 * 'a2) -> 'a1 **)

let fst = function
| (x, _) -> x

(** val snd : ('a1 * 'a2) -> 'a2 **)

let snd = function
| (_, y) -> y

(** val length : 'a1 list -> nat **)

let rec length = function
| [] -> O
| _ :: l' -> S (length l')

(** val app : 'a1 list -> 'a1 list -> 'a1 list **)

let rec app l m =
  match l with
  | [] -> m
  | a :: l1 -> a :: (app l1 m)

type comparison =
| Eq
| Lt
| Gt

module Coq__1 = struct
 (** val add : nat -> nat -> nat **)
 let rec add n0 m =
   match n0 with
   | O -> m
   | S p -> S (add p m)
end
include Coq__1

(** val removelast : 'a1 list -> 'a1 list **)

let rec removelast = function
| [] -> []
| a :: l0 -> (match l0 with
              | [] -> []
              | _ :: _ -> a :: (removelast l0))

(** val existsb : ('a1 -> bool) -> 'a1 list -> bool **)

let rec existsb f = function
| [] -> false
| a :: l0 -> (||) (f a) (existsb f l0)

(** val find : ('a1 -> bool) -> 'a1 list -> 'a1 option **)

let rec find f = function
| [] -> None
| x :: tl -> if f x then Some x else find f tl

type positive =
| XI of positive
| XO of positive
| XH

type n =
| N0
| Npos of positive

module Pos =
 struct
  type mask =
  | IsNul
  | IsPos of positive
  | IsNeg
 end

module Coq_Pos =
 struct
  (** val succ : positive -> positive **)

  let rec succ = function
  | XI p -> XO (succ p)
  | XO p -> XI p
  | XH -> XO XH

  (** val add : positive -> positive -> positive **)

  let rec add x y =
    match x with
    | XI p ->
      (match y with
       | XI q -> XO (add_carry p q)
       | XO q -> XI (add p q)
       | XH -> XO (succ p))
    | XO p ->
      (match y with
       | XI q -> XI (add p q)
       | XO q -> XO (add p q)
       | XH -> XI p)
    | XH -> (match y with
             | XI q -> XO (succ q)
             | XO q -> XI q
             | XH -> XO XH)

  (** val add_carry : positive -> positive -> positive **)

  and add_carry x y =
    match x with
    | XI p ->
      (match y with
       | XI q -> XI (add_carry p q)
       | XO q -> XO (add_carry p q)
       | XH -> XI (succ p))
    | XO p ->
      (match y with
       | XI q -> XO (add_carry p q)
       | XO q -> XI (add p q)
       | XH -> XO (succ p))
    | XH ->
      (match y with
       | XI q -> XI (succ q)
       | XO q -> XO (succ q)
       | XH -> XI XH)

  (** val pred_double : positive -> positive **)

  let rec pred_double = function
  | XI p -> XI (XO p)
  | XO p -> XI (pred_double p)
  | XH -> XH

  type mask = Pos.mask =
  | IsNul
  | IsPos of positive
  | IsNeg

  (** val succ_double_mask : mask -> mask **)

  let succ_double_mask = function
  | IsNul -> IsPos XH
  | IsPos p -> IsPos (XI p)
  | IsNeg -> IsNeg

  (** val double_mask : mask -> mask **)

  let double_mask = function
  | IsPos p -> IsPos (XO p)
  | x0 -> x0

  (** val double_pred_mask : positive -> mask **)

  let double_pred_mask = function
  | XI p -> IsPos (XO (XO p))
  | XO p -> IsPos (XO (pred_double p))
  | XH -> IsNul

  (** val sub_mask : positive -> positive -> mask **)

  let rec sub_mask x y =
    match x with
    | XI p ->
      (match y with
       | XI q -> double_mask (sub_mask p q)
       | XO q -> succ_double_mask (sub_mask p q)
       | XH -> IsPos (XO p))
    | XO p ->
      (match y with
       | XI q -> succ_double_mask (sub_mask_carry p q)
       | XO q -> double_mask (sub_mask p q)
       | XH -> IsPos (pred_double p))
    | XH -> (match y with
             | XH -> IsNul
             | _ -> IsNeg)

  (** val sub_mask_carry : positive -> positive -> mask **)

  and sub_mask_carry x y =
    match x with
    | XI p ->
      (match y with
       | XI q -> succ_double_mask (sub_mask_carry p q)
       | XO q -> double_mask (sub_mask p q)
       | XH -> IsPos (pred_double p))
    | XO p ->
      (match y with
       | XI q -> double_mask (sub_mask_carry p q)
       | XO q -> succ_double_mask (sub_mask_carry p q)
       | XH -> double_pred_mask p)
    | XH -> IsNeg

  (** val mul : positive -> positive -> positive **)

  let rec mul x y =
    match x with
    | XI p -> add y (XO (mul p y))
    | XO p -> XO (mul p y)
    | XH -> y

  (** val iter : ('a1 -> 'a1) -> 'a1 -> positive -> 'a1 **)

  let rec iter f x = function
  | XI n' -> f (iter f (iter f x n') n')
  | XO n' -> iter f (iter f x n') n'
  | XH -> f x

  (** val compare_cont : comparison -> positive -> positive -> comparison **)

  let rec compare_cont r x y =
    match x with
    | XI p ->
      (match y with
       | XI q -> compare_cont r p q
       | XO q -> compare_cont Gt p q
       | XH -> Gt)
    | XO p ->
      (match y with
       | XI q -> compare_cont Lt p q
       | XO q -> compare_cont r p q
       | XH -> Gt)
    | XH -> (match y with
             | XH -> r
             | _ -> Lt)

  (** val compare : positive -> positive -> comparison **)

  let compare =
    compare_cont Eq

  (** val eqb : positive -> positive -> bool **)

  let rec eqb p q =
    match p with
    | XI p0 -> (match q with
                | XI q0 -> eqb p0 q0
                | _ -> false)
    | XO p0 -> (match q with
                | XO q0 -> eqb p0 q0
                | _ -> false)
    | XH -> (match q with
             | XH -> true
             | _ -> false)

  (** val coq_Nsucc_double : n -> n **)

  let coq_Nsucc_double = function
  | N0 -> Npos XH
  | Npos p -> Npos (XI p)

  (** val coq_Ndouble : n -> n **)

  let coq_Ndouble = function
  | N0 -> N0
  | Npos p -> Npos (XO p)

  (** val coq_lor : positive -> positive -> positive **)

  let rec coq_lor p q =
    match p with
    | XI p0 ->
      (match q with
       | XI q0 -> XI (coq_lor p0 q0)
       | XO q0 -> XI (coq_lor p0 q0)
       | XH -> p)
    | XO p0 ->
      (match q with
       | XI q0 -> XI (coq_lor p0 q0)
       | XO q0 -> XO (coq_lor p0 q0)
       | XH -> XI p0)
    | XH -> (match q with
             | XO q0 -> XI q0
             | _ -> q)

  (** val coq_land : positive -> positive -> n **)

  let rec coq_land p q =
    match p with
    | XI p0 ->
      (match q with
       | XI q0 -> coq_Nsucc_double (coq_land p0 q0)
       | XO q0 -> coq_Ndouble (coq_land p0 q0)
       | XH -> Npos XH)
    | XO p0 ->
      (match q with
       | XI q0 -> coq_Ndouble (coq_land p0 q0)
       | XO q0 -> coq_Ndouble (coq_land p0 q0)
       | XH -> N0)
    | XH -> (match q with
             | XO _ -> N0
             | _ -> Npos XH)

  (** val coq_lxor : positive -> positive -> n **)

  let rec coq_lxor p q =
    match p with
    | XI p0 ->
      (match q with
       | XI q0 -> coq_Ndouble (coq_lxor p0 q0)
       | XO q0 -> coq_Nsucc_double (coq_lxor p0 q0)
       | XH -> Npos (XO p0))
    | XO p0 ->
      (match q with
       | XI q0 -> coq_Nsucc_double (coq_lxor p0 q0)
       | XO q0 -> coq_Ndouble (coq_lxor p0 q0)
       | XH -> Npos (XI p0))
    | XH ->
      (match q with
       | XI q0 -> Npos (XO q0)
       | XO q0 -> Npos (XI q0)
       | XH -> N0)

  (** val shiftl : positive -> n -> positive **)

  let shiftl p = function
  | N0 -> p
  | Npos n1 -> iter (fun x -> XO x) p n1

  (** val iter_op : ('a1 -> 'a1 -> 'a1) -> positive -> 'a1 -> 'a1 **)

  let rec iter_op op p a =
    match p with
    | XI p0 -> op a (iter_op op p0 (op a a))
    | XO p0 -> iter_op op p0 (op a a)
    | XH -> a

  (** val to_nat : positive -> nat **)

  let to_nat x =
    iter_op Coq__1.add x (S O)

  (** val of_succ_nat : nat -> positive **)

  let rec of_succ_nat = function
  | O -> XH
  | S x -> succ (of_succ_nat x)
 end

module N =
 struct
  (** val succ_double : n -> n **)

  let succ_double = function
  | N0 -> Npos XH
  | Npos p -> Npos (XI p)

  (** val double : n -> n **)

  let double = function
  | N0 -> N0
  | Npos p -> Npos (XO p)

  (** val add : n -> n -> n **)

  let add n0 m =
    match n0 with
    | N0 -> m
    | Npos p -> (match m with
                 | N0 -> n0
                 | Npos q -> Npos (Coq_Pos.add p q))

  (** val sub : n -> n -> n **)

  let sub n0 m =
    match n0 with
    | N0 -> N0
    | Npos n' ->
      (match m with
       | N0 -> n0
       | Npos m' ->
         (match Coq_Pos.sub_mask n' m' with
          | Coq_Pos.IsPos p -> Npos p
          | _ -> N0))

  (** val mul : n -> n -> n **)

  let mul n0 m =
    match n0 with
    | N0 -> N0
    | Npos p -> (match m with
                 | N0 -> N0
                 | Npos q -> Npos (Coq_Pos.mul p q))

  (** val compare : n -> n -> comparison **)

  let compare n0 m =
    match n0 with
    | N0 -> (match m with
             | N0 -> Eq
             | Npos _ -> Lt)
    | Npos n' -> (match m with
                  | N0 -> Gt
                  | Npos m' -> Coq_Pos.compare n' m')

  (** val eqb : n -> n -> bool **)

  let eqb n0 m =
    match n0 with
    | N0 -> (match m with
             | N0 -> true
             | Npos _ -> false)
    | Npos p -> (match m with
                 | N0 -> false
                 | Npos q -> Coq_Pos.eqb p q)

  (** val leb : n -> n -> bool **)

  let leb x y =
    match compare x y with
    | Gt -> false
    | _ -> true

  (** val ltb : n -> n -> bool **)

  let ltb x y =
    match compare x y with
    | Lt -> true
    | _ -> false

  (** val div2 : n -> n **)

  let div2 = function
  | N0 -> N0
  | Npos p0 -> (match p0 with
                | XI p -> Npos p
                | XO p -> Npos p
                | XH -> N0)

  (** val pos_div_eucl : positive -> n -> n * n **)

  let rec pos_div_eucl a b =
    match a with
    | XI a' ->
      let (q, r) = pos_div_eucl a' b in
      let r' = succ_double r in
      if leb b r' then ((succ_double q), (sub r' b)) else ((double q), r')
    | XO a' ->
      let (q, r) = pos_div_eucl a' b in
      let r' = double r in
      if leb b r' then ((succ_double q), (sub r' b)) else ((double q), r')
    | XH ->
      (match b with
       | N0 -> (N0, (Npos XH))
       | Npos p -> (match p with
                    | XH -> ((Npos XH), N0)
                    | _ -> (N0, (Npos XH))))

  (** val div_eucl : n -> n -> n * n **)

  let div_eucl a b =
    match a with
    | N0 -> (N0, N0)
    | Npos na -> (match b with
                  | N0 -> (N0, a)
                  | Npos _ -> pos_div_eucl na b)

  (** val modulo : n -> n -> n **)

  let modulo a b =
    snd (div_eucl a b)

  (** val coq_lor : n -> n -> n **)

  let coq_lor n0 m =
    match n0 with
    | N0 -> m
    | Npos p -> (match m with
                 | N0 -> n0
                 | Npos q -> Npos (Coq_Pos.coq_lor p q))

  (** val coq_land : n -> n -> n **)

  let coq_land n0 m =
    match n0 with
    | N0 -> N0
    | Npos p -> (match m with
                 | N0 -> N0
                 | Npos q -> Coq_Pos.coq_land p q)

  (** val coq_lxor : n -> n -> n **)

  let coq_lxor n0 m =
    match n0 with
    | N0 -> m
    | Npos p -> (match m with
                 | N0 -> n0
                 | Npos q -> Coq_Pos.coq_lxor p q)

  (** val shiftl : n -> n -> n **)

  let shiftl a n0 =
    match a with
    | N0 -> N0
    | Npos a0 -> Npos (Coq_Pos.shiftl a0 n0)

  (** val shiftr : n -> n -> n **)

  let shiftr a = function
  | N0 -> a
  | Npos p -> Coq_Pos.iter div2 a p

  (** val to_nat : n -> nat **)

  let to_nat = function
  | N0 -> O
  | Npos p -> Coq_Pos.to_nat p

  (** val of_nat : nat -> n **)

  let of_nat = function
  | O -> N0
  | S n' -> Npos (Coq_Pos.of_succ_nat n')
 end

type ascii =
| Ascii of bool * bool * bool * bool * bool * bool * bool * bool

type string =
| EmptyString
| String of ascii * string

(** val bytes_eqb : n list -> n list -> bool **)

let rec bytes_eqb a b =
  match a with
  | [] -> (match b with
           | [] -> true
           | _ :: _ -> false)
  | x :: a' ->
    (match b with
     | [] -> false
     | y :: b' -> (&&) (N.eqb x y) (bytes_eqb a' b'))

(** val nth_opt : 'a1 list -> nat -> 'a1 option **)

let rec nth_opt l n0 =
  match l with
  | [] -> None
  | x :: l' -> (match n0 with
                | O -> Some x
                | S n' -> nth_opt l' n')

type 'a res =
| Val of 'a
| Pan of string
| Fuel

(** val bind : 'a1 res -> ('a1 -> 'a2 res) -> 'a2 res **)

let bind m f =
  match m with
  | Val a -> f a
  | Pan s -> Pan s
  | Fuel -> Fuel

(** val unwrap : string -> 'a1 option -> 'a1 res **)

let unwrap site = function
| Some a -> Val a
| None -> Pan site

(** val hASHCONST1 : n **)

let hASHCONST1 =
  Npos (XO (XI (XO (XO (XI (XI (XO (XI (XI (XO (XO (XI (XO (XI (XI (XO (XO
    (XO (XI (XI (XI (XO (XO (XO (XO (XO (XI (XO (XI (XO
    XH))))))))))))))))))))))))))))))

(** val hASHCONST2 : n **)

let hASHCONST2 =
  Npos (XI (XI (XO (XI (XI (XO (XO (XO (XO (XI (XI (XO (XI (XO (XO (XO (XI
    (XI (XI (XO (XI (XO (XO (XO (XI (XI (XO (XI (XI
    XH)))))))))))))))))))))))))))))

(** val sEED1 : n **)

let sEED1 =
  Npos (XI (XI (XO (XO (XO (XI (XI (XO (XO (XO (XI (XI (XI (XI (XO (XO (XO
    (XO (XI (XO (XI (XO (XO (XO (XI (XI (XO (XO (XI
    XH)))))))))))))))))))))))))))))

(** val sEED2 : n **)

let sEED2 =
  Npos (XO (XI (XI (XI (XI (XO (XO (XO (XO (XI (XO (XO (XI (XI (XO (XI (XO
    (XO (XO (XO (XI (XI (XO (XI (XO (XO (XO (XI (XO (XO (XO
    XH)))))))))))))))))))))))))))))))

(** val rOT1 : n **)

let rOT1 =
  Npos (XI (XO XH))

(** val rOT2 : n **)

let rOT2 =
  Npos (XO (XI XH))

(** val m32 : n **)

let m32 =
  Npos (XO (XO (XO (XO (XO (XO (XO (XO (XO (XO (XO (XO (XO (XO (XO (XO (XO
    (XO (XO (XO (XO (XO (XO (XO (XO (XO (XO (XO (XO (XO (XO (XO
    XH))))))))))))))))))))))))))))))))

(** val rotl32 : n -> n -> n **)

let rotl32 x k =
  N.coq_lor (N.modulo (N.shiftl x k) m32)
    (N.shiftr x (N.sub (Npos (XO (XO (XO (XO (XO XH)))))) k))

(** val mix : n -> n -> n -> n -> n **)

let mix f rot val0 c =
  N.modulo (N.mul (N.coq_lxor (rotl32 f rot) val0) c) m32

(** val hash_loop : n list -> n -> n -> n * n **)

let rec hash_loop data f1 f2 =
  match data with
  | [] -> (f1, f2)
  | b :: l ->
    (match l with
     | [] -> ((mix f1 rOT1 b hASHCONST1), (mix f2 rOT2 b hASHCONST2))
     | b1 :: rest ->
       (match rest with
        | [] ->
          let val0 =
            N.add b
              (N.mul (Npos (XO (XO (XO (XO (XO (XO (XO (XO XH))))))))) b1)
          in
          let f3 = mix f1 rOT1 val0 hASHCONST1 in
          let f4 = mix f2 rOT2 val0 hASHCONST2 in
          (match rest with
           | [] -> (f3, f4)
           | b0 :: _ ->
             ((mix f3 rOT1 b0 hASHCONST1), (mix f4 rOT2 b0 hASHCONST2)))
        | b2 :: l0 ->
          (match l0 with
           | [] ->
             let val0 =
               N.add b
                 (N.mul (Npos (XO (XO (XO (XO (XO (XO (XO (XO XH))))))))) b1)
             in
             let f3 = mix f1 rOT1 val0 hASHCONST1 in
             let f4 = mix f2 rOT2 val0 hASHCONST2 in
             (match rest with
              | [] -> (f3, f4)
              | b0 :: _ ->
                ((mix f3 rOT1 b0 hASHCONST1), (mix f4 rOT2 b0 hASHCONST2)))
           | b3 :: rest0 ->
             let val0 =
               N.add
                 (N.add
                   (N.add b
                     (N.mul (Npos (XO (XO (XO (XO (XO (XO (XO (XO XH)))))))))
                       b1))
                   (N.mul (Npos (XO (XO (XO (XO (XO (XO (XO (XO (XO (XO (XO
                     (XO (XO (XO (XO (XO XH))))))))))))))))) b2))
                 (N.mul (Npos (XO (XO (XO (XO (XO (XO (XO (XO (XO (XO (XO (XO
                   (XO (XO (XO (XO (XO (XO (XO (XO (XO (XO (XO (XO
                   XH))))))))))))))))))))))))) b3)
             in
             hash_loop rest0 (mix f1 rOT1 val0 hASHCONST1)
               (mix f2 rOT2 val0 hASHCONST2))))

(** val hashfunc : n list -> (n * n) * n **)

let hashfunc data =
  let (f1, f2) = hash_loop data sEED1 sEED2 in (((N.coq_lxor f1 f2), f1), f2)

type nametab = { nt_strtab : n list list; nt_disp : (n * n) list;
                 nt_mdisp : n; nt_mtab : n }

type 'a outcome =
| Ok of 'a
| Err
| Panic

(** val from_bytes : nametab -> n list -> n outcome **)

let from_bytes t input =
  let (p, f2) = hashfunc input in
  let (g, f1) = p in
  if N.eqb t.nt_mdisp N0
  then Panic
  else (match nth_opt t.nt_disp (N.to_nat (N.modulo g t.nt_mdisp)) with
        | Some p0 ->
          let (d1, d2) = p0 in
          if N.eqb t.nt_mtab N0
          then Panic
          else let item_idx =
                 N.modulo
                   (N.modulo
                     (N.add
                       (N.modulo (N.add d2 (N.modulo (N.mul f1 d1) m32)) m32)
                       f2) m32) t.nt_mtab
               in
               (match nth_opt t.nt_strtab (N.to_nat item_idx) with
                | Some str -> if bytes_eqb str input then Ok item_idx else Err
                | None -> Panic)
        | None -> Panic)

(** val to_str : nametab -> n -> n list option **)

let to_str t d =
  nth_opt t.nt_strtab (N.to_nat d)

type cdspec =
| CEnum of (n * n) list
| CPattern of n * n option
| CString of bool * n option
| CUInt
| CFloat

type elemdef = { ed_name : n; ed_type : n; ed_mult : n; ed_ordered : 
                 n; ed_split : n; ed_restrict : n }

type dtype = { dt_sub_start : n; dt_sub_end : n; dt_sub_ver : n;
               dt_attr_start : n; dt_attr_end : n; dt_attr_ver : n;
               dt_cdata : n; dt_mode : n; dt_ref_start : n; dt_ref_end : 
               n }

type tables = { t_elements : (n -> elemdef option); n_elements : n;
                t_subelements : (n -> (n * n) option); n_subelements : 
                n; t_attributes : (n -> ((n * n) * n) option);
                n_attributes : n; t_version_info : (n -> n option);
                n_version_info : n; t_datatypes : (n -> dtype option);
                n_datatypes : n; t_ref_items : (n -> n option);
                n_ref_items : n; t_cdata : (n -> cdspec option); n_cdata : 
                n; reference_type_idx : n; autosar_element : n;
                name_short_name : n; attr_dest : n }

type etype = n * n

(** val elem : tables -> n -> elemdef res **)

let elem t i =
  unwrap (String ((Ascii (true, false, true, false, false, false, true,
    false)), (String ((Ascii (false, false, true, true, false, false, true,
    false)), (String ((Ascii (true, false, true, false, false, false, true,
    false)), (String ((Ascii (true, false, true, true, false, false, true,
    false)), (String ((Ascii (true, false, true, false, false, false, true,
    false)), (String ((Ascii (false, true, true, true, false, false, true,
    false)), (String ((Ascii (false, false, true, false, true, false, true,
    false)), (String ((Ascii (true, true, false, false, true, false, true,
    false)), (String ((Ascii (true, true, false, true, true, false, true,
    false)), (String ((Ascii (true, false, false, true, false, true, true,
    false)), (String ((Ascii (true, false, true, true, true, false, true,
    false)), EmptyString)))))))))))))))))))))) (t.t_elements i)

(** val dt : tables -> n -> dtype res **)

let dt t i =
  unwrap (String ((Ascii (false, false, true, false, false, false, true,
    false)), (String ((Ascii (true, false, false, false, false, false, true,
    false)), (String ((Ascii (false, false, true, false, true, false, true,
    false)), (String ((Ascii (true, false, false, false, false, false, true,
    false)), (String ((Ascii (false, false, true, false, true, false, true,
    false)), (String ((Ascii (true, false, false, true, true, false, true,
    false)), (String ((Ascii (false, false, false, false, true, false, true,
    false)), (String ((Ascii (true, false, true, false, false, false, true,
    false)), (String ((Ascii (true, true, false, false, true, false, true,
    false)), (String ((Ascii (true, true, false, true, true, false, true,
    false)), (String ((Ascii (true, false, false, true, false, true, true,
    false)), (String ((Ascii (true, false, true, true, true, false, true,
    false)), EmptyString)))))))))))))))))))))))) (t.t_datatypes i)

(** val vinfo : tables -> n -> n res **)

let vinfo t i =
  unwrap (String ((Ascii (false, true, true, false, true, false, true,
    false)), (String ((Ascii (true, false, true, false, false, false, true,
    false)), (String ((Ascii (false, true, false, false, true, false, true,
    false)), (String ((Ascii (true, true, false, false, true, false, true,
    false)), (String ((Ascii (true, false, false, true, false, false, true,
    false)), (String ((Ascii (true, true, true, true, false, false, true,
    false)), (String ((Ascii (false, true, true, true, false, false, true,
    false)), (String ((Ascii (true, true, true, true, true, false, true,
    false)), (String ((Ascii (true, false, false, true, false, false, true,
    false)), (String ((Ascii (false, true, true, true, false, false, true,
    false)), (String ((Ascii (false, true, true, false, false, false, true,
    false)), (String ((Ascii (true, true, true, true, false, false, true,
    false)), (String ((Ascii (true, true, false, true, true, false, true,
    false)), (String ((Ascii (true, false, false, true, false, true, true,
    false)), (String ((Ascii (true, false, true, true, true, false, true,
    false)), EmptyString)))))))))))))))))))))))))))))) (t.t_version_info i)

(** val subel : tables -> n -> (n * n) res **)

let subel t i =
  unwrap (String ((Ascii (true, true, false, false, true, false, true,
    false)), (String ((Ascii (true, false, true, false, true, false, true,
    false)), (String ((Ascii (false, true, false, false, false, false, true,
    false)), (String ((Ascii (true, false, true, false, false, false, true,
    false)), (String ((Ascii (false, false, true, true, false, false, true,
    false)), (String ((Ascii (true, false, true, false, false, false, true,
    false)), (String ((Ascii (true, false, true, true, false, false, true,
    false)), (String ((Ascii (true, false, true, false, false, false, true,
    false)), (String ((Ascii (false, true, true, true, false, false, true,
    false)), (String ((Ascii (false, false, true, false, true, false, true,
    false)), (String ((Ascii (true, true, false, false, true, false, true,
    false)), (String ((Ascii (true, true, false, true, true, false, true,
    false)), (String ((Ascii (true, false, false, true, false, true, true,
    false)), (String ((Ascii (true, false, true, true, true, false, true,
    false)), EmptyString)))))))))))))))))))))))))))) (t.t_subelements i)

(** val et_new : tables -> n -> etype res **)

let et_new t def =
  bind (elem t def) (fun e -> Val (def, e.ed_type))

(** val slice_chk : string -> n -> n -> n -> unit res **)

let slice_chk site start stop len =
  if (||) (N.ltb stop start) (N.ltb len stop) then Pan site else Val ()

(** val sub_slice : tables -> n -> ((n * n) * dtype) res **)

let sub_slice t ty =
  bind (dt t ty) (fun d ->
    bind
      (slice_chk (String ((Ascii (true, true, false, false, true, false,
        true, false)), (String ((Ascii (true, false, true, false, true,
        false, true, false)), (String ((Ascii (false, true, false, false,
        false, false, true, false)), (String ((Ascii (true, false, true,
        false, false, false, true, false)), (String ((Ascii (false, false,
        true, true, false, false, true, false)), (String ((Ascii (true,
        false, true, false, false, false, true, false)), (String ((Ascii
        (true, false, true, true, false, false, true, false)), (String
        ((Ascii (true, false, true, false, false, false, true, false)),
        (String ((Ascii (false, true, true, true, false, false, true,
        false)), (String ((Ascii (false, false, true, false, true, false,
        true, false)), (String ((Ascii (true, true, false, false, true,
        false, true, false)), (String ((Ascii (true, true, false, true, true,
        false, true, false)), (String ((Ascii (true, false, false, false,
        false, true, true, false)), (String ((Ascii (false, true, true, true,
        false, true, false, false)), (String ((Ascii (false, true, true,
        true, false, true, false, false)), (String ((Ascii (false, true,
        false, false, false, true, true, false)), (String ((Ascii (true,
        false, true, true, true, false, true, false)),
        EmptyString)))))))))))))))))))))))))))))))))) d.dt_sub_start
        d.dt_sub_end t.n_subelements) (fun _ -> Val ((d.dt_sub_start,
      d.dt_sub_end), d)))

(** val find_sub :
    tables -> nat -> n -> n -> n -> (etype * n list) option res **)

let rec find_sub t fuel ty target version =
  match fuel with
  | O -> Fuel
  | S fuel' ->
    bind (sub_slice t ty) (fun x ->
      let (p, d) = x in
      let (start, stop) = p in
      let rec loop k pos =
        match k with
        | O -> Val None
        | S k' ->
          bind (subel t (N.add start pos)) (fun x0 ->
            let (kind, idx) = x0 in
            if N.eqb kind N0
            then bind (elem t idx) (fun e ->
                   bind (vinfo t (N.add d.dt_sub_ver pos)) (fun mask0 ->
                     if (&&) (N.eqb e.ed_name target)
                          (negb (N.eqb (N.coq_land version mask0) N0))
                     then bind (et_new t idx) (fun et -> Val (Some (et,
                            (pos :: []))))
                     else loop k' (N.add pos (Npos XH))))
            else (match find_sub t fuel' idx target version with
                  | Val a ->
                    (match a with
                     | Some p0 ->
                       let (et, ixs) = p0 in Val (Some (et, (pos :: ixs)))
                     | None -> loop k' (N.add pos (Npos XH)))
                  | x1 -> x1))
      in loop (N.to_nat (N.sub stop start)) N0)

(** val fUEL : nat **)

let fUEL =
  S (S (S (S (S (S (S (S (S (S (S (S (S (S (S (S (S (S (S (S (S (S (S (S
    O)))))))))))))))))))))))

(** val find_sub_element :
    tables -> etype -> n -> n -> (etype * n list) option res **)

let find_sub_element t t0 target version =
  find_sub t fUEL (snd t0) target version

(** val short_name_version_mask : tables -> n -> n option res **)

let short_name_version_mask t ty =
  bind (sub_slice t ty) (fun x ->
    let (p, d) = x in
    let (start, stop) = p in
    if N.eqb start stop
    then Val None
    else bind (subel t start) (fun x0 ->
           let (kind, idx) = x0 in
           if N.eqb kind N0
           then bind (elem t idx) (fun e ->
                  if N.eqb e.ed_name t.name_short_name
                  then bind (vinfo t d.dt_sub_ver) (fun m -> Val (Some m))
                  else Val None)
           else Val None))

(** val is_named : tables -> etype -> bool res **)

let is_named t t0 =
  bind (short_name_version_mask t (snd t0)) (fun m -> Val
    (match m with
     | Some _ -> true
     | None -> false))

(** val is_named_in_version : tables -> etype -> n -> bool res **)

let is_named_in_version t t0 v =
  bind (short_name_version_mask t (snd t0)) (fun m -> Val
    (match m with
     | Some mask0 -> negb (N.eqb (N.coq_land mask0 v) N0)
     | None -> false))

(** val list_sub : tables -> nat -> n -> (((n * etype) * n) * n) list res **)

let rec list_sub t fuel ty =
  match fuel with
  | O -> Fuel
  | S fuel' ->
    bind (dt t ty) (fun d ->
      let start = d.dt_sub_start in
      let stop = d.dt_sub_end in
      let rec loop k pos =
        match k with
        | O -> Val []
        | S k' ->
          bind (subel t (N.add start pos)) (fun x ->
            let (kind, idx) = x in
            if N.eqb kind N0
            then bind (elem t idx) (fun e ->
                   bind (vinfo t (N.add d.dt_sub_ver pos)) (fun mask0 ->
                     bind (et_new t idx) (fun et ->
                       bind (short_name_version_mask t (snd et)) (fun nm ->
                         bind (loop k' (N.add pos (Npos XH))) (fun rest ->
                           Val ((((e.ed_name, et), mask0),
                           (match nm with
                            | Some m -> m
                            | None -> N0)) :: rest))))))
            else bind (list_sub t fuel' idx) (fun inner ->
                   bind (loop k' (N.add pos (Npos XH))) (fun rest -> Val
                     (app inner rest))))
      in loop (N.to_nat (N.sub stop start)) N0)

(** val sub_element_spec_list :
    tables -> etype -> (((n * etype) * n) * n) list res **)

let sub_element_spec_list t t0 =
  list_sub t fUEL (snd t0)

(** val walk_groups : tables -> n -> n list -> ((n * n) * n) option res **)

let rec walk_groups t cur_ty = function
| [] -> Val None
| i :: rest ->
  (match rest with
   | [] ->
     bind (sub_slice t cur_ty) (fun x ->
       let (p, d) = x in
       let (start, stop) = p in
       if N.leb (N.sub stop start) i
       then Pan (String ((Ascii (true, true, false, false, false, true, true,
              false)), (String ((Ascii (true, false, true, false, true, true,
              true, false)), (String ((Ascii (false, true, false, false,
              true, true, true, false)), (String ((Ascii (false, true, false,
              false, true, true, true, false)), (String ((Ascii (true, false,
              true, false, false, true, true, false)), (String ((Ascii
              (false, true, true, true, false, true, true, false)), (String
              ((Ascii (false, false, true, false, true, true, true, false)),
              (String ((Ascii (true, true, true, true, true, false, true,
              false)), (String ((Ascii (true, true, false, false, true, true,
              true, false)), (String ((Ascii (false, false, false, false,
              true, true, true, false)), (String ((Ascii (true, false, true,
              false, false, true, true, false)), (String ((Ascii (true, true,
              false, false, false, true, true, false)), (String ((Ascii
              (true, true, false, true, true, false, true, false)), (String
              ((Ascii (false, false, true, true, false, true, true, false)),
              (String ((Ascii (true, false, false, false, false, true, true,
              false)), (String ((Ascii (true, true, false, false, true, true,
              true, false)), (String ((Ascii (false, false, true, false,
              true, true, true, false)), (String ((Ascii (true, true, true,
              true, true, false, true, false)), (String ((Ascii (true, false,
              false, true, false, true, true, false)), (String ((Ascii
              (false, false, true, false, false, true, true, false)), (String
              ((Ascii (false, false, false, true, true, true, true, false)),
              (String ((Ascii (true, false, true, true, true, false, true,
              false)), EmptyString))))))))))))))))))))))))))))))))))))))))))))
       else bind (subel t (N.add start i)) (fun se ->
              bind (vinfo t (N.add d.dt_sub_ver i)) (fun m -> Val (Some (se,
                m)))))
   | _ :: _ ->
     bind (sub_slice t cur_ty) (fun x ->
       let (p, _) = x in
       let (start, stop) = p in
       if N.leb (N.sub stop start) i
       then Pan (String ((Ascii (true, true, false, false, false, true, true,
              false)), (String ((Ascii (true, false, true, false, true, true,
              true, false)), (String ((Ascii (false, true, false, false,
              true, true, true, false)), (String ((Ascii (false, true, false,
              false, true, true, true, false)), (String ((Ascii (true, false,
              true, false, false, true, true, false)), (String ((Ascii
              (false, true, true, true, false, true, true, false)), (String
              ((Ascii (false, false, true, false, true, true, true, false)),
              (String ((Ascii (true, true, true, true, true, false, true,
              false)), (String ((Ascii (true, true, false, false, true, true,
              true, false)), (String ((Ascii (false, false, false, false,
              true, true, true, false)), (String ((Ascii (true, false, true,
              false, false, true, true, false)), (String ((Ascii (true, true,
              false, false, false, true, true, false)), (String ((Ascii
              (true, true, false, true, true, false, true, false)), (String
              ((Ascii (true, false, true, false, false, true, true, false)),
              (String ((Ascii (false, false, true, true, false, true, true,
              false)), (String ((Ascii (true, false, true, false, false,
              true, true, false)), (String ((Ascii (true, false, true, true,
              false, true, true, false)), (String ((Ascii (true, false, true,
              false, false, true, true, false)), (String ((Ascii (false,
              true, true, true, false, true, true, false)), (String ((Ascii
              (false, false, true, false, true, true, true, false)), (String
              ((Ascii (true, true, true, true, true, false, true, false)),
              (String ((Ascii (true, false, false, true, false, true, true,
              false)), (String ((Ascii (false, true, true, true, false, true,
              true, false)), (String ((Ascii (false, false, true, false,
              false, true, true, false)), (String ((Ascii (true, false,
              false, true, false, true, true, false)), (String ((Ascii (true,
              true, false, false, false, true, true, false)), (String ((Ascii
              (true, false, true, false, false, true, true, false)), (String
              ((Ascii (true, true, false, false, true, true, true, false)),
              (String ((Ascii (true, true, false, true, true, false, true,
              false)), (String ((Ascii (true, false, false, true, false,
              true, true, false)), (String ((Ascii (false, false, true,
              false, false, true, true, false)), (String ((Ascii (false,
              false, false, true, true, true, true, false)), (String ((Ascii
              (true, false, true, true, true, false, true, false)), (String
              ((Ascii (true, false, true, true, true, false, true, false)),
              EmptyString))))))))))))))))))))))))))))))))))))))))))))))))))))))))))))))))))))
       else bind (subel t (N.add start i)) (fun x0 ->
              let (kind, idx) = x0 in
              if N.eqb kind N0 then Val None else walk_groups t idx rest)))

(** val get_sub_element_spec :
    tables -> etype -> n list -> ((n * n) * n) option res **)

let get_sub_element_spec t t0 ixs = match ixs with
| [] -> Val None
| _ :: _ -> bind (sub_slice t (snd t0)) (fun _ -> walk_groups t (snd t0) ixs)

(** val get_sub_element_version_mask :
    tables -> etype -> n list -> n option res **)

let get_sub_element_version_mask t t0 ixs =
  bind (get_sub_element_spec t t0 ixs) (fun r -> Val (option_map snd r))

(** val get_sub_element_multiplicity :
    tables -> etype -> n list -> n option res **)

let get_sub_element_multiplicity t t0 ixs =
  bind (get_sub_element_spec t t0 ixs) (fun r ->
    match r with
    | Some p ->
      let (p0, _) = p in
      let (n0, def) = p0 in
      (match n0 with
       | N0 -> bind (elem t def) (fun e -> Val (Some e.ed_mult))
       | Npos _ -> Val None)
    | None -> Val None)

(** val get_sub_element_container_mode :
    tables -> etype -> n list -> n res **)

let get_sub_element_container_mode t t0 ixs =
  if N.ltb (N.of_nat (length ixs)) (Npos (XO XH))
  then bind (dt t (snd t0)) (fun d -> Val d.dt_mode)
  else bind (get_sub_element_spec t t0 (removelast ixs)) (fun r ->
         match r with
         | Some p ->
           let (p0, _) = p in
           let (n0, gid) = p0 in
           (match n0 with
            | N0 ->
              Pan (String ((Ascii (true, false, true, false, true, true,
                true, false)), (String ((Ascii (false, true, true, true,
                false, true, true, false)), (String ((Ascii (false, true,
                false, false, true, true, true, false)), (String ((Ascii
                (true, false, true, false, false, true, true, false)),
                (String ((Ascii (true, false, false, false, false, true,
                true, false)), (String ((Ascii (true, true, false, false,
                false, true, true, false)), (String ((Ascii (false, false,
                false, true, false, true, true, false)), (String ((Ascii
                (true, false, false, false, false, true, true, false)),
                (String ((Ascii (false, true, false, false, false, true,
                true, false)), (String ((Ascii (false, false, true, true,
                false, true, true, false)), (String ((Ascii (true, false,
                true, false, false, true, true, false)), (String ((Ascii
                (false, true, false, true, true, true, false, false)),
                (String ((Ascii (false, false, false, false, false, true,
                false, false)), (String ((Ascii (true, false, true, false,
                false, true, true, false)), (String ((Ascii (false, false,
                true, true, false, true, true, false)), (String ((Ascii
                (true, false, true, false, false, true, true, false)),
                (String ((Ascii (true, false, true, true, false, true, true,
                false)), (String ((Ascii (true, false, true, false, false,
                true, true, false)), (String ((Ascii (false, true, true,
                true, false, true, true, false)), (String ((Ascii (false,
                false, true, false, true, true, true, false)), (String
                ((Ascii (false, false, false, false, false, true, false,
                false)), (String ((Ascii (true, true, false, false, false,
                true, true, false)), (String ((Ascii (true, true, true, true,
                false, true, true, false)), (String ((Ascii (false, true,
                true, true, false, true, true, false)), (String ((Ascii
                (false, false, true, false, true, true, true, false)),
                (String ((Ascii (true, false, false, false, false, true,
                true, false)), (String ((Ascii (true, false, false, true,
                false, true, true, false)), (String ((Ascii (false, true,
                true, true, false, true, true, false)), (String ((Ascii
                (true, false, true, false, false, true, true, false)),
                (String ((Ascii (false, true, false, false, true, true, true,
                false)), (String ((Ascii (false, false, false, false, false,
                true, false, false)), (String ((Ascii (true, false, false,
                true, false, true, true, false)), (String ((Ascii (true,
                true, false, false, true, true, true, false)), (String
                ((Ascii (false, false, false, false, false, true, false,
                false)), (String ((Ascii (false, true, true, true, false,
                true, true, false)), (String ((Ascii (true, true, true, true,
                false, true, true, false)), (String ((Ascii (false, false,
                true, false, true, true, true, false)), (String ((Ascii
                (false, false, false, false, false, true, false, false)),
                (String ((Ascii (true, false, false, false, false, true,
                true, false)), (String ((Ascii (false, false, false, false,
                false, true, false, false)), (String ((Ascii (true, true,
                true, false, false, true, true, false)), (String ((Ascii
                (false, true, false, false, true, true, true, false)),
                (String ((Ascii (true, true, true, true, false, true, true,
                false)), (String ((Ascii (true, false, true, false, true,
                true, true, false)), (String ((Ascii (false, false, false,
                false, true, true, true, false)),
                EmptyString))))))))))))))))))))))))))))))))))))))))))))))))))))))))))))))))))))))))))))))))))))))))))
            | Npos p1 ->
              (match p1 with
               | XH -> bind (dt t gid) (fun d -> Val d.dt_mode)
               | _ ->
                 Pan (String ((Ascii (true, false, true, false, true, true,
                   true, false)), (String ((Ascii (false, true, true, true,
                   false, true, true, false)), (String ((Ascii (false, true,
                   false, false, true, true, true, false)), (String ((Ascii
                   (true, false, true, false, false, true, true, false)),
                   (String ((Ascii (true, false, false, false, false, true,
                   true, false)), (String ((Ascii (true, true, false, false,
                   false, true, true, false)), (String ((Ascii (false, false,
                   false, true, false, true, true, false)), (String ((Ascii
                   (true, false, false, false, false, true, true, false)),
                   (String ((Ascii (false, true, false, false, false, true,
                   true, false)), (String ((Ascii (false, false, true, true,
                   false, true, true, false)), (String ((Ascii (true, false,
                   true, false, false, true, true, false)), (String ((Ascii
                   (false, true, false, true, true, true, false, false)),
                   (String ((Ascii (false, false, false, false, false, true,
                   false, false)), (String ((Ascii (true, false, true, false,
                   false, true, true, false)), (String ((Ascii (false, false,
                   true, true, false, true, true, false)), (String ((Ascii
                   (true, false, true, false, false, true, true, false)),
                   (String ((Ascii (true, false, true, true, false, true,
                   true, false)), (String ((Ascii (true, false, true, false,
                   false, true, true, false)), (String ((Ascii (false, true,
                   true, true, false, true, true, false)), (String ((Ascii
                   (false, false, true, false, true, true, true, false)),
                   (String ((Ascii (false, false, false, false, false, true,
                   false, false)), (String ((Ascii (true, true, false, false,
                   false, true, true, false)), (String ((Ascii (true, true,
                   true, true, false, true, true, false)), (String ((Ascii
                   (false, true, true, true, false, true, true, false)),
                   (String ((Ascii (false, false, true, false, true, true,
                   true, false)), (String ((Ascii (true, false, false, false,
                   false, true, true, false)), (String ((Ascii (true, false,
                   false, true, false, true, true, false)), (String ((Ascii
                   (false, true, true, true, false, true, true, false)),
                   (String ((Ascii (true, false, true, false, false, true,
                   true, false)), (String ((Ascii (false, true, false, false,
                   true, true, true, false)), (String ((Ascii (false, false,
                   false, false, false, true, false, false)), (String ((Ascii
                   (true, false, false, true, false, true, true, false)),
                   (String ((Ascii (true, true, false, false, true, true,
                   true, false)), (String ((Ascii (false, false, false,
                   false, false, true, false, false)), (String ((Ascii
                   (false, true, true, true, false, true, true, false)),
                   (String ((Ascii (true, true, true, true, false, true,
                   true, false)), (String ((Ascii (false, false, true, false,
                   true, true, true, false)), (String ((Ascii (false, false,
                   false, false, false, true, false, false)), (String ((Ascii
                   (true, false, false, false, false, true, true, false)),
                   (String ((Ascii (false, false, false, false, false, true,
                   false, false)), (String ((Ascii (true, true, true, false,
                   false, true, true, false)), (String ((Ascii (false, true,
                   false, false, true, true, true, false)), (String ((Ascii
                   (true, true, true, true, false, true, true, false)),
                   (String ((Ascii (true, false, true, false, true, true,
                   true, false)), (String ((Ascii (false, false, false,
                   false, true, true, true, false)),
                   EmptyString))))))))))))))))))))))))))))))))))))))))))))))))))))))))))))))))))))))))))))))))))))))))))))
         | None ->
           Pan (String ((Ascii (true, false, true, false, true, true, true,
             false)), (String ((Ascii (false, true, true, true, false, true,
             true, false)), (String ((Ascii (false, true, false, false, true,
             true, true, false)), (String ((Ascii (true, false, true, false,
             false, true, true, false)), (String ((Ascii (true, false, false,
             false, false, true, true, false)), (String ((Ascii (true, true,
             false, false, false, true, true, false)), (String ((Ascii
             (false, false, false, true, false, true, true, false)), (String
             ((Ascii (true, false, false, false, false, true, true, false)),
             (String ((Ascii (false, true, false, false, false, true, true,
             false)), (String ((Ascii (false, false, true, true, false, true,
             true, false)), (String ((Ascii (true, false, true, false, false,
             true, true, false)), (String ((Ascii (false, true, false, true,
             true, true, false, false)), (String ((Ascii (false, false,
             false, false, false, true, false, false)), (String ((Ascii
             (true, false, true, false, false, true, true, false)), (String
             ((Ascii (false, false, true, true, false, true, true, false)),
             (String ((Ascii (true, false, true, false, false, true, true,
             false)), (String ((Ascii (true, false, true, true, false, true,
             true, false)), (String ((Ascii (true, false, true, false, false,
             true, true, false)), (String ((Ascii (false, true, true, true,
             false, true, true, false)), (String ((Ascii (false, false, true,
             false, true, true, true, false)), (String ((Ascii (false, false,
             false, false, false, true, false, false)), (String ((Ascii
             (true, true, false, false, false, true, true, false)), (String
             ((Ascii (true, true, true, true, false, true, true, false)),
             (String ((Ascii (false, true, true, true, false, true, true,
             false)), (String ((Ascii (false, false, true, false, true, true,
             true, false)), (String ((Ascii (true, false, false, false,
             false, true, true, false)), (String ((Ascii (true, false, false,
             true, false, true, true, false)), (String ((Ascii (false, true,
             true, true, false, true, true, false)), (String ((Ascii (true,
             false, true, false, false, true, true, false)), (String ((Ascii
             (false, true, false, false, true, true, true, false)), (String
             ((Ascii (false, false, false, false, false, true, false,
             false)), (String ((Ascii (true, false, false, true, false, true,
             true, false)), (String ((Ascii (true, true, false, false, true,
             true, true, false)), (String ((Ascii (false, false, false,
             false, false, true, false, false)), (String ((Ascii (false,
             true, true, true, false, true, true, false)), (String ((Ascii
             (true, true, true, true, false, true, true, false)), (String
             ((Ascii (false, false, true, false, true, true, true, false)),
             (String ((Ascii (false, false, false, false, false, true, false,
             false)), (String ((Ascii (true, false, false, false, false,
             true, true, false)), (String ((Ascii (false, false, false,
             false, false, true, false, false)), (String ((Ascii (true, true,
             true, false, false, true, true, false)), (String ((Ascii (false,
             true, false, false, true, true, true, false)), (String ((Ascii
             (true, true, true, true, false, true, true, false)), (String
             ((Ascii (true, false, true, false, true, true, true, false)),
             (String ((Ascii (false, false, false, false, true, true, true,
             false)),
             EmptyString)))))))))))))))))))))))))))))))))))))))))))))))))))))))))))))))))))))))))))))))))))))))))))

(** val common_group : tables -> n -> n list -> n list -> n res **)

let rec common_group t result a b =
  match a with
  | [] -> Val result
  | x :: a' ->
    (match b with
     | [] -> Val result
     | y :: b' ->
       if N.eqb x y
       then bind (sub_slice t result) (fun x0 ->
              let (p, _) = x0 in
              let (start, stop) = p in
              if N.leb (N.sub stop start) x
              then Pan (String ((Ascii (true, true, true, false, false, true,
                     true, false)), (String ((Ascii (true, false, true,
                     false, false, true, true, false)), (String ((Ascii
                     (false, false, true, false, true, true, true, false)),
                     (String ((Ascii (true, true, true, true, true, false,
                     true, false)), (String ((Ascii (true, true, false,
                     false, true, true, true, false)), (String ((Ascii (true,
                     false, true, false, true, true, true, false)), (String
                     ((Ascii (false, true, false, false, false, true, true,
                     false)), (String ((Ascii (true, true, true, true, true,
                     false, true, false)), (String ((Ascii (true, false,
                     true, false, false, true, true, false)), (String ((Ascii
                     (false, false, true, true, false, true, true, false)),
                     (String ((Ascii (true, false, true, false, false, true,
                     true, false)), (String ((Ascii (true, false, true, true,
                     false, true, true, false)), (String ((Ascii (true,
                     false, true, false, false, true, true, false)), (String
                     ((Ascii (false, true, true, true, false, true, true,
                     false)), (String ((Ascii (false, false, true, false,
                     true, true, true, false)), (String ((Ascii (true, true,
                     false, false, true, true, true, false)), (String ((Ascii
                     (false, false, false, true, false, true, false, false)),
                     (String ((Ascii (false, true, false, false, true, true,
                     true, false)), (String ((Ascii (true, false, true,
                     false, false, true, true, false)), (String ((Ascii
                     (true, true, false, false, true, true, true, false)),
                     (String ((Ascii (true, false, true, false, true, true,
                     true, false)), (String ((Ascii (false, false, true,
                     true, false, true, true, false)), (String ((Ascii
                     (false, false, true, false, true, true, true, false)),
                     (String ((Ascii (true, false, false, true, false, true,
                     false, false)), (String ((Ascii (true, true, false,
                     true, true, false, true, false)), (String ((Ascii (true,
                     false, false, true, false, true, true, false)), (String
                     ((Ascii (true, false, true, true, true, false, true,
                     false)),
                     EmptyString))))))))))))))))))))))))))))))))))))))))))))))))))))))
              else bind (subel t (N.add start x)) (fun x1 ->
                     let (kind, idx) = x1 in
                     if N.eqb kind N0
                     then Val result
                     else common_group t idx a' b'))
       else Val result)

(** val find_common_group : tables -> etype -> n list -> n list -> n res **)

let find_common_group t t0 a b =
  common_group t (snd t0) a b

(** val is_ref : tables -> etype -> bool res **)

let is_ref t t0 =
  bind (dt t (snd t0)) (fun d -> Val
    (if N.eqb d.dt_cdata N0
     then false
     else N.eqb (N.sub d.dt_cdata (Npos XH)) t.reference_type_idx))

(** val content_mode : tables -> etype -> n res **)

let content_mode t t0 =
  bind (dt t (snd t0)) (fun d -> Val d.dt_mode)

(** val chardata_spec : tables -> etype -> cdspec option res **)

let chardata_spec t t0 =
  bind (dt t (snd t0)) (fun d ->
    if N.eqb d.dt_cdata N0
    then Val None
    else bind
           (unwrap (String ((Ascii (true, true, false, false, false, false,
             true, false)), (String ((Ascii (false, false, false, true,
             false, false, true, false)), (String ((Ascii (true, false,
             false, false, false, false, true, false)), (String ((Ascii
             (false, true, false, false, true, false, true, false)), (String
             ((Ascii (true, false, false, false, false, false, true, false)),
             (String ((Ascii (true, true, false, false, false, false, true,
             false)), (String ((Ascii (false, false, true, false, true,
             false, true, false)), (String ((Ascii (true, false, true, false,
             false, false, true, false)), (String ((Ascii (false, true,
             false, false, true, false, true, false)), (String ((Ascii (true,
             true, true, true, true, false, true, false)), (String ((Ascii
             (false, false, true, false, false, false, true, false)), (String
             ((Ascii (true, false, false, false, false, false, true, false)),
             (String ((Ascii (false, false, true, false, true, false, true,
             false)), (String ((Ascii (true, false, false, false, false,
             false, true, false)), (String ((Ascii (true, true, false, true,
             true, false, true, false)), (String ((Ascii (true, false, false,
             true, false, true, true, false)), (String ((Ascii (true, false,
             true, true, true, false, true, false)),
             EmptyString))))))))))))))))))))))))))))))))))
             (t.t_cdata (N.sub d.dt_cdata (Npos XH)))) (fun c -> Val (Some c)))

(** val attr_slice : tables -> n -> ((n * n) * dtype) res **)

let attr_slice t ty =
  bind (dt t ty) (fun d -> Val ((d.dt_attr_start, d.dt_attr_end), d))

(** val find_attribute_spec :
    tables -> etype -> n -> (((n * cdspec) * n) * n) option res **)

let find_attribute_spec t t0 attrname =
  bind (attr_slice t (snd t0)) (fun x ->
    let (p, d) = x in
    let (start, stop) = p in
    bind
      (slice_chk (String ((Ascii (true, false, false, false, false, false,
        true, false)), (String ((Ascii (false, false, true, false, true,
        false, true, false)), (String ((Ascii (false, false, true, false,
        true, false, true, false)), (String ((Ascii (false, true, false,
        false, true, false, true, false)), (String ((Ascii (true, false,
        false, true, false, false, true, false)), (String ((Ascii (false,
        true, false, false, false, false, true, false)), (String ((Ascii
        (true, false, true, false, true, false, true, false)), (String
        ((Ascii (false, false, true, false, true, false, true, false)),
        (String ((Ascii (true, false, true, false, false, false, true,
        false)), (String ((Ascii (true, true, false, false, true, false,
        true, false)), (String ((Ascii (true, true, false, true, true, false,
        true, false)), (String ((Ascii (true, false, false, false, false,
        true, true, false)), (String ((Ascii (false, true, true, true, false,
        true, false, false)), (String ((Ascii (false, true, true, true,
        false, true, false, false)), (String ((Ascii (false, true, false,
        false, false, true, true, false)), (String ((Ascii (true, false,
        true, true, true, false, true, false)),
        EmptyString)))))))))))))))))))))))))))))))) start stop t.n_attributes)
      (fun _ ->
      let rec loop k pos =
        match k with
        | O -> Val None
        | S k' ->
          bind
            (unwrap (String ((Ascii (true, false, false, false, false, false,
              true, false)), (String ((Ascii (false, false, true, false,
              true, false, true, false)), (String ((Ascii (false, false,
              true, false, true, false, true, false)), (String ((Ascii
              (false, true, false, false, true, false, true, false)), (String
              ((Ascii (true, false, false, true, false, false, true, false)),
              (String ((Ascii (false, true, false, false, false, false, true,
              false)), (String ((Ascii (true, false, true, false, true,
              false, true, false)), (String ((Ascii (false, false, true,
              false, true, false, true, false)), (String ((Ascii (true,
              false, true, false, false, false, true, false)), (String
              ((Ascii (true, true, false, false, true, false, true, false)),
              (String ((Ascii (true, true, false, true, true, false, true,
              false)), (String ((Ascii (true, false, false, true, false,
              true, true, false)), (String ((Ascii (true, false, true, true,
              true, false, true, false)),
              EmptyString))))))))))))))))))))))))))
              (t.t_attributes (N.add start pos))) (fun x0 ->
            let (p0, req) = x0 in
            let (name, cdid) = p0 in
            if N.eqb name attrname
            then bind (vinfo t (N.add d.dt_attr_ver pos)) (fun ver ->
                   bind
                     (unwrap (String ((Ascii (true, true, false, false,
                       false, false, true, false)), (String ((Ascii (false,
                       false, false, true, false, false, true, false)),
                       (String ((Ascii (true, false, false, false, false,
                       false, true, false)), (String ((Ascii (false, true,
                       false, false, true, false, true, false)), (String
                       ((Ascii (true, false, false, false, false, false,
                       true, false)), (String ((Ascii (true, true, false,
                       false, false, false, true, false)), (String ((Ascii
                       (false, false, true, false, true, false, true,
                       false)), (String ((Ascii (true, false, true, false,
                       false, false, true, false)), (String ((Ascii (false,
                       true, false, false, true, false, true, false)),
                       (String ((Ascii (true, true, true, true, true, false,
                       true, false)), (String ((Ascii (false, false, true,
                       false, false, false, true, false)), (String ((Ascii
                       (true, false, false, false, false, false, true,
                       false)), (String ((Ascii (false, false, true, false,
                       true, false, true, false)), (String ((Ascii (true,
                       false, false, false, false, false, true, false)),
                       (String ((Ascii (true, true, false, true, true, false,
                       true, false)), (String ((Ascii (true, false, false,
                       true, false, true, true, false)), (String ((Ascii
                       (true, false, true, true, true, false, true, false)),
                       EmptyString))))))))))))))))))))))))))))))))))
                       (t.t_cdata cdid)) (fun c -> Val (Some (((cdid, c),
                     req), ver))))
            else loop k' (N.add pos (Npos XH)))
      in loop (N.to_nat (N.sub stop start)) N0))

(** val attribute_spec_list :
    tables -> etype -> (((n * n) * cdspec) * n) list res **)

let attribute_spec_list t t0 =
  bind (attr_slice t (snd t0)) (fun x ->
    let (p, _) = x in
    let (start, stop) = p in
    let rec loop k pos =
      match k with
      | O -> Val []
      | S k' ->
        bind
          (unwrap (String ((Ascii (true, false, false, false, false, false,
            true, false)), (String ((Ascii (false, false, true, false, true,
            false, true, false)), (String ((Ascii (false, false, true, false,
            true, false, true, false)), (String ((Ascii (false, true, false,
            false, true, false, true, false)), (String ((Ascii (true, false,
            false, true, false, false, true, false)), (String ((Ascii (false,
            true, false, false, false, false, true, false)), (String ((Ascii
            (true, false, true, false, true, false, true, false)), (String
            ((Ascii (false, false, true, false, true, false, true, false)),
            (String ((Ascii (true, false, true, false, false, false, true,
            false)), (String ((Ascii (true, true, false, false, true, false,
            true, false)), (String ((Ascii (true, true, false, true, true,
            false, true, false)), (String ((Ascii (true, false, false, true,
            false, true, true, false)), (String ((Ascii (true, false, true,
            true, true, false, true, false)),
            EmptyString))))))))))))))))))))))))))
            (t.t_attributes (N.add start pos))) (fun x0 ->
          let (p0, req) = x0 in
          let (name, cdid) = p0 in
          bind
            (unwrap (String ((Ascii (true, true, false, false, false, false,
              true, false)), (String ((Ascii (false, false, false, true,
              false, false, true, false)), (String ((Ascii (true, false,
              false, false, false, false, true, false)), (String ((Ascii
              (false, true, false, false, true, false, true, false)), (String
              ((Ascii (true, false, false, false, false, false, true,
              false)), (String ((Ascii (true, true, false, false, false,
              false, true, false)), (String ((Ascii (false, false, true,
              false, true, false, true, false)), (String ((Ascii (true,
              false, true, false, false, false, true, false)), (String
              ((Ascii (false, true, false, false, true, false, true, false)),
              (String ((Ascii (true, true, true, true, true, false, true,
              false)), (String ((Ascii (false, false, true, false, false,
              false, true, false)), (String ((Ascii (true, false, false,
              false, false, false, true, false)), (String ((Ascii (false,
              false, true, false, true, false, true, false)), (String ((Ascii
              (true, false, false, false, false, false, true, false)),
              (String ((Ascii (true, true, false, true, true, false, true,
              false)), (String ((Ascii (true, false, false, true, false,
              true, true, false)), (String ((Ascii (true, false, true, true,
              true, false, true, false)),
              EmptyString)))))))))))))))))))))))))))))))))) (t.t_cdata cdid))
            (fun c ->
            bind (loop k' (N.add pos (Npos XH))) (fun rest -> Val ((((name,
              cdid), c), req) :: rest))))
    in loop (N.to_nat (N.sub stop start)) N0)

(** val is_ordered : tables -> etype -> bool res **)

let is_ordered t t0 =
  bind (elem t (fst t0)) (fun e -> Val (negb (N.eqb e.ed_ordered N0)))

(** val splittable : tables -> etype -> n res **)

let splittable t t0 =
  bind (elem t (fst t0)) (fun e -> Val e.ed_split)

(** val splittable_in : tables -> etype -> n -> bool res **)

let splittable_in t t0 v =
  bind (elem t (fst t0)) (fun e -> Val
    (negb (N.eqb (N.coq_land e.ed_split v) N0)))

(** val std_restriction : tables -> etype -> n res **)

let std_restriction t t0 =
  bind (elem t (fst t0)) (fun e -> Val e.ed_restrict)

(** val ref_slice : tables -> n -> n list res **)

let ref_slice t ty =
  bind (dt t ty) (fun d ->
    bind
      (slice_chk (String ((Ascii (false, true, false, false, true, false,
        true, false)), (String ((Ascii (true, false, true, false, false,
        false, true, false)), (String ((Ascii (false, true, true, false,
        false, false, true, false)), (String ((Ascii (true, true, true, true,
        true, false, true, false)), (String ((Ascii (true, false, false,
        true, false, false, true, false)), (String ((Ascii (false, false,
        true, false, true, false, true, false)), (String ((Ascii (true,
        false, true, false, false, false, true, false)), (String ((Ascii
        (true, false, true, true, false, false, true, false)), (String
        ((Ascii (true, true, false, false, true, false, true, false)),
        (String ((Ascii (true, true, false, true, true, false, true, false)),
        (String ((Ascii (true, false, false, false, false, true, true,
        false)), (String ((Ascii (false, true, true, true, false, true,
        false, false)), (String ((Ascii (false, true, true, true, false,
        true, false, false)), (String ((Ascii (false, true, false, false,
        false, true, true, false)), (String ((Ascii (true, false, true, true,
        true, false, true, false)), EmptyString))))))))))))))))))))))))))))))
        d.dt_ref_start d.dt_ref_end t.n_ref_items) (fun _ ->
      let rec loop k pos =
        match k with
        | O -> Val []
        | S k' ->
          bind
            (unwrap (String ((Ascii (false, true, false, false, true, false,
              true, false)), (String ((Ascii (true, false, true, false,
              false, false, true, false)), (String ((Ascii (false, true,
              true, false, false, false, true, false)), (String ((Ascii
              (true, true, true, true, true, false, true, false)), (String
              ((Ascii (true, false, false, true, false, false, true, false)),
              (String ((Ascii (false, false, true, false, true, false, true,
              false)), (String ((Ascii (true, false, true, false, false,
              false, true, false)), (String ((Ascii (true, false, true, true,
              false, false, true, false)), (String ((Ascii (true, true,
              false, false, true, false, true, false)), (String ((Ascii
              (true, true, false, true, true, false, true, false)), (String
              ((Ascii (true, false, false, true, false, true, true, false)),
              (String ((Ascii (true, false, true, true, true, false, true,
              false)), EmptyString))))))))))))))))))))))))
              (t.t_ref_items (N.add d.dt_ref_start pos))) (fun x ->
            bind (loop k' (N.add pos (Npos XH))) (fun rest -> Val (x :: rest)))
      in loop (N.to_nat (N.sub d.dt_ref_end d.dt_ref_start)) N0))

(** val verify_reference_dest : tables -> etype -> n -> bool res **)

let verify_reference_dest t t0 dest =
  bind (ref_slice t (snd t0)) (fun l -> Val (existsb (N.eqb dest) l))

(** val reference_dest_value : tables -> etype -> etype -> n option res **)

let reference_dest_value t t0 other =
  bind (is_ref t t0) (fun r ->
    if negb r
    then Val None
    else bind (is_named t other) (fun n0 ->
           if negb n0
           then Val None
           else bind (find_attribute_spec t t0 t.attr_dest) (fun a ->
                  match a with
                  | Some p ->
                    let (p0, _) = p in
                    let (p1, _) = p0 in
                    let (_, c) = p1 in
                    (match c with
                     | CEnum items ->
                       bind (ref_slice t (snd other)) (fun ref_by -> Val
                         (find (fun rv ->
                           existsb (fun it -> N.eqb rv (fst it)) items)
                           ref_by))
                     | _ -> Val None)
                  | None -> Val None)))
