
type __ = Obj.t

val negb : bool -> bool

type nat =
| O
| S of nat

val option_map : ('a1 -> 'a2) -> 'a1 option -> 'a2 option

type ('a, 'b) sum =
| Inl of 'a
| Inr of 'b

val fst : ('a1 * 'a2) -> 'a1

val snd : ('a1 * 'a2) -> 'a2

val length : 'a1 list -> nat

val app : 'a1 list -> 'a1 list -> 'a1 list

type comparison =
| Eq
| Lt
| Gt

val add : nat -> nat -> nat

val sub : nat -> nat -> nat

val eqb : nat -> nat -> bool

val leb : nat -> nat -> bool

type byte =
| X00
| X01
| X02
| X03
| X04
| X05
| X06
| X07
| X08
| X09
| X0a
| X0b
| X0c
| X0d
| X0e
| X0f
| X10
| X11
| X12
| X13
| X14
| X15
| X16
| X17
| X18
| X19
| X1a
| X1b
| X1c
| X1d
| X1e
| X1f
| X20
| X21
| X22
| X23
| X24
| X25
| X26
| X27
| X28
| X29
| X2a
| X2b
| X2c
| X2d
| X2e
| X2f
| X30
| X31
| X32
| X33
| X34
| X35
| X36
| X37
| X38
| X39
| X3a
| X3b
| X3c
| X3d
| X3e
| X3f
| X40
| X41
| X42
| X43
| X44
| X45
| X46
| X47
| X48
| X49
| X4a
| X4b
| X4c
| X4d
| X4e
| X4f
| X50
| X51
| X52
| X53
| X54
| X55
| X56
| X57
| X58
| X59
| X5a
| X5b
| X5c
| X5d
| X5e
| X5f
| X60
| X61
| X62
| X63
| X64
| X65
| X66
| X67
| X68
| X69
| X6a
| X6b
| X6c
| X6d
| X6e
| X6f
| X70
| X71
| X72
| X73
| X74
| X75
| X76
| X77
| X78
| X79
| X7a
| X7b
| X7c
| X7d
| X7e
| X7f
| X80
| X81
| X82
| X83
| X84
| X85
| X86
| X87
| X88
| X89
| X8a
| X8b
| X8c
| X8d
| X8e
| X8f
| X90
| X91
| X92
| X93
| X94
| X95
| X96
| X97
| X98
| X99
| X9a
| X9b
| X9c
| X9d
| X9e
| X9f
| Xa0
| Xa1
| Xa2
| Xa3
| Xa4
| Xa5
| Xa6
| Xa7
| Xa8
| Xa9
| Xaa
| Xab
| Xac
| Xad
| Xae
| Xaf
| Xb0
| Xb1
| Xb2
| Xb3
| Xb4
| Xb5
| Xb6
| Xb7
| Xb8
| Xb9
| Xba
| Xbb
| Xbc
| Xbd
| Xbe
| Xbf
| Xc0
| Xc1
| Xc2
| Xc3
| Xc4
| Xc5
| Xc6
| Xc7
| Xc8
| Xc9
| Xca
| Xcb
| Xcc
| Xcd
| Xce
| Xcf
| Xd0
| Xd1
| Xd2
| Xd3
| Xd4
| Xd5
| Xd6
| Xd7
| Xd8
| Xd9
| Xda
| Xdb
| Xdc
| Xdd
| Xde
| Xdf
| Xe0
| Xe1
| Xe2
| Xe3
| Xe4
| Xe5
| Xe6
| Xe7
| Xe8
| Xe9
| Xea
| Xeb
| Xec
| Xed
| Xee
| Xef
| Xf0
| Xf1
| Xf2
| Xf3
| Xf4
| Xf5
| Xf6
| Xf7
| Xf8
| Xf9
| Xfa
| Xfb
| Xfc
| Xfd
| Xfe
| Xff

val of_bits :
  (bool * (bool * (bool * (bool * (bool * (bool * (bool * bool))))))) -> byte

val eqb0 : bool -> bool -> bool

module Nat :
 sig
  val eqb : nat -> nat -> bool

  val leb : nat -> nat -> bool

  val ltb : nat -> nat -> bool
 end

val hd : 'a1 -> 'a1 list -> 'a1

val tl : 'a1 list -> 'a1 list

val nth : nat -> 'a1 list -> 'a1 -> 'a1

val nth_error : 'a1 list -> nat -> 'a1 option

val last : 'a1 list -> 'a1 -> 'a1

val removelast : 'a1 list -> 'a1 list

val rev : 'a1 list -> 'a1 list

val concat : 'a1 list list -> 'a1 list

val map : ('a1 -> 'a2) -> 'a1 list -> 'a2 list

val flat_map : ('a1 -> 'a2 list) -> 'a1 list -> 'a2 list

val fold_left : ('a1 -> 'a2 -> 'a1) -> 'a2 list -> 'a1 -> 'a1

val fold_right : ('a2 -> 'a1 -> 'a1) -> 'a1 -> 'a2 list -> 'a1

val existsb : ('a1 -> bool) -> 'a1 list -> bool

val forallb : ('a1 -> bool) -> 'a1 list -> bool

val filter : ('a1 -> bool) -> 'a1 list -> 'a1 list

val find : ('a1 -> bool) -> 'a1 list -> 'a1 option

val firstn : nat -> 'a1 list -> 'a1 list

val skipn : nat -> 'a1 list -> 'a1 list

val seq : nat -> nat -> nat list

val repeat : 'a1 -> nat -> 'a1 list

type positive =
| XI of positive
| XO of positive
| XH

type n =
| N0
| Npos of positive

module Pos :
 sig
  type mask =
  | IsNul
  | IsPos of positive
  | IsNeg
 end

module Coq_Pos :
 sig
  val succ : positive -> positive

  val add : positive -> positive -> positive

  val add_carry : positive -> positive -> positive

  val pred_double : positive -> positive

  type mask = Pos.mask =
  | IsNul
  | IsPos of positive
  | IsNeg

  val succ_double_mask : mask -> mask

  val double_mask : mask -> mask

  val double_pred_mask : positive -> mask

  val sub_mask : positive -> positive -> mask

  val sub_mask_carry : positive -> positive -> mask

  val mul : positive -> positive -> positive

  val iter : ('a1 -> 'a1) -> 'a1 -> positive -> 'a1

  val pow : positive -> positive -> positive

  val size_nat : positive -> nat

  val compare_cont : comparison -> positive -> positive -> comparison

  val compare : positive -> positive -> comparison

  val eqb : positive -> positive -> bool

  val coq_Nsucc_double : n -> n

  val coq_Ndouble : n -> n

  val coq_lor : positive -> positive -> positive

  val coq_land : positive -> positive -> n

  val ldiff : positive -> positive -> n

  val coq_lxor : positive -> positive -> n

  val shiftl : positive -> n -> positive

  val iter_op : ('a1 -> 'a1 -> 'a1) -> positive -> 'a1 -> 'a1

  val to_nat : positive -> nat

  val of_succ_nat : nat -> positive
 end

module N :
 sig
  val succ_double : n -> n

  val double : n -> n

  val add : n -> n -> n

  val sub : n -> n -> n

  val mul : n -> n -> n

  val compare : n -> n -> comparison

  val eqb : n -> n -> bool

  val leb : n -> n -> bool

  val ltb : n -> n -> bool

  val min : n -> n -> n

  val max : n -> n -> n

  val div2 : n -> n

  val pow : n -> n -> n

  val size_nat : n -> nat

  val pos_div_eucl : positive -> n -> n * n

  val div_eucl : n -> n -> n * n

  val div : n -> n -> n

  val modulo : n -> n -> n

  val coq_lor : n -> n -> n

  val coq_land : n -> n -> n

  val ldiff : n -> n -> n

  val coq_lxor : n -> n -> n

  val shiftl : n -> n -> n

  val shiftr : n -> n -> n

  val to_nat : n -> nat

  val of_nat : nat -> n
 end

val to_N : byte -> n

type ascii =
| Ascii of bool * bool * bool * bool * bool * bool * bool * bool

val eqb1 : ascii -> ascii -> bool

val byte_of_ascii : ascii -> byte

type string =
| EmptyString
| String of ascii * string

val eqb2 : string -> string -> bool

val list_ascii_of_string : string -> ascii list

val list_byte_of_string : string -> byte list

val bytes_of_string : string -> n list

val bS : string -> n list

val bytes_eqb : n list -> n list -> bool

val nth_opt : 'a1 list -> nat -> 'a1 option

type 'a res =
| Val of 'a
| Pan of string
| Fuel

val bind : 'a1 res -> ('a1 -> 'a2 res) -> 'a2 res

val unwrap : string -> 'a1 option -> 'a1 res

val hASHCONST1 : n

val hASHCONST2 : n

val sEED1 : n

val sEED2 : n

val rOT1 : n

val rOT2 : n

val m32 : n

val rotl32 : n -> n -> n

val mix : n -> n -> n -> n -> n

val hash_loop : n list -> n -> n -> n * n

val hashfunc : n list -> (n * n) * n

type nametab = { nt_strtab : n list list; nt_disp : (n * n) list;
                 nt_mdisp : n; nt_mtab : n }

type 'a outcome =
| Ok of 'a
| Err
| Panic

val from_bytes : nametab -> n list -> n outcome

val to_str : nametab -> n -> n list option

type cdspec =
| CEnum of (n * n) list
| CPattern of n * n option
| CString of bool * n option
| CUInt
| CFloat

type elemdef = { ed_name : n; ed_type : n; ed_mult : n; ed_ordered : 
                 n; ed_split : n; ed_restrict : n }

type dtype = { dt_sub_start : n; dt_sub_end : n; dt_sub_ver : n;
               dt_attr_start : n; dt_attr_end : n; dt_attr_ver : n;
               dt_cdata : n; dt_mode : n; dt_ref_start : n; dt_ref_end : 
               n }

type tables = { t_elements : (n -> elemdef option); n_elements : n;
                t_subelements : (n -> (n * n) option); n_subelements : 
                n; t_attributes : (n -> ((n * n) * n) option);
                n_attributes : n; t_version_info : (n -> n option);
                n_version_info : n; t_datatypes : (n -> dtype option);
                n_datatypes : n; t_ref_items : (n -> n option);
                n_ref_items : n; t_cdata : (n -> cdspec option); n_cdata : 
                n; reference_type_idx : n; autosar_element : n;
                name_short_name : n; attr_dest : n }

val mSequence : n

val mChoice : n

val mBag : n

val mCharacters : n

val mMixed : n

type etype = n * n

val elem : tables -> n -> elemdef res

val dt : tables -> n -> dtype res

val vinfo : tables -> n -> n res

val subel : tables -> n -> (n * n) res

val et_new : tables -> n -> etype res

val slice_chk : string -> n -> n -> n -> unit res

val sub_slice : tables -> n -> ((n * n) * dtype) res

val find_sub : tables -> nat -> n -> n -> n -> (etype * n list) option res

val fUEL : nat

val find_sub_element :
  tables -> etype -> n -> n -> (etype * n list) option res

val short_name_version_mask : tables -> n -> n option res

val is_named : tables -> etype -> bool res

val is_named_in_version : tables -> etype -> n -> bool res

val walk_groups : tables -> n -> n list -> ((n * n) * n) option res

val get_sub_element_spec :
  tables -> etype -> n list -> ((n * n) * n) option res

val get_sub_element_version_mask : tables -> etype -> n list -> n option res

val get_sub_element_multiplicity : tables -> etype -> n list -> n option res

val get_sub_element_container_mode : tables -> etype -> n list -> n res

val common_group : tables -> n -> n list -> n list -> n res

val find_common_group : tables -> etype -> n list -> n list -> n res

val is_ref : tables -> etype -> bool res

val content_mode : tables -> etype -> n res

val chardata_spec : tables -> etype -> cdspec option res

val attr_slice : tables -> n -> ((n * n) * dtype) res

val find_attribute_spec :
  tables -> etype -> n -> (((n * cdspec) * n) * n) option res

val attribute_spec_list : tables -> etype -> (((n * n) * cdspec) * n) list res

val is_ordered : tables -> etype -> bool res

val splittable : tables -> etype -> n res

val splittable_in : tables -> etype -> n -> bool res

val ref_slice : tables -> n -> n list res

val verify_reference_dest : tables -> etype -> n -> bool res

val reference_dest_value : tables -> etype -> etype -> n option res

type id = n

type cdata =
| DEnum of n
| DString of n list
| DUInt of n
| DFloat of n

type pref =
| PNone
| PModel of n
| PElem of id

type citem =
| CElem of id
| CData of cdata

type node = { n_parent : pref; n_name : n; n_type : (n * n);
              n_content : citem list; n_attrs : (n * cdata) list;
              n_files : n list; n_comment : n list option }

type file = { f_model : n; f_name : n list; f_version : n;
              f_standalone : bool option }

type model = { m_root : id; m_files : n list; m_idents : (n list * id) list;
               m_origins : (n list * id list) list }

type world = { w_nodes : (id -> node option); w_next : id;
               w_files : file list; w_models : model list }

type err =
| ItemDeleted
| ParentElementLocked
| ElementNotIdentifiable
| ItemNameRequired
| IncorrectContentType
| ElementInsertionConflict
| InvalidSubElement
| ElementNotFound
| ShortNameRemovalForbidden
| NotReferenceElement
| InvalidReference
| DuplicateItemName
| ForbiddenMoveToSubElement
| ForbiddenCopyOfParent
| InvalidPosition
| VersionMismatch
| VersionIncompatibleData
| InvalidAttribute
| InvalidAttributeValue
| NoFilesInModel
| InvalidFile
| FilesetModificationForbidden
| DuplicateFilenameError
| EmptyFile
| InvalidFileMerge
| OverlappingDataError
| LoadError

type 'a out =
| OK of 'a
| ER of err

type 'a w = world -> ('a out * world) res

val wret : 'a1 -> 'a1 w

val wfail : err -> 'a1 w

val wpanic : string -> 'a1 w

val wfuel : 'a1 w

val wbind : 'a1 w -> ('a1 -> 'a2 w) -> 'a2 w

val wtry : 'a1 w -> 'a1 option w

val wcatch : 'a1 w -> 'a1 out w

val wget : world w

val wput : world -> unit w

val wlift : 'a1 res -> 'a1 w

val upd : (id -> node option) -> id -> node -> id -> node option

val get_node : id -> node w

val set_node : id -> node -> unit w

val alloc : node -> id w

val modify_node : id -> (node -> node) -> unit w

val set_parent : node -> pref -> node

val set_content : node -> citem list -> node

val set_attrs : node -> (n * cdata) list -> node

val set_files : node -> n list -> node

val set_comment : node -> n list option -> node

val get_model : n -> model w

val list_set : 'a1 list -> nat -> 'a1 -> 'a1 list

val set_model : n -> model -> unit w

val modify_model : n -> (model -> model) -> unit w

val get_file : n -> file w

val set_file : n -> file -> unit w

val set_root : model -> id -> model

val set_mfiles : model -> n list -> model

val set_idents : model -> (n list * id) list -> model

val set_origins : model -> (n list * id list) list -> model

val insert_at : 'a1 list -> nat -> 'a1 -> 'a1 list

val remove_at : 'a1 list -> nat -> 'a1 list

val swap_remove_at : 'a1 list -> nat -> 'a1 list

val index_of : ('a1 -> bool) -> 'a1 list -> nat option

val set_add : n -> n list -> n list

val set_mem : n -> n list -> bool

val set_remove : n -> n list -> n list

val is_empty : 'a1 list -> bool

val citem_is : id -> citem -> bool

val strip_prefix : n list -> n list -> n list option

val starts_with_slash : n list -> bool

val assoc_get : n list -> (n list * 'a1) list -> 'a1 option

val assoc_insert : n list -> 'a1 -> (n list * 'a1) list -> (n list * 'a1) list

val assoc_index : n list -> (n list * 'a1) list -> nat option

val assoc_swap_remove : n list -> (n list * 'a1) list -> (n list * 'a1) list

val assoc_remove : n list -> (n list * 'a1) list -> (n list * 'a1) list

val dec_aux : nat -> n -> n list -> n list

val to_dec : n -> n list

val sHORT : tables -> n

val wl : 'a1 res -> 'a1 w

val fuel_of : world -> nat

val opt_le : n option -> nat -> bool

val check_value :
  (n -> n list -> bool res) -> cdata -> cdspec -> n -> bool res

val value_compat : cdata -> cdspec -> n -> bool * n

val cdata_to_string : nametab -> cdata -> n list res

val character_data : tables -> node -> cdata option res

val item_name : tables -> node -> n list option w

val is_identifiable : tables -> node -> bool w

val parent_of : node -> id option w

val up_names : tables -> nat -> pref -> n list list -> n list list w

val join_path : n list list -> n list

val path_unchecked : tables -> node -> n list w

val path_of : tables -> node -> n list w

val path_id : tables -> id -> n list w

val model_walk : nat -> id -> n w

val model_of : id -> n w

val fm_walk : nat -> id -> id -> (bool * n list) w

val file_membership : id -> (bool * n list) w

val min_version : n -> id -> n w

val get_element_by_path : n -> n list -> id option w

val add_identifiable : n -> n list -> id -> unit w

val remove_identifiable : n -> n list -> unit w

val fix_identifiables : n -> n list -> n list -> unit w

val add_reference_origin : n -> n list -> id -> unit w

val remove_first : id -> id list -> id list

val fix_reference_origins : n -> n list -> n list -> id -> unit w

val remove_reference_origin : n -> n list -> id -> unit w

val lex_cmp : n list -> n list -> comparison

val list_eqbN : n list -> n list -> bool

val repeat_conflict : tables -> (n * n) -> n list -> bool res

val range_loop :
  tables -> (n * n) -> n -> n list -> citem list -> n -> n -> n -> (n * n) w

val calc_element_insert_range : tables -> node -> n -> n -> (n * n) w

val content_insert : id -> n -> citem -> unit w

val new_node : pref -> n -> (n * n) -> node

val create_sub_element_inner : tables -> id -> n -> n -> n -> id w

val raw_create_sub_element : tables -> id -> n -> n -> id w

val raw_create_sub_element_at : tables -> id -> n -> n -> n -> id w

val raw_set_character_data :
  tables -> (n -> n list -> bool res) -> id -> cdata -> n -> unit w

val create_named_sub_element_inner :
  tables -> (n -> n list -> bool res) -> id -> n -> n list -> n -> n -> n ->
  id w

val raw_create_named_sub_element :
  tables -> (n -> n list -> bool res) -> id -> n -> n list -> n -> n -> id w

val raw_create_named_sub_element_at :
  tables -> (n -> n list -> bool res) -> id -> n -> n list -> n -> n -> n ->
  id w

val copy_attrs :
  tables -> (n * n) -> n -> (n * cdata) list -> (n * cdata) list ->
  (n * cdata) list w

val deep_copy : tables -> nat -> id -> n -> id w

val unique_loop :
  nat -> n -> n list -> n list -> n list -> n -> (n list * n) w

val make_unique_item_name : tables -> id -> n -> n list -> n list w

val ancestor_is : nat -> pref -> id -> bool w

val register_subtree : tables -> nat -> n -> n list -> id -> unit w

val create_copied_sub_element_inner :
  tables -> id -> id -> n -> n -> n -> id w

val raw_create_copied_sub_element : tables -> id -> id -> n -> n -> id w

val raw_create_copied_sub_element_at :
  tables -> id -> id -> n -> n -> n -> id w

val dfs_ids : nat -> id -> id list w

val named_paths : tables -> id list -> (n list * id) list w

val detach_from : id -> id -> unit w

val move_element_position : id -> id -> n -> id w

val move_element_local :
  tables -> (n -> n list -> bool res) -> id -> id -> n -> n -> n -> id w

val ref_texts : tables -> nametab -> id list -> (n list * id) list w

val move_element_full :
  tables -> nametab -> (n -> n list -> bool res) -> id -> id -> n -> n -> n
  -> n -> id w

val remove_internal : tables -> nat -> id -> n -> n list -> unit w

val raw_remove_sub_element : tables -> n -> n -> n -> unit w

val e_create_sub_element : tables -> n -> n -> n -> id w

val e_create_sub_element_at : tables -> n -> n -> n -> n -> id w

val e_create_named_sub_element :
  tables -> (n -> n list -> bool res) -> n -> n -> n -> n list -> id w

val e_create_named_sub_element_at :
  tables -> (n -> n list -> bool res) -> n -> n -> n -> n list -> n -> id w

val e_create_copied_sub_element : tables -> n -> n -> n -> id w

val e_create_copied_sub_element_at : tables -> n -> n -> n -> n -> id w

val e_move_element_here :
  tables -> nametab -> (n -> n list -> bool res) -> n -> n -> n -> id w

val e_move_element_here_at :
  tables -> nametab -> (n -> n list -> bool res) -> n -> n -> n -> n -> id w

val e_remove_sub_element : tables -> n -> n -> unit w

val first_named : n -> citem list -> id option w

val get_sub_element : n -> n -> id option w

val e_remove_sub_element_kind : tables -> n -> n -> unit w

val strip_suffix : n list -> n list -> n list option

val e_set_item_name :
  tables -> (n -> n list -> bool res) -> n -> n -> n list -> unit w

val e_set_character_data :
  tables -> nametab -> (n -> n list -> bool res) -> n -> n -> cdata -> unit w

val e_remove_character_data : tables -> n -> unit w

val e_insert_character_content_item : tables -> n -> n list -> n -> unit w

val e_remove_character_content_item : tables -> n -> n -> unit w

val raw_set_attribute :
  tables -> (n -> n list -> bool res) -> n -> n -> cdata -> n -> unit w

val e_set_attribute :
  tables -> (n -> n list -> bool res) -> n -> n -> n -> cdata -> unit w

val e_remove_attribute : tables -> n -> n -> bool w

val attr_value : node -> n -> cdata option

val e_set_reference_target :
  tables -> nametab -> nametab -> (n -> n list -> bool res) -> n -> n -> n ->
  unit w

val e_get_reference_target : tables -> n -> id w

val replace_dd : n list -> n list

val e_set_comment : n -> n list option -> unit w

val e_get_or_create_sub_element : tables -> n -> n -> n -> id w

val first_named_item : tables -> n -> n list -> citem list -> id option w

val e_get_or_create_named_sub_element :
  tables -> (n -> n list -> bool res) -> n -> n -> n -> n list -> id w

val parent_splittable : tables -> node -> bool w

val add_to_file_restricted : tables -> nat -> n -> n -> unit w

val file_model : n -> n w

val e_add_to_file : tables -> n -> n -> unit w

val e_remove_from_file : tables -> n -> n -> unit w

val new_model : tables -> (n * cdata) list -> n w

val m_create_file : tables -> n -> n list -> n -> n w

val set_file_membership : tables -> n -> n list -> unit w

val m_remove_file : tables -> n -> n -> unit w

type op =
| OpCreateSub of n * n
| OpCreateSubAt of n * n * n
| OpCreateNamed of n * n * n list
| OpCreateNamedAt of n * n * n list * n
| OpCopy of n * n
| OpCopyAt of n * n * n
| OpMove of n * n
| OpMoveAt of n * n * n
| OpRemove of n * n
| OpRemoveKind of n * n
| OpSetItemName of n * n list
| OpSetCData of n * cdata
| OpRemoveCData of n
| OpInsertCItem of n * n list * n
| OpRemoveCItem of n * n
| OpSetRefTarget of n * n
| OpSetAttr of n * n * cdata
| OpRemoveAttr of n * n
| OpSetComment of n * n list option
| OpGetOrCreate of n * n
| OpGetOrCreateNamed of n * n * n list
| OpNewModel
| OpCreateFile of n * n list * n
| OpRemoveFile of n * n
| OpAddToFile of n * n
| OpRemoveFromFile of n * n

type value =
| VUnit
| VElem of id
| VBool of bool
| VFile of n
| VModel of n

val welem : id w -> value w

val wunit : unit w -> value w

val run_op :
  tables -> nametab -> nametab -> (n -> n list -> bool res) -> n ->
  (n * cdata) list -> op -> value w

val mem_id : id -> id list -> bool

val walk : nat -> world -> id -> id list

val add_new : id list -> id list -> id list

val discover : world -> id list -> id option -> id list

val q_parent : id -> id option w

val q_position : id -> n option w

val q_path : tables -> id -> n list w

val q_model : id -> n w

val q_file_membership : id -> (bool * n list) w

val q_min_version : n -> id -> n w

val q_item_name : tables -> id -> n list option w

val q_is_identifiable : tables -> id -> bool w

val q_get_by_path : n -> n list -> id option w

val q_refs_to : n -> n list -> id list w

val q_get_reference_target : tables -> id -> id w

val q_character_data : tables -> id -> cdata option w

val q_insert_range : tables -> id -> n -> n -> (n * n) w

val q_check_references : tables -> n -> id list w

val digit_val : n -> n -> n option

val digits_val : n -> n -> n -> n list -> n option

val from_str_radix_u : n -> n -> n list -> n option

val cthen : comparison -> comparison -> comparison

val parse_integer_u64 : cdata -> n option

val p63 : n

val f64_mag : n -> n

val f64_total_key : n -> n

val f64_total_cmp : n -> n -> comparison

val is_digit : n -> bool

val split_digits : n list -> n list * n list

val decompose : n list -> (n list * n) option

val name_key : n list -> n list * n option

val opt_cmp :
  ('a1 -> 'a1 -> comparison) -> 'a1 option -> 'a1 option -> comparison

val name_cmp : n list -> n list -> comparison

val ins_left : ('a1 -> 'a1 -> comparison) -> 'a1 -> 'a1 list -> 'a1 list

val isort : ('a1 -> 'a1 -> comparison) -> 'a1 list -> 'a1 list

val isort_poly : ('a1 -> 'a1 -> comparison) -> 'a1 list -> 'a1 list

type policy = { p_name : (n list -> n list -> comparison);
                p_both_only : bool; p_float : (n -> n -> comparison) }

val policy_cur : policy

val decided : comparison -> comparison option

val stage_present :
  ('a1 -> 'a1 -> comparison) -> 'a1 option -> 'a1 option -> comparison option

val stage_both :
  ('a1 -> 'a1 -> comparison) -> 'a1 option -> 'a1 option -> comparison option

val stage_opt :
  bool -> ('a1 -> 'a1 -> comparison) -> 'a1 option -> 'a1 option ->
  comparison option

val orelse : comparison option -> comparison option -> comparison option

val slice_cmp :
  ('a1 -> 'a1 -> comparison res) -> 'a1 list -> 'a1 list -> comparison res

type nkeys = { k_name : n list; k_index : n option; k_iname : n list option;
               k_defref : n list option; k_dest : n list option }

val head_stages : policy -> nkeys -> nkeys -> comparison option

val cdata_cmp : nametab -> policy -> cdata -> cdata -> comparison res

val attr_cmp :
  nametab -> nametab -> policy -> (n * cdata) -> (n * cdata) -> comparison res

val item_cmp :
  nametab -> policy -> (id -> id -> comparison res) -> citem -> citem ->
  comparison res

val nd : world -> id -> node res

val first_named_p : world -> n -> citem list -> id option res

val sub_cdata : tables -> world -> node -> n -> cdata option res

val item_name_p : tables -> world -> node -> n list option res

val index_key : tables -> n -> world -> node -> n option res

val defref_key : tables -> n -> world -> node -> n list option res

val dest_key : tables -> nametab -> node -> n list option res

val node_keys :
  tables -> nametab -> nametab -> n -> n -> world -> node -> nkeys res

val cmp_f :
  tables -> nametab -> nametab -> nametab -> n -> n -> policy -> world -> nat
  -> id -> id -> comparison res

val cmp_p :
  tables -> nametab -> nametab -> nametab -> n -> n -> policy -> world -> id
  -> id -> comparison res

val wpure : (world -> 'a1 res) -> 'a1 w

val elem_cmp :
  tables -> nametab -> nametab -> nametab -> n -> n -> id -> id -> comparison
  w

val key_cmp :
  (id -> id -> comparison) -> (n list * id) -> (n list * id) -> comparison

val row_val :
  tables -> nametab -> nametab -> nametab -> n -> n -> world -> id -> id list
  -> unit res

val all_pairs_val :
  tables -> nametab -> nametab -> nametab -> n -> n -> world -> id list -> id
  list -> unit res

val cmp_total :
  tables -> nametab -> nametab -> nametab -> n -> n -> world -> id -> id ->
  comparison

val keyed_loop :
  tables -> (id -> unit w) -> (n * n) -> citem list -> (n list * id) list w

val iter_loop : (id -> unit w) -> citem list -> unit w

val sort_f :
  tables -> nametab -> nametab -> nametab -> n -> n -> (__ -> (__ -> __ ->
  comparison) -> __ list -> __ list) -> nat -> id -> unit w

val e_sort_with :
  tables -> nametab -> nametab -> nametab -> n -> n -> (__ -> (__ -> __ ->
  comparison) -> __ list -> __ list) -> id -> unit w

val m_sort_with :
  tables -> nametab -> nametab -> nametab -> n -> n -> (__ -> (__ -> __ ->
  comparison) -> __ list -> __ list) -> n -> unit w

val e_sort : tables -> nametab -> nametab -> nametab -> n -> n -> id -> unit w

val m_sort : tables -> nametab -> nametab -> nametab -> n -> n -> n -> unit w

val set_standalone : file -> bool option -> file

val dup_files :
  tables -> n -> n list -> (n list * n) list -> (n list * n) list w

val dup_children : tables -> n -> id -> citem list -> unit w

val translate_files : world -> (n list * n) list -> n list -> n list

val dup_membership : (n list * n) list -> id list -> id list -> unit w

val m_duplicate_body : tables -> n -> (n * cdata) list -> n -> n w

val drop_models_files : nat -> nat -> world -> world

val m_duplicate :
  tables -> nametab -> nametab -> (n -> n list -> bool res) -> n ->
  (n * cdata) list -> n -> n w

val in_rng : n -> n -> n -> bool

val is_cont : n -> bool

val utf8_chunk : n list -> bool * nat

val utf8_valid_fuel : nat -> n list -> bool

val utf8_valid : n list -> bool

val rEPLACEMENT : n list

val utf8_lossy_fuel : nat -> n list -> n list

val utf8_lossy : n list -> n list

val is_char : n -> bool

val utf8_encode : n -> n list

val is_ws : n -> bool

type event =
| EvHeader of bool option
| EvBegin of n list * n list
| EvEnd of n list
| EvChars of n list
| EvComment of n list
| EvEOF

type lexerr =
| IncompleteData
| InvalidElement
| InvalidProcessingInstruction
| InvalidXmlHeader
| InvalidComment

type lstate = { l_rest : n list; l_line : n; l_deferred : n list option }

type lexout =
| LOk of n * event * lstate
| LErr of n * lexerr

val position : (n -> bool) -> n list -> nat option

val count_lines : n list -> n

val starts_with : n list -> n list -> bool

val split_ws_aux : n list -> n list -> n list list

val split_ws : n list -> n list list

val lexer_new : n list -> lstate

val header_attr : n list -> (n list * n list) res

val header_attrs :
  n list list -> n list -> n list -> bool option -> ((n list * n list) * bool
  option) res

val encoding_ok : n list -> bool

val comment_end : nat -> n list -> nat -> nat option

val ends_with : n list -> n list -> bool

val lex_next : nat -> lstate -> lexout res

val lex_fuel : lstate -> nat

val next : lstate -> lexout res

val ver_enum : (string * n) list

val ver_filename : (n * string) list

val ver_from_str : (string * n) list

val ver_latest : n

val ver_value : n -> n option

val assocN : n -> (n * 'a1) list -> 'a1 option

val assocS : string -> (string * 'a1) list -> 'a1 option

val filename : n -> string option

val iotaV : n list

val assocB : n list -> (string * 'a1) list -> 'a1 option

val version_of_filename : n list -> n option

val version_of_ident : string -> n option

val version_latest : n option

type cdata0 =
| DEnum0 of n
| DString0 of n list
| DUInt0 of n
| DFloat0 of n

type etree =
| ENode of n * (n * n) * (n * cdata0) list * (etree, cdata0) sum list
   * n list option

val e_name : etree -> n

val e_content : etree -> (etree, cdata0) sum list

type pkind =
| InvalidArxmlFileHeader
| UnexpectedXmlFileHeader
| UnknownAutosarVersion
| InvalidAutosarVersion
| IncorrectBeginElement
| InvalidBeginElement
| IncorrectEndElement
| InvalidEndElement
| ElementChoiceConflict
| ElementVersionError
| TooManySubElements
| RequiredSubelementMissing
| AttributeValueError
| UnknownAttributeError
| AttributeVersionError
| RequiredAttributeMissing
| CharacterContentForbidden
| EnumItemVersionError
| UnknownEnumItem
| InvalidEnumItem
| StringValueTooLong
| RegexMatchError
| Utf8Error
| UnexpectedEndOfFile
| InvalidNumber
| AdditionalDataError
| InvalidXmlEntity

type perror =
| ErrLex of n * lexerr
| ErrParse of n * pkind * n * n

type pstate = { p_lex : lstate; p_line : n; p_version : n; p_cur : n;
                p_compat : n; p_warnings : perror list;
                p_standalone : bool option;
                p_idents : (n list * nat list) list;
                p_refs : (n list * nat list) list }

val set_lex : pstate -> lstate -> pstate

val set_line : pstate -> n -> pstate

val set_version : pstate -> n -> pstate

val set_cur : pstate -> n -> pstate

val set_compat : pstate -> n -> pstate

val add_warning : pstate -> perror -> pstate

val set_standalone0 : pstate -> bool option -> pstate

val add_ident : pstate -> (n list * nat list) -> pstate

val add_ref : pstate -> (n list * nat list) -> pstate

type 'a step =
| Ret of 'a * pstate
| Raise of perror * pstate

type 'a m = pstate -> 'a step res

val ret : 'a1 -> 'a1 m

val mbind : 'a1 m -> ('a1 -> 'a2 m) -> 'a2 m

val get : pstate m

val modify : (pstate -> pstate) -> unit m

val lift : 'a1 res -> 'a1 m

val mpanic : string -> 'a1 m

val mfuel : 'a1 m

val hard : pkind -> n -> n -> 'a1 m

val optional_error : bool -> pkind -> n -> n -> unit m

val check_version : bool -> n -> pkind -> n -> n -> unit m

val pnext : event m

val name_of : nametab -> n list -> n option res

val drop_ws : n list -> n list

val trim_len : n list -> nat

val trim_byte_string : n list -> n list res

val find_byte : n -> n list -> nat option

val unescape_loop : bool -> nat -> n list -> n list -> n list m

val unescape_string : bool -> n list -> n list m

val opt_len_gt : n option -> n list -> bool

val parse_character_data :
  bool -> nametab -> (n -> n list -> bool res) -> (n list -> n option) -> n
  list -> cdspec -> cdata0 m

val attr_loop :
  bool -> tables -> nametab -> nametab -> (n -> n list -> bool res) -> (n
  list -> n option) -> nat -> etype -> n list -> (n * cdata0) list -> (n
  list * (n * cdata0) list) m

val req_loop :
  bool -> n -> (n * cdata0) list -> (((n * n) * cdspec) * n) list -> unit m

val parse_attribute_text :
  bool -> tables -> nametab -> nametab -> (n -> n list -> bool res) -> (n
  list -> n option) -> etype -> n list -> (n * cdata0) list m

val split_on : n -> n list -> n list -> n list list

val ver_or_panic : n option -> n m

val parse_file_version : bool -> n list -> n m

val attr_string : n -> (n * cdata0) list -> n list option option

val attr_id : nametab -> n list -> n m

val parse_file_header : bool -> nametab -> (n * cdata0) list -> unit m

val find_element_in_spec_checked :
  bool -> tables -> n -> etype -> (etype * n list) m

val list_eqbN0 : n list -> n list -> bool

val check_element_conflict :
  bool -> tables -> n -> etype -> n list -> n list -> unit m

val check_multiplicity :
  bool -> tables -> n -> etype -> n list -> (etree, cdata0) sum list -> unit m

val first_string : etree -> n list option

val pe_loop :
  bool -> tables -> nametab -> nametab -> nametab -> (n -> n list -> bool
  res) -> (n list -> n option) -> (n -> etype -> (n * cdata0) list -> n list
  option -> n list -> nat list -> etree m) -> nat -> n -> etype ->
  (n * cdata0) list -> n list option -> nat list -> (etree, cdata0) sum list
  -> n list -> bool -> n list option -> n list -> etree m

val parse_element :
  bool -> tables -> nametab -> nametab -> nametab -> (n -> n list -> bool
  res) -> (n list -> n option) -> nat -> nat -> n -> etype -> (n * cdata0)
  list -> n list option -> n list -> nat list -> etree m

val verify_end_of_input : bool -> unit m

val root_type : tables -> etype m

val autosar_name : tables -> n m

val skip_comments : nat -> n list option -> event -> (n list option * event) m

val parse_arxml :
  bool -> tables -> nametab -> nametab -> nametab -> (n -> n list -> bool
  res) -> (n list -> n option) -> nat -> etree m

val init_pstate : n list -> n -> n -> pstate

val load :
  bool -> tables -> nametab -> nametab -> nametab -> (n -> n list -> bool
  res) -> (n list -> n option) -> n list -> etree step res

val to_hc : cdata0 -> cdata

type itree =
| INode of id * itree option list

val it_id : itree -> id

val install : pref -> etree -> itree w

val it_at : itree -> nat list -> id option

val dEAD : n

val dEAD_FILE_BASE : n

val is_dead : node -> bool

val node_dead : world -> id -> bool

val cdata_only : citem list -> citem list

val kill : node -> node

val n_range : nat -> n -> n list

val kill_unreachable : id -> id list -> unit w

val rename_file : n -> n -> node -> node

val drop_file : n -> unit w

val rd : 'a1 w -> world -> 'a1 res

type ckey = { k_id : id; k_name0 : n; k_ident : bool res;
              k_item : n list option res; k_defref0 : n list option res;
              k_idx : n list option res }

val defref_of : tables -> n -> node -> n list option w

val key_of : tables -> n -> world -> (n * n) -> id -> ckey res

val keys_of : tables -> n -> world -> (n * n) -> citem list -> ckey list res

type action =
| MergeEqual
| MergeUnequal of id
| AOnly
| BOnly of n

val opt_bytes_eqb : n list option -> n list option -> bool

val find_sibling_item : n -> n list option -> ckey list -> id option res

val find_sibling_defref : n -> n list option -> ckey list -> id option res

val calc_identifiables_merge :
  ckey list -> ckey -> ckey -> bool -> action out res

val calc_element_merge : ckey list -> ckey -> ckey -> action res

val find_merge_partner : ckey list -> ckey -> id option res

val merge_action :
  ckey list -> ckey list -> bool -> n -> ckey -> ckey -> action out res

val merged_b : (id * id) list -> id -> bool

type walked = { wk_merge : (id * id) list; wk_a_only : id list;
                wk_b_only : (id * n) list }

val walk0 :
  nat -> ckey list -> ckey list -> bool -> n -> n -> ckey list -> ckey list
  -> walked -> walked out res

val files_min_version : n -> world -> n list -> n

val restrict_a_only : id list -> n list -> unit w

val import_new_items : tables -> id -> (id * n) list -> n -> n -> n -> unit w

val merge_element :
  tables -> n -> n -> nat -> id -> n list -> id -> n -> unit w

val merge_file_data : tables -> n -> n -> n -> n -> n -> unit w

val ident_live : world -> model -> n list -> id option

val overlap_check :
  world -> model -> itree -> (n list * nat list) list -> n list list -> bool
  res

val fill_identifiables : n -> itree -> (n list * nat list) list -> unit w

val fill_references : n -> itree -> (n list * nat list) list -> unit w

val load_parsed : tables -> n -> n -> n -> n list -> etree -> pstate -> n w

val m_load_buffer :
  tables -> nametab -> nametab -> nametab -> (n -> n list -> bool res) -> (n
  list -> n option) -> n -> n -> n -> n list -> n list -> bool -> (n * perror
  list) w

val q_get_by_path_live : n -> n list -> id option w

val q_check_references_live : tables -> n -> id list w

type compat_err =
| CEAttr of id * n * n
| CEAttrValue of id * n * n
| CEElem of id * n

val u32MAX : n

val compatible : n -> n -> bool

val node_at : world -> id -> node res

type cres = compat_err list * n

val recalc_element_type : tables -> world -> node -> n -> (n * n) res

val attr_step :
  tables -> id -> (n * n) -> (n * n) -> n -> (n * cdata) -> cres res

val attr_loop0 :
  tables -> id -> (n * n) -> (n * n) -> n -> (n * cdata) list -> cres res

val text_loop : id -> cdspec -> n -> citem list -> cres

val sub_loop :
  tables -> (id -> cres res) -> world -> (n * n) -> (n * n) -> n -> n ->
  citem list -> cres res

val e_check : tables -> nat -> world -> n -> n -> n -> cres res

val f_check : tables -> world -> n -> n -> cres res

val f_check_version_compatibility : tables -> n -> n -> cres w

val f_set_version : tables -> n -> n -> unit w

val escape_byte : n -> n list

val escape_text : n list -> n list

val dec_digits : nat -> n -> n list -> n list

val dec_of_N : n -> n list

val newline_indent : nat -> n list

val ser_cdata : nametab -> (n -> n list) -> cdata0 -> n list res

val ser_attrs :
  nametab -> nametab -> (n -> n list) -> (n * cdata0) list -> n list res

val comment_part : n list option -> nat -> bool -> n list

val xml_header : bool option -> n list

val to_pc : cdata -> cdata0

val ser_cd : nametab -> (n -> n list) -> cdata -> n list res

val ser_ats :
  nametab -> nametab -> (n -> n list) -> (n * cdata) list -> n list res

val passes : n option -> node -> bool

val ser_heap :
  tables -> nametab -> nametab -> nametab -> (n -> n list) -> nat -> world ->
  n option -> id -> nat -> bool -> n list res

val e_serialize :
  tables -> nametab -> nametab -> nametab -> (n -> n list) -> id -> n list w

val filename_of_value : n -> n list option

val f_serialize :
  tables -> nametab -> nametab -> nametab -> (n -> n list -> bool res) -> (n
  -> n list) -> n -> n -> n list w

type op2 =
| Op1 of op
| OpSort of n
| OpSortModel of n
| OpDuplicate of n
| OpLoad of n * n list * n list * bool
| OpSetVersion of n * n
| OpCheckCompat of n * n
| OpSerializeFile of n
| OpSerializeElem of n

type value2 =
| V1 of value
| VText of n list
| VCompat of compat_err list * n
| VLoad of n * perror list

val run_op2 :
  tables -> nametab -> nametab -> nametab -> (n -> n list -> bool res) -> (n
  list -> n option) -> (n -> n list) -> n -> n -> n -> n -> (n * cdata) list
  -> op2 -> value2 w

val q_cmp :
  tables -> nametab -> nametab -> nametab -> n -> n -> id -> id -> comparison
  w

val q_serialize_file :
  tables -> nametab -> nametab -> nametab -> (n -> n list -> bool res) -> (n
  -> n list) -> n -> n -> n list w

type htree =
| HNode of n * (n * n) * (n * cdata) list * (htree, cdata) sum list
   * n list option * n list

val h_local : htree -> n list

val abs : nat -> world -> id -> htree option

val abs_model : world -> n -> htree option

val h_name : htree -> n

val h_ty : htree -> n * n

val h_content : htree -> (htree, cdata) sum list

val h_set_local : htree -> n list -> htree

val h_set_content : htree -> (htree, cdata) sum list -> htree

val cdata_eqb : cdata -> cdata -> bool

val attrs_eqb : (n * cdata) list -> (n * cdata) list -> bool

val opt_eqb : n list option -> n list option -> bool

val htree_eqb : htree -> htree -> bool

val htree_of_etree : etree -> htree

val h_character_data : tables -> htree -> cdata option res

val h_item_name : tables -> htree -> n list option res

val h_is_identifiable : tables -> htree -> bool res

val h_first_named : n -> (htree, cdata) sum list -> htree option

val h_defref : tables -> n -> htree -> n list option res

val hkey : tables -> n -> (n * n) -> n -> htree -> ckey

val hkeys :
  tables -> n -> (n * n) -> n -> (htree, cdata) sum list -> ckey list

val p_range_loop :
  tables -> (n * n) -> n -> n list -> n option list -> n -> n -> n -> (n * n)
  out res

val item_name_of : (htree, cdata) sum -> n option

val p_insert_range :
  tables -> (n * n) -> (htree, cdata) sum list -> n -> n -> (n * n) out res

val p_files_min_version : n -> (n -> n option) -> n list -> n

val lookup_merge : id -> (id * id) list -> id option

val h_restrict : n list -> htree -> htree

val h_bump : n -> htree -> htree

val h_import : n -> htree -> htree

val p_import :
  tables -> (n * n) -> (htree, cdata) sum list -> (id * n) list -> n -> n ->
  n -> (htree, cdata) sum list -> (htree, cdata) sum list out res

val pmerge :
  tables -> n -> n -> (n -> n option) -> nat -> htree -> n list -> htree -> n
  -> htree out res

val pmerge_file :
  tables -> n -> n -> (n -> n option) -> htree -> n list -> htree -> n ->
  htree out res

val check_load :
  tables -> n -> n -> world -> n -> etree -> n -> n out -> world -> string
  option

val check_load_buffer :
  tables -> n -> n -> nametab -> nametab -> nametab -> (n -> n list -> bool
  res) -> (n list -> n option) -> world -> n -> n list -> bool -> n out ->
  world -> string option

val in_range : n -> (n * n) -> bool

val class_mem : (n * n) list -> n -> bool

val dfa_go : n list list -> n list -> n -> n list -> bool option

val dfa_run : n list list -> n list -> n list -> bool option

type vexpr =
| VLenGe of nat
| VLenEq of nat
| VLenLe of nat
| VNonEmpty
| VStarts of n list
| VEq of n list
| VAll of (n * n) list
| VAt of nat * (n * n) list
| VSkip of nat * vexpr
| VAnd of vexpr * vexpr
| VOr of vexpr * vexpr
| VStripOpt of (n * n) list * vexpr
| VSplitAll of n * vexpr
| VSplitCount of n * nat

val prefixb : n list -> n list -> bool

val split : n -> n list -> n list list

val all_opt : (n list -> bool option) -> n list list -> bool option

val veval : vexpr -> n list -> bool option

val sub_range : n -> n -> (n * n) -> (n * n) list

val complement : (n * n) list -> (n * n) list

val v_1 : vexpr

val v_4 : vexpr

val v_5 : vexpr

val v_6 : vexpr

val v_7 : vexpr

val v_8 : vexpr

val v_10 : vexpr

val v_11 : vexpr

val v_15 : vexpr

val v_17 : vexpr

val v_19 : vexpr

val v_20 : vexpr

val v_23 : vexpr

val v_24 : vexpr

val v_27 : vexpr

val xml_vexpr : n -> vexpr option

val check_fn_model :
  (n -> (n list list * n list) option) -> n -> n list -> bool res
