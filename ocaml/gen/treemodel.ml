
type __ = Obj.t
let __ = let rec f _ = Obj.repr f in Obj.repr f

(** val negb : bool -> bool **)

let negb = function
| true -> false
| false -> true

type nat =
| O
| S of nat

(** val option_map : ('a1 -> 'a2) -> 'a1 option -> 'a2 option **)

let option_map f = function
| Some a -> Some (f a)
| None -> None

type ('a, 'b) sum =
| Inl of 'a
| Inr of 'b

(** val fst : ('a1 * 'a2) -> 'a1 **)

let fst = function
| (x, _) -> x

(** val snd : ('a1 * 'a2) -> 'a2 **)

let snd = function
| (_, y) -> y

(** val length : 'a1 list -> nat **)

let rec length = function
| [] -> O
| _ :: l' -> S (length l')

(** val app : 'a1 list -> 'a1 list -> 'a1 list **)

let rec app l m0 =
  match l with
  | [] -> m0
  | a :: l1 -> a :: (app l1 m0)

type comparison =
| Eq
| Lt
| Gt

module Coq__1 = struct
 (** val add : nat -> nat -> nat **)
 let rec add n0 m0 =
   match n0 with
   | O -> m0
   | S p -> S (add p m0)
end
include Coq__1

(** val sub : nat -> nat -> nat **)

let rec sub n0 m0 =
  match n0 with
  | O -> n0
  | S k -> (match m0 with
            | O -> n0
            | S l -> sub k l)

(** val eqb : nat -> nat -> bool **)

let rec eqb n0 m0 =
  match n0 with
  | O -> (match m0 with
          | O -> true
          | S _ -> false)
  | S n' -> (match m0 with
             | O -> false
             | S m' -> eqb n' m')

(** val leb : nat -> nat -> bool **)

let rec leb n0 m0 =
  match n0 with
  | O -> true
  | S n' -> (match m0 with
             | O -> false
             | S m' -> leb n' m')

type byte =
| X00
| X01
| X02
| X03
| X04
| X05
| X06
| X07
| X08
| X09
| X0a
| X0b
| X0c
| X0d
| X0e
| X0f
| X10
| X11
| X12
| X13
| X14
| X15
| X16
| X17
| X18
| X19
| X1a
| X1b
| X1c
| X1d
| X1e
| X1f
| X20
| X21
| X22
| X23
| X24
| X25
| X26
| X27
| X28
| X29
| X2a
| X2b
| X2c
| X2d
| X2e
| X2f
| X30
| X31
| X32
| X33
| X34
| X35
| X36
| X37
| X38
| X39
| X3a
| X3b
| X3c
| X3d
| X3e
| X3f
| X40
| X41
| X42
| X43
| X44
| X45
| X46
| X47
| X48
| X49
| X4a
| X4b
| X4c
| X4d
| X4e
| X4f
| X50
| X51
| X52
| X53
| X54
| X55
| X56
| X57
| X58
| X59
| X5a
| X5b
| X5c
| X5d
| X5e
| X5f
| X60
| X61
| X62
| X63
| X64
| X65
| X66
| X67
| X68
| X69
| X6a
| X6b
| X6c
| X6d
| X6e
| X6f
| X70
| X71
| X72
| X73
| X74
| X75
| X76
| X77
| X78
| X79
| X7a
| X7b
| X7c
| X7d
| X7e
| X7f
| X80
| X81
| X82
| X83
| X84
| X85
| X86
| X87
| X88
| X89
| X8a
| X8b
| X8c
| X8d
| X8e
| X8f
| X90
| X91
| X92
| X93
| X94
| X95
| X96
| X97
| X98
| X99
| X9a
| X9b
| X9c
| X9d
| X9e
| X9f
| Xa0
| Xa1
| Xa2
| Xa3
| Xa4
| Xa5
| Xa6
| Xa7
| Xa8
| Xa9
| Xaa
| Xab
| Xac
| Xad
| Xae
| Xaf
| Xb0
| Xb1
| Xb2
| Xb3
| Xb4
| Xb5
| Xb6
| Xb7
| Xb8
| Xb9
| Xba
| Xbb
| Xbc
| Xbd
| Xbe
| Xbf
| Xc0
| Xc1
| Xc2
| Xc3
| Xc4
| Xc5
| Xc6
| Xc7
| Xc8
| Xc9
| Xca
| Xcb
| Xcc
| Xcd
| Xce
| Xcf
| Xd0
| Xd1
| Xd2
| Xd3
| Xd4
| Xd5
| Xd6
| Xd7
| Xd8
| Xd9
| Xda
| Xdb
| Xdc
| Xdd
| Xde
| Xdf
| Xe0
| Xe1
| Xe2
| Xe3
| Xe4
| Xe5
| Xe6
| Xe7
| Xe8
| Xe9
| Xea
| Xeb
| Xec
| Xed
| Xee
| Xef
| Xf0
| Xf1
| Xf2
| Xf3
| Xf4
| Xf5
| Xf6
| Xf7
| Xf8
| Xf9
| Xfa
| Xfb
| Xfc
| Xfd
| Xfe
| Xff

(** val of_bits :
    (bool * (bool * (bool * (bool * (bool * (bool * (bool * bool))))))) ->
    byte **)

let of_bits = function
| (b0, p) ->
  if b0
  then let (b1, p0) = p in
       if b1
       then let (b2, p1) = p0 in
            if b2
            then let (b3, p2) = p1 in
                 if b3
                 then let (b4, p3) = p2 in
                      if b4
                      then let (b5, p4) = p3 in
                           if b5
                           then let (b6, b7) = p4 in
                                if b6
                                then if b7 then Xff else X7f
                                else if b7 then Xbf else X3f
                           else let (b6, b7) = p4 in
                                if b6
                                then if b7 then Xdf else X5f
                                else if b7 then X9f else X1f
                      else let (b5, p4) = p3 in
                           if b5
                           then let (b6, b7) = p4 in
                                if b6
                                then if b7 then Xef else X6f
                                else if b7 then Xaf else X2f
                           else let (b6, b7) = p4 in
                                if b6
                                then if b7 then Xcf else X4f
                                else if b7 then X8f else X0f
                 else let (b4, p3) = p2 in
                      if b4
                      then let (b5, p4) = p3 in
                           if b5
                           then let (b6, b7) = p4 in
                                if b6
                                then if b7 then Xf7 else X77
                                else if b7 then Xb7 else X37
                           else let (b6, b7) = p4 in
                                if b6
                                then if b7 then Xd7 else X57
                                else if b7 then X97 else X17
                      else let (b5, p4) = p3 in
                           if b5
                           then let (b6, b7) = p4 in
                                if b6
                                then if b7 then Xe7 else X67
                                else if b7 then Xa7 else X27
                           else let (b6, b7) = p4 in
                                if b6
                                then if b7 then Xc7 else X47
                                else if b7 then X87 else X07
            else let (b3, p2) = p1 in
                 if b3
                 then let (b4, p3) = p2 in
                      if b4
                      then let (b5, p4) = p3 in
                           if b5
                           then let (b6, b7) = p4 in
                                if b6
                                then if b7 then Xfb else X7b
                                else if b7 then Xbb else X3b
                           else let (b6, b7) = p4 in
                                if b6
                                then if b7 then Xdb else X5b
                                else if b7 then X9b else X1b
                      else let (b5, p4) = p3 in
                           if b5
                           then let (b6, b7) = p4 in
                                if b6
                                then if b7 then Xeb else X6b
                                else if b7 then Xab else X2b
                           else let (b6, b7) = p4 in
                                if b6
                                then if b7 then Xcb else X4b
                                else if b7 then X8b else X0b
                 else let (b4, p3) = p2 in
                      if b4
                      then let (b5, p4) = p3 in
                           if b5
                           then let (b6, b7) = p4 in
                                if b6
                                then if b7 then Xf3 else X73
                                else if b7 then Xb3 else X33
                           else let (b6, b7) = p4 in
                                if b6
                                then if b7 then Xd3 else X53
                                else if b7 then X93 else X13
                      else let (b5, p4) = p3 in
                           if b5
                           then let (b6, b7) = p4 in
                                if b6
                                then if b7 then Xe3 else X63
                                else if b7 then Xa3 else X23
                           else let (b6, b7) = p4 in
                                if b6
                                then if b7 then Xc3 else X43
                                else if b7 then X83 else X03
       else let (b2, p1) = p0 in
            if b2
            then let (b3, p2) = p1 in
                 if b3
                 then let (b4, p3) = p2 in
                      if b4
                      then let (b5, p4) = p3 in
                           if b5
                           then let (b6, b7) = p4 in
                                if b6
                                then if b7 then Xfd else X7d
                                else if b7 then Xbd else X3d
                           else let (b6, b7) = p4 in
                                if b6
                                then if b7 then Xdd else X5d
                                else if b7 then X9d else X1d
                      else let (b5, p4) = p3 in
                           if b5
                           then let (b6, b7) = p4 in
                                if b6
                                then if b7 then Xed else X6d
                                else if b7 then Xad else X2d
                           else let (b6, b7) = p4 in
                                if b6
                                then if b7 then Xcd else X4d
                                else if b7 then X8d else X0d
                 else let (b4, p3) = p2 in
                      if b4
                      then let (b5, p4) = p3 in
                           if b5
                           then let (b6, b7) = p4 in
                                if b6
                                then if b7 then Xf5 else X75
                                else if b7 then Xb5 else X35
                           else let (b6, b7) = p4 in
                                if b6
                                then if b7 then Xd5 else X55
                                else if b7 then X95 else X15
                      else let (b5, p4) = p3 in
                           if b5
                           then let (b6, b7) = p4 in
                                if b6
                                then if b7 then Xe5 else X65
                                else if b7 then Xa5 else X25
                           else let (b6, b7) = p4 in
                                if b6
                                then if b7 then Xc5 else X45
                                else if b7 then X85 else X05
            else let (b3, p2) = p1 in
                 if b3
                 then let (b4, p3) = p2 in
                      if b4
                      then let (b5, p4) = p3 in
                           if b5
                           then let (b6, b7) = p4 in
                                if b6
                                then if b7 then Xf9 else X79
                                else if b7 then Xb9 else X39
                           else let (b6, b7) = p4 in
                                if b6
                                then if b7 then Xd9 else X59
                                else if b7 then X99 else X19
                      else let (b5, p4) = p3 in
                           if b5
                           then let (b6, b7) = p4 in
                                if b6
                                then if b7 then Xe9 else X69
                                else if b7 then Xa9 else X29
                           else let (b6, b7) = p4 in
                                if b6
                                then if b7 then Xc9 else X49
                                else if b7 then X89 else X09
                 else let (b4, p3) = p2 in
                      if b4
                      then let (b5, p4) = p3 in
                           if b5
                           then let (b6, b7) = p4 in
                                if b6
                                then if b7 then Xf1 else X71
                                else if b7 then Xb1 else X31
                           else let (b6, b7) = p4 in
                                if b6
                                then if b7 then Xd1 else X51
                                else if b7 then X91 else X11
                      else let (b5, p4) = p3 in
                           if b5
                           then let (b6, b7) = p4 in
                                if b6
                                then if b7 then Xe1 else X61
                                else if b7 then Xa1 else X21
                           else let (b6, b7) = p4 in
                                if b6
                                then if b7 then Xc1 else X41
                                else if b7 then X81 else X01
  else let (b1, p0) = p in
       if b1
       then let (b2, p1) = p0 in
            if b2
            then let (b3, p2) = p1 in
                 if b3
                 then let (b4, p3) = p2 in
                      if b4
                      then let (b5, p4) = p3 in
                           if b5
                           then let (b6, b7) = p4 in
                                if b6
                                then if b7 then Xfe else X7e
                                else if b7 then Xbe else X3e
                           else let (b6, b7) = p4 in
                                if b6
                                then if b7 then Xde else X5e
                                else if b7 then X9e else X1e
                      else let (b5, p4) = p3 in
                           if b5
                           then let (b6, b7) = p4 in
                                if b6
                                then if b7 then Xee else X6e
                                else if b7 then Xae else X2e
                           else let (b6, b7) = p4 in
                                if b6
                                then if b7 then Xce else X4e
                                else if b7 then X8e else X0e
                 else let (b4, p3) = p2 in
                      if b4
                      then let (b5, p4) = p3 in
                           if b5
                           then let (b6, b7) = p4 in
                                if b6
                                then if b7 then Xf6 else X76
                                else if b7 then Xb6 else X36
                           else let (b6, b7) = p4 in
                                if b6
                                then if b7 then Xd6 else X56
                                else if b7 then X96 else X16
                      else let (b5, p4) = p3 in
                           if b5
                           then let (b6, b7) = p4 in
                                if b6
                                then if b7 then Xe6 else X66
                                else if b7 then Xa6 else X26
                           else let (b6, b7) = p4 in
                                if b6
                                then if b7 then Xc6 else X46
                                else if b7 then X86 else X06
            else let (b3, p2) = p1 in
                 if b3
                 then let (b4, p3) = p2 in
                      if b4
                      then let (b5, p4) = p3 in
                           if b5
                           then let (b6, b7) = p4 in
                                if b6
                                then if b7 then Xfa else X7a
                                else if b7 then Xba else X3a
                           else let (b6, b7) = p4 in
                                if b6
                                then if b7 then Xda else X5a
                                else if b7 then X9a else X1a
                      else let (b5, p4) = p3 in
                           if b5
                           then let (b6, b7) = p4 in
                                if b6
                                then if b7 then Xea else X6a
                                else if b7 then Xaa else X2a
                           else let (b6, b7) = p4 in
                                if b6
                                then if b7 then Xca else X4a
                                else if b7 then X8a else X0a
                 else let (b4, p3) = p2 in
                      if b4
                      then let (b5, p4) = p3 in
                           if b5
                           then let (b6, b7) = p4 in
                                if b6
                                then if b7 then Xf2 else X72
                                else if b7 then Xb2 else X32
                           else let (b6, b7) = p4 in
                                if b6
                                then if b7 then Xd2 else X52
                                else if b7 then X92 else X12
                      else let (b5, p4) = p3 in
                           if b5
                           then let (b6, b7) = p4 in
                                if b6
                                then if b7 then Xe2 else X62
                                else if b7 then Xa2 else X22
                           else let (b6, b7) = p4 in
                                if b6
                                then if b7 then Xc2 else X42
                                else if b7 then X82 else X02
       else let (b2, p1) = p0 in
            if b2
            then let (b3, p2) = p1 in
                 if b3
                 then let (b4, p3) = p2 in
                      if b4
                      then let (b5, p4) = p3 in
                           if b5
                           then let (b6, b7) = p4 in
                                if b6
                                then if b7 then Xfc else X7c
                                else if b7 then Xbc else X3c
                           else let (b6, b7) = p4 in
                                if b6
                                then if b7 then Xdc else X5c
                                else if b7 then X9c else X1c
                      else let (b5, p4) = p3 in
                           if b5
                           then let (b6, b7) = p4 in
                                if b6
                                then if b7 then Xec else X6c
                                else if b7 then Xac else X2c
                           else let (b6, b7) = p4 in
                                if b6
                                then if b7 then Xcc else X4c
                                else if b7 then X8c else X0c
                 else let (b4, p3) = p2 in
                      if b4
                      then let (b5, p4) = p3 in
                           if b5
                           then let (b6, b7) = p4 in
                                if b6
                                then if b7 then Xf4 else X74
                                else if b7 then Xb4 else X34
                           else let (b6, b7) = p4 in
                                if b6
                                then if b7 then Xd4 else X54
                                else if b7 then X94 else X14
                      else let (b5, p4) = p3 in
                           if b5
                           then let (b6, b7) = p4 in
                                if b6
                                then if b7 then Xe4 else X64
                                else if b7 then Xa4 else X24
                           else let (b6, b7) = p4 in
                                if b6
                                then if b7 then Xc4 else X44
                                else if b7 then X84 else X04
            else let (b3, p2) = p1 in
                 if b3
                 then let (b4, p3) = p2 in
                      if b4
                      then let (b5, p4) = p3 in
                           if b5
                           then let (b6, b7) = p4 in
                                if b6
                                then if b7 then Xf8 else X78
                                else if b7 then Xb8 else X38
                           else let (b6, b7) = p4 in
                                if b6
                                then if b7 then Xd8 else X58
                                else if b7 then X98 else X18
                      else let (b5, p4) = p3 in
                           if b5
                           then let (b6, b7) = p4 in
                                if b6
                                then if b7 then Xe8 else X68
                                else if b7 then Xa8 else X28
                           else let (b6, b7) = p4 in
                                if b6
                                then if b7 then Xc8 else X48
                                else if b7 then X88 else X08
                 else let (b4, p3) = p2 in
                      if b4
                      then let (b5, p4) = p3 in
                           if b5
                           then let (b6, b7) = p4 in
                                if b6
                                then if b7 then Xf0 else X70
                                else if b7 then Xb0 else X30
                           else let (b6, b7) = p4 in
                                if b6
                                then if b7 then Xd0 else X50
                                else if b7 then X90 else X10
                      else let (b5, p4) = p3 in
                           if b5
                           then let (b6, b7) = p4 in
                                if b6
                                then if b7 then Xe0 else X60
                                else if b7 then Xa0 else X20
                           else let (b6, b7) = p4 in
                                if b6
                                then if b7 then Xc0 else X40
                                else if b7 then X80 else X00

(** val eqb0 : bool -> bool -> bool **)

let eqb0 b1 b2 =
  if b1 then b2 else if b2 then false else true

module Nat =
 struct
  (** val eqb : nat -> nat -> bool **)

  let rec eqb n0 m0 =
    match n0 with
    | O -> (match m0 with
            | O -> true
            | S _ -> false)
    | S n' -> (match m0 with
               | O -> false
               | S m' -> eqb n' m')

  (** val leb : nat -> nat -> bool **)

  let rec leb n0 m0 =
    match n0 with
    | O -> true
    | S n' -> (match m0 with
               | O -> false
               | S m' -> leb n' m')

  (** val ltb : nat -> nat -> bool **)

  let ltb n0 m0 =
    leb (S n0) m0
 end

(** val hd : 'a1 -> 'a1 list -> 'a1 **)

let hd default = function
| [] -> default
| x :: _ -> x

(** val tl : 'a1 list -> 'a1 list **)

let tl = function
| [] -> []
| _ :: m0 -> m0

(** val nth : nat -> 'a1 list -> 'a1 -> 'a1 **)

let rec nth n0 l default =
  match n0 with
  | O -> (match l with
          | [] -> default
          | x :: _ -> x)
  | S m0 -> (match l with
             | [] -> default
             | _ :: t -> nth m0 t default)

(** val nth_error : 'a1 list -> nat -> 'a1 option **)

let rec nth_error l = function
| O -> (match l with
        | [] -> None
        | x :: _ -> Some x)
| S n1 -> (match l with
           | [] -> None
           | _ :: l0 -> nth_error l0 n1)

(** val last : 'a1 list -> 'a1 -> 'a1 **)

let rec last l d =
  match l with
  | [] -> d
  | a :: l0 -> (match l0 with
                | [] -> a
                | _ :: _ -> last l0 d)

(** val removelast : 'a1 list -> 'a1 list **)

let rec removelast = function
| [] -> []
| a :: l0 -> (match l0 with
              | [] -> []
              | _ :: _ -> a :: (removelast l0))

(** val rev : 'a1 list -> 'a1 list **)

let rec rev = function
| [] -> []
| x :: l' -> app (rev l') (x :: [])

(** val concat : 'a1 list list -> 'a1 list **)

let rec concat = function
| [] -> []
| x :: l0 -> app x (concat l0)

(** val map : ('a1 -> 'a2) -> 'a1 list -> 'a2 list **)

let rec map f = function
| [] -> []
| a :: t -> (f a) :: (map f t)

(** val flat_map : ('a1 -> 'a2 list) -> 'a1 list -> 'a2 list **)

let rec flat_map f = function
| [] -> []
| x :: t -> app (f x) (flat_map f t)

(** val fold_left : ('a1 -> 'a2 -> 'a1) -> 'a2 list -> 'a1 -> 'a1 **)

let rec fold_left f l a0 =
  match l with
  | [] -> a0
  | b :: t -> fold_left f t (f a0 b)

(** val fold_right : ('a2 -> 'a1 -> 'a1) -> 'a1 -> 'a2 list -> 'a1 **)

let rec fold_right f a0 = function
| [] -> a0
| b :: t -> f b (fold_right f a0 t)

(** val existsb : ('a1 -> bool) -> 'a1 list -> bool **)

let rec existsb f = function
| [] -> false
| a :: l0 -> (||) (f a) (existsb f l0)

(** val forallb : ('a1 -> bool) -> 'a1 list -> bool **)

let rec forallb f = function
| [] -> true
| a :: l0 -> (&&) (f a) (forallb f l0)

(** val filter : ('a1 -> bool) -> 'a1 list -> 'a1 list **)

let rec filter f = function
| [] -> []
| x :: l0 -> if f x then x :: (filter f l0) else filter f l0

(** val find : ('a1 -> bool) -> 'a1 list -> 'a1 option **)

let rec find f = function
| [] -> None
| x :: tl0 -> if f x then Some x else find f tl0

(** val firstn : nat -> 'a1 list -> 'a1 list **)

let rec firstn n0 l =
  match n0 with
  | O -> []
  | S n1 -> (match l with
             | [] -> []
             | a :: l0 -> a :: (firstn n1 l0))

(** val skipn : nat -> 'a1 list -> 'a1 list **)

let rec skipn n0 l =
  match n0 with
  | O -> l
  | S n1 -> (match l with
             | [] -> []
             | _ :: l0 -> skipn n1 l0)

(** val seq : nat -> nat -> nat list **)

let rec seq start = function
| O -> []
| S len0 -> start :: (seq (S start) len0)

(** val repeat : 'a1 -> nat -> 'a1 list **)

let rec repeat x = function
| O -> []
| S k -> x :: (repeat x k)

type positive =
| XI of positive
| XO of positive
| XH

type n =
| N0
| Npos of positive

module Pos =
 struct
  type mask =
  | IsNul
  | IsPos of positive
  | IsNeg
 end

module Coq_Pos =
 struct
  (** val succ : positive -> positive **)

  let rec succ = function
  | XI p -> XO (succ p)
  | XO p -> XI p
  | XH -> XO XH

  (** val add : positive -> positive -> positive **)

  let rec add x y =
    match x with
    | XI p ->
      (match y with
       | XI q -> XO (add_carry p q)
       | XO q -> XI (add p q)
       | XH -> XO (succ p))
    | XO p ->
      (match y with
       | XI q -> XI (add p q)
       | XO q -> XO (add p q)
       | XH -> XI p)
    | XH -> (match y with
             | XI q -> XO (succ q)
             | XO q -> XI q
             | XH -> XO XH)

  (** val add_carry : positive -> positive -> positive **)

  and add_carry x y =
    match x with
    | XI p ->
      (match y with
       | XI q -> XI (add_carry p q)
       | XO q -> XO (add_carry p q)
       | XH -> XI (succ p))
    | XO p ->
      (match y with
       | XI q -> XO (add_carry p q)
       | XO q -> XI (add p q)
       | XH -> XO (succ p))
    | XH ->
      (match y with
       | XI q -> XI (succ q)
       | XO q -> XO (succ q)
       | XH -> XI XH)

  (** val pred_double : positive -> positive **)

  let rec pred_double = function
  | XI p -> XI (XO p)
  | XO p -> XI (pred_double p)
  | XH -> XH

  type mask = Pos.mask =
  | IsNul
  | IsPos of positive
  | IsNeg

  (** val succ_double_mask : mask -> mask **)

  let succ_double_mask = function
  | IsNul -> IsPos XH
  | IsPos p -> IsPos (XI p)
  | IsNeg -> IsNeg

  (** val double_mask : mask -> mask **)

  let double_mask = function
  | IsPos p -> IsPos (XO p)
  | x0 -> x0

  (** val double_pred_mask : positive -> mask **)

  let double_pred_mask = function
  | XI p -> IsPos (XO (XO p))
  | XO p -> IsPos (XO (pred_double p))
  | XH -> IsNul

  (** val sub_mask : positive -> positive -> mask **)

  let rec sub_mask x y =
    match x with
    | XI p ->
      (match y with
       | XI q -> double_mask (sub_mask p q)
       | XO q -> succ_double_mask (sub_mask p q)
       | XH -> IsPos (XO p))
    | XO p ->
      (match y with
       | XI q -> succ_double_mask (sub_mask_carry p q)
       | XO q -> double_mask (sub_mask p q)
       | XH -> IsPos (pred_double p))
    | XH -> (match y with
             | XH -> IsNul
             | _ -> IsNeg)

  (** val sub_mask_carry : positive -> positive -> mask **)

  and sub_mask_carry x y =
    match x with
    | XI p ->
      (match y with
       | XI q -> succ_double_mask (sub_mask_carry p q)
       | XO q -> double_mask (sub_mask p q)
       | XH -> IsPos (pred_double p))
    | XO p ->
      (match y with
       | XI q -> double_mask (sub_mask_carry p q)
       | XO q -> succ_double_mask (sub_mask_carry p q)
       | XH -> double_pred_mask p)
    | XH -> IsNeg

  (** val mul : positive -> positive -> positive **)

  let rec mul x y =
    match x with
    | XI p -> add y (XO (mul p y))
    | XO p -> XO (mul p y)
    | XH -> y

  (** val iter : ('a1 -> 'a1) -> 'a1 -> positive -> 'a1 **)

  let rec iter f x = function
  | XI n' -> f (iter f (iter f x n') n')
  | XO n' -> iter f (iter f x n') n'
  | XH -> f x

  (** val pow : positive -> positive -> positive **)

  let pow x =
    iter (mul x) XH

  (** val size_nat : positive -> nat **)

  let rec size_nat = function
  | XI p0 -> S (size_nat p0)
  | XO p0 -> S (size_nat p0)
  | XH -> S O

  (** val compare_cont : comparison -> positive -> positive -> comparison **)

  let rec compare_cont r x y =
    match x with
    | XI p ->
      (match y with
       | XI q -> compare_cont r p q
       | XO q -> compare_cont Gt p q
       | XH -> Gt)
    | XO p ->
      (match y with
       | XI q -> compare_cont Lt p q
       | XO q -> compare_cont r p q
       | XH -> Gt)
    | XH -> (match y with
             | XH -> r
             | _ -> Lt)

  (** val compare : positive -> positive -> comparison **)

  let compare =
    compare_cont Eq

  (** val eqb : positive -> positive -> bool **)

  let rec eqb p q =
    match p with
    | XI p0 -> (match q with
                | XI q0 -> eqb p0 q0
                | _ -> false)
    | XO p0 -> (match q with
                | XO q0 -> eqb p0 q0
                | _ -> false)
    | XH -> (match q with
             | XH -> true
             | _ -> false)

  (** val coq_Nsucc_double : n -> n **)

  let coq_Nsucc_double = function
  | N0 -> Npos XH
  | Npos p -> Npos (XI p)

  (** val coq_Ndouble : n -> n **)

  let coq_Ndouble = function
  | N0 -> N0
  | Npos p -> Npos (XO p)

  (** val coq_lor : positive -> positive -> positive **)

  let rec coq_lor p q =
    match p with
    | XI p0 ->
      (match q with
       | XI q0 -> XI (coq_lor p0 q0)
       | XO q0 -> XI (coq_lor p0 q0)
       | XH -> p)
    | XO p0 ->
      (match q with
       | XI q0 -> XI (coq_lor p0 q0)
       | XO q0 -> XO (coq_lor p0 q0)
       | XH -> XI p0)
    | XH -> (match q with
             | XO q0 -> XI q0
             | _ -> q)

  (** val coq_land : positive -> positive -> n **)

  let rec coq_land p q =
    match p with
    | XI p0 ->
      (match q with
       | XI q0 -> coq_Nsucc_double (coq_land p0 q0)
       | XO q0 -> coq_Ndouble (coq_land p0 q0)
       | XH -> Npos XH)
    | XO p0 ->
      (match q with
       | XI q0 -> coq_Ndouble (coq_land p0 q0)
       | XO q0 -> coq_Ndouble (coq_land p0 q0)
       | XH -> N0)
    | XH -> (match q with
             | XO _ -> N0
             | _ -> Npos XH)

  (** val ldiff : positive -> positive -> n **)

  let rec ldiff p q =
    match p with
    | XI p0 ->
      (match q with
       | XI q0 -> coq_Ndouble (ldiff p0 q0)
       | XO q0 -> coq_Nsucc_double (ldiff p0 q0)
       | XH -> Npos (XO p0))
    | XO p0 ->
      (match q with
       | XI q0 -> coq_Ndouble (ldiff p0 q0)
       | XO q0 -> coq_Ndouble (ldiff p0 q0)
       | XH -> Npos p)
    | XH -> (match q with
             | XO _ -> Npos XH
             | _ -> N0)

  (** val coq_lxor : positive -> positive -> n **)

  let rec coq_lxor p q =
    match p with
    | XI p0 ->
      (match q with
       | XI q0 -> coq_Ndouble (coq_lxor p0 q0)
       | XO q0 -> coq_Nsucc_double (coq_lxor p0 q0)
       | XH -> Npos (XO p0))
    | XO p0 ->
      (match q with
       | XI q0 -> coq_Nsucc_double (coq_lxor p0 q0)
       | XO q0 -> coq_Ndouble (coq_lxor p0 q0)
       | XH -> Npos (XI p0))
    | XH ->
      (match q with
       | XI q0 -> Npos (XO q0)
       | XO q0 -> Npos (XI q0)
       | XH -> N0)

  (** val shiftl : positive -> n -> positive **)

  let shiftl p = function
  | N0 -> p
  | Npos n1 -> iter (fun x -> XO x) p n1

  (** val iter_op : ('a1 -> 'a1 -> 'a1) -> positive -> 'a1 -> 'a1 **)

  let rec iter_op op0 p a =
    match p with
    | XI p0 -> op0 a (iter_op op0 p0 (op0 a a))
    | XO p0 -> iter_op op0 p0 (op0 a a)
    | XH -> a

  (** val to_nat : positive -> nat **)

  let to_nat x =
    iter_op Coq__1.add x (S O)

  (** val of_succ_nat : nat -> positive **)

  let rec of_succ_nat = function
  | O -> XH
  | S x -> succ (of_succ_nat x)
 end

module N =
 struct
  (** val succ_double : n -> n **)

  let succ_double = function
  | N0 -> Npos XH
  | Npos p -> Npos (XI p)

  (** val double : n -> n **)

  let double = function
  | N0 -> N0
  | Npos p -> Npos (XO p)

  (** val add : n -> n -> n **)

  let add n0 m0 =
    match n0 with
    | N0 -> m0
    | Npos p -> (match m0 with
                 | N0 -> n0
                 | Npos q -> Npos (Coq_Pos.add p q))

  (** val sub : n -> n -> n **)

  let sub n0 m0 =
    match n0 with
    | N0 -> N0
    | Npos n' ->
      (match m0 with
       | N0 -> n0
       | Npos m' ->
         (match Coq_Pos.sub_mask n' m' with
          | Coq_Pos.IsPos p -> Npos p
          | _ -> N0))

  (** val mul : n -> n -> n **)

  let mul n0 m0 =
    match n0 with
    | N0 -> N0
    | Npos p -> (match m0 with
                 | N0 -> N0
                 | Npos q -> Npos (Coq_Pos.mul p q))

  (** val compare : n -> n -> comparison **)

  let compare n0 m0 =
    match n0 with
    | N0 -> (match m0 with
             | N0 -> Eq
             | Npos _ -> Lt)
    | Npos n' -> (match m0 with
                  | N0 -> Gt
                  | Npos m' -> Coq_Pos.compare n' m')

  (** val eqb : n -> n -> bool **)

  let eqb n0 m0 =
    match n0 with
    | N0 -> (match m0 with
             | N0 -> true
             | Npos _ -> false)
    | Npos p -> (match m0 with
                 | N0 -> false
                 | Npos q -> Coq_Pos.eqb p q)

  (** val leb : n -> n -> bool **)

  let leb x y =
    match compare x y with
    | Gt -> false
    | _ -> true

  (** val ltb : n -> n -> bool **)

  let ltb x y =
    match compare x y with
    | Lt -> true
    | _ -> false

  (** val min : n -> n -> n **)

  let min n0 n' =
    match compare n0 n' with
    | Gt -> n'
    | _ -> n0

  (** val max : n -> n -> n **)

  let max n0 n' =
    match compare n0 n' with
    | Gt -> n0
    | _ -> n'

  (** val div2 : n -> n **)

  let div2 = function
  | N0 -> N0
  | Npos p0 -> (match p0 with
                | XI p -> Npos p
                | XO p -> Npos p
                | XH -> N0)

  (** val pow : n -> n -> n **)

  let pow n0 = function
  | N0 -> Npos XH
  | Npos p0 -> (match n0 with
                | N0 -> N0
                | Npos q -> Npos (Coq_Pos.pow q p0))

  (** val size_nat : n -> nat **)

  let size_nat = function
  | N0 -> O
  | Npos p -> Coq_Pos.size_nat p

  (** val pos_div_eucl : positive -> n -> n * n **)

  let rec pos_div_eucl a b =
    match a with
    | XI a' ->
      let (q, r) = pos_div_eucl a' b in
      let r' = succ_double r in
      if leb b r' then ((succ_double q), (sub r' b)) else ((double q), r')
    | XO a' ->
      let (q, r) = pos_div_eucl a' b in
      let r' = double r in
      if leb b r' then ((succ_double q), (sub r' b)) else ((double q), r')
    | XH ->
      (match b with
       | N0 -> (N0, (Npos XH))
       | Npos p -> (match p with
                    | XH -> ((Npos XH), N0)
                    | _ -> (N0, (Npos XH))))

  (** val div_eucl : n -> n -> n * n **)

  let div_eucl a b =
    match a with
    | N0 -> (N0, N0)
    | Npos na -> (match b with
                  | N0 -> (N0, a)
                  | Npos _ -> pos_div_eucl na b)

  (** val div : n -> n -> n **)

  let div a b =
    fst (div_eucl a b)

  (** val modulo : n -> n -> n **)

  let modulo a b =
    snd (div_eucl a b)

  (** val coq_lor : n -> n -> n **)

  let coq_lor n0 m0 =
    match n0 with
    | N0 -> m0
    | Npos p ->
      (match m0 with
       | N0 -> n0
       | Npos q -> Npos (Coq_Pos.coq_lor p q))

  (** val coq_land : n -> n -> n **)

  let coq_land n0 m0 =
    match n0 with
    | N0 -> N0
    | Npos p -> (match m0 with
                 | N0 -> N0
                 | Npos q -> Coq_Pos.coq_land p q)

  (** val ldiff : n -> n -> n **)

  let ldiff n0 m0 =
    match n0 with
    | N0 -> N0
    | Npos p -> (match m0 with
                 | N0 -> n0
                 | Npos q -> Coq_Pos.ldiff p q)

  (** val coq_lxor : n -> n -> n **)

  let coq_lxor n0 m0 =
    match n0 with
    | N0 -> m0
    | Npos p -> (match m0 with
                 | N0 -> n0
                 | Npos q -> Coq_Pos.coq_lxor p q)

  (** val shiftl : n -> n -> n **)

  let shiftl a n0 =
    match a with
    | N0 -> N0
    | Npos a0 -> Npos (Coq_Pos.shiftl a0 n0)

  (** val shiftr : n -> n -> n **)

  let shiftr a = function
  | N0 -> a
  | Npos p -> Coq_Pos.iter div2 a p

  (** val to_nat : n -> nat **)

  let to_nat = function
  | N0 -> O
  | Npos p -> Coq_Pos.to_nat p

  (** val of_nat : nat -> n **)

  let of_nat = function
  | O -> N0
  | S n' -> Npos (Coq_Pos.of_succ_nat n')
 end

(** val to_N : byte -> n **)

let to_N = function
| X00 -> N0
| X01 -> Npos XH
| X02 -> Npos (XO XH)
| X03 -> Npos (XI XH)
| X04 -> Npos (XO (XO XH))
| X05 -> Npos (XI (XO XH))
| X06 -> Npos (XO (XI XH))
| X07 -> Npos (XI (XI XH))
| X08 -> Npos (XO (XO (XO XH)))
| X09 -> Npos (XI (XO (XO XH)))
| X0a -> Npos (XO (XI (XO XH)))
| X0b -> Npos (XI (XI (XO XH)))
| X0c -> Npos (XO (XO (XI XH)))
| X0d -> Npos (XI (XO (XI XH)))
| X0e -> Npos (XO (XI (XI XH)))
| X0f -> Npos (XI (XI (XI XH)))
| X10 -> Npos (XO (XO (XO (XO XH))))
| X11 -> Npos (XI (XO (XO (XO XH))))
| X12 -> Npos (XO (XI (XO (XO XH))))
| X13 -> Npos (XI (XI (XO (XO XH))))
| X14 -> Npos (XO (XO (XI (XO XH))))
| X15 -> Npos (XI (XO (XI (XO XH))))
| X16 -> Npos (XO (XI (XI (XO XH))))
| X17 -> Npos (XI (XI (XI (XO XH))))
| X18 -> Npos (XO (XO (XO (XI XH))))
| X19 -> Npos (XI (XO (XO (XI XH))))
| X1a -> Npos (XO (XI (XO (XI XH))))
| X1b -> Npos (XI (XI (XO (XI XH))))
| X1c -> Npos (XO (XO (XI (XI XH))))
| X1d -> Npos (XI (XO (XI (XI XH))))
| X1e -> Npos (XO (XI (XI (XI XH))))
| X1f -> Npos (XI (XI (XI (XI XH))))
| X20 -> Npos (XO (XO (XO (XO (XO XH)))))
| X21 -> Npos (XI (XO (XO (XO (XO XH)))))
| X22 -> Npos (XO (XI (XO (XO (XO XH)))))
| X23 -> Npos (XI (XI (XO (XO (XO XH)))))
| X24 -> Npos (XO (XO (XI (XO (XO XH)))))
| X25 -> Npos (XI (XO (XI (XO (XO XH)))))
| X26 -> Npos (XO (XI (XI (XO (XO XH)))))
| X27 -> Npos (XI (XI (XI (XO (XO XH)))))
| X28 -> Npos (XO (XO (XO (XI (XO XH)))))
| X29 -> Npos (XI (XO (XO (XI (XO XH)))))
| X2a -> Npos (XO (XI (XO (XI (XO XH)))))
| X2b -> Npos (XI (XI (XO (XI (XO XH)))))
| X2c -> Npos (XO (XO (XI (XI (XO XH)))))
| X2d -> Npos (XI (XO (XI (XI (XO XH)))))
| X2e -> Npos (XO (XI (XI (XI (XO XH)))))
| X2f -> Npos (XI (XI (XI (XI (XO XH)))))
| X30 -> Npos (XO (XO (XO (XO (XI XH)))))
| X31 -> Npos (XI (XO (XO (XO (XI XH)))))
| X32 -> Npos (XO (XI (XO (XO (XI XH)))))
| X33 -> Npos (XI (XI (XO (XO (XI XH)))))
| X34 -> Npos (XO (XO (XI (XO (XI XH)))))
| X35 -> Npos (XI (XO (XI (XO (XI XH)))))
| X36 -> Npos (XO (XI (XI (XO (XI XH)))))
| X37 -> Npos (XI (XI (XI (XO (XI XH)))))
| X38 -> Npos (XO (XO (XO (XI (XI XH)))))
| X39 -> Npos (XI (XO (XO (XI (XI XH)))))
| X3a -> Npos (XO (XI (XO (XI (XI XH)))))
| X3b -> Npos (XI (XI (XO (XI (XI XH)))))
| X3c -> Npos (XO (XO (XI (XI (XI XH)))))
| X3d -> Npos (XI (XO (XI (XI (XI XH)))))
| X3e -> Npos (XO (XI (XI (XI (XI XH)))))
| X3f -> Npos (XI (XI (XI (XI (XI XH)))))
| X40 -> Npos (XO (XO (XO (XO (XO (XO XH))))))
| X41 -> Npos (XI (XO (XO (XO (XO (XO XH))))))
| X42 -> Npos (XO (XI (XO (XO (XO (XO XH))))))
| X43 -> Npos (XI (XI (XO (XO (XO (XO XH))))))
| X44 -> Npos (XO (XO (XI (XO (XO (XO XH))))))
| X45 -> Npos (XI (XO (XI (XO (XO (XO XH))))))
| X46 -> Npos (XO (XI (XI (XO (XO (XO XH))))))
| X47 -> Npos (XI (XI (XI (XO (XO (XO XH))))))
| X48 -> Npos (XO (XO (XO (XI (XO (XO XH))))))
| X49 -> Npos (XI (XO (XO (XI (XO (XO XH))))))
| X4a -> Npos (XO (XI (XO (XI (XO (XO XH))))))
| X4b -> Npos (XI (XI (XO (XI (XO (XO XH))))))
| X4c -> Npos (XO (XO (XI (XI (XO (XO XH))))))
| X4d -> Npos (XI (XO (XI (XI (XO (XO XH))))))
| X4e -> Npos (XO (XI (XI (XI (XO (XO XH))))))
| X4f -> Npos (XI (XI (XI (XI (XO (XO XH))))))
| X50 -> Npos (XO (XO (XO (XO (XI (XO XH))))))
| X51 -> Npos (XI (XO (XO (XO (XI (XO XH))))))
| X52 -> Npos (XO (XI (XO (XO (XI (XO XH))))))
| X53 -> Npos (XI (XI (XO (XO (XI (XO XH))))))
| X54 -> Npos (XO (XO (XI (XO (XI (XO XH))))))
| X55 -> Npos (XI (XO (XI (XO (XI (XO XH))))))
| X56 -> Npos (XO (XI (XI (XO (XI (XO XH))))))
| X57 -> Npos (XI (XI (XI (XO (XI (XO XH))))))
| X58 -> Npos (XO (XO (XO (XI (XI (XO XH))))))
| X59 -> Npos (XI (XO (XO (XI (XI (XO XH))))))
| X5a -> Npos (XO (XI (XO (XI (XI (XO XH))))))
| X5b -> Npos (XI (XI (XO (XI (XI (XO XH))))))
| X5c -> Npos (XO (XO (XI (XI (XI (XO XH))))))
| X5d -> Npos (XI (XO (XI (XI (XI (XO XH))))))
| X5e -> Npos (XO (XI (XI (XI (XI (XO XH))))))
| X5f -> Npos (XI (XI (XI (XI (XI (XO XH))))))
| X60 -> Npos (XO (XO (XO (XO (XO (XI XH))))))
| X61 -> Npos (XI (XO (XO (XO (XO (XI XH))))))
| X62 -> Npos (XO (XI (XO (XO (XO (XI XH))))))
| X63 -> Npos (XI (XI (XO (XO (XO (XI XH))))))
| X64 -> Npos (XO (XO (XI (XO (XO (XI XH))))))
| X65 -> Npos (XI (XO (XI (XO (XO (XI XH))))))
| X66 -> Npos (XO (XI (XI (XO (XO (XI XH))))))
| X67 -> Npos (XI (XI (XI (XO (XO (XI XH))))))
| X68 -> Npos (XO (XO (XO (XI (XO (XI XH))))))
| X69 -> Npos (XI (XO (XO (XI (XO (XI XH))))))
| X6a -> Npos (XO (XI (XO (XI (XO (XI XH))))))
| X6b -> Npos (XI (XI (XO (XI (XO (XI XH))))))
| X6c -> Npos (XO (XO (XI (XI (XO (XI XH))))))
| X6d -> Npos (XI (XO (XI (XI (XO (XI XH))))))
| X6e -> Npos (XO (XI (XI (XI (XO (XI XH))))))
| X6f -> Npos (XI (XI (XI (XI (XO (XI XH))))))
| X70 -> Npos (XO (XO (XO (XO (XI (XI XH))))))
| X71 -> Npos (XI (XO (XO (XO (XI (XI XH))))))
| X72 -> Npos (XO (XI (XO (XO (XI (XI XH))))))
| X73 -> Npos (XI (XI (XO (XO (XI (XI XH))))))
| X74 -> Npos (XO (XO (XI (XO (XI (XI XH))))))
| X75 -> Npos (XI (XO (XI (XO (XI (XI XH))))))
| X76 -> Npos (XO (XI (XI (XO (XI (XI XH))))))
| X77 -> Npos (XI (XI (XI (XO (XI (XI XH))))))
| X78 -> Npos (XO (XO (XO (XI (XI (XI XH))))))
| X79 -> Npos (XI (XO (XO (XI (XI (XI XH))))))
| X7a -> Npos (XO (XI (XO (XI (XI (XI XH))))))
| X7b -> Npos (XI (XI (XO (XI (XI (XI XH))))))
| X7c -> Npos (XO (XO (XI (XI (XI (XI XH))))))
| X7d -> Npos (XI (XO (XI (XI (XI (XI XH))))))
| X7e -> Npos (XO (XI (XI (XI (XI (XI XH))))))
| X7f -> Npos (XI (XI (XI (XI (XI (XI XH))))))
| X80 -> Npos (XO (XO (XO (XO (XO (XO (XO XH)))))))
| X81 -> Npos (XI (XO (XO (XO (XO (XO (XO XH)))))))
| X82 -> Npos (XO (XI (XO (XO (XO (XO (XO XH)))))))
| X83 -> Npos (XI (XI (XO (XO (XO (XO (XO XH)))))))
| X84 -> Npos (XO (XO (XI (XO (XO (XO (XO XH)))))))
| X85 -> Npos (XI (XO (XI (XO (XO (XO (XO XH)))))))
| X86 -> Npos (XO (XI (XI (XO (XO (XO (XO XH)))))))
| X87 -> Npos (XI (XI (XI (XO (XO (XO (XO XH)))))))
| X88 -> Npos (XO (XO (XO (XI (XO (XO (XO XH)))))))
| X89 -> Npos (XI (XO (XO (XI (XO (XO (XO XH)))))))
| X8a -> Npos (XO (XI (XO (XI (XO (XO (XO XH)))))))
| X8b -> Npos (XI (XI (XO (XI (XO (XO (XO XH)))))))
| X8c -> Npos (XO (XO (XI (XI (XO (XO (XO XH)))))))
| X8d -> Npos (XI (XO (XI (XI (XO (XO (XO XH)))))))
| X8e -> Npos (XO (XI (XI (XI (XO (XO (XO XH)))))))
| X8f -> Npos (XI (XI (XI (XI (XO (XO (XO XH)))))))
| X90 -> Npos (XO (XO (XO (XO (XI (XO (XO XH)))))))
| X91 -> Npos (XI (XO (XO (XO (XI (XO (XO XH)))))))
| X92 -> Npos (XO (XI (XO (XO (XI (XO (XO XH)))))))
| X93 -> Npos (XI (XI (XO (XO (XI (XO (XO XH)))))))
| X94 -> Npos (XO (XO (XI (XO (XI (XO (XO XH)))))))
| X95 -> Npos (XI (XO (XI (XO (XI (XO (XO XH)))))))
| X96 -> Npos (XO (XI (XI (XO (XI (XO (XO XH)))))))
| X97 -> Npos (XI (XI (XI (XO (XI (XO (XO XH)))))))
| X98 -> Npos (XO (XO (XO (XI (XI (XO (XO XH)))))))
| X99 -> Npos (XI (XO (XO (XI (XI (XO (XO XH)))))))
| X9a -> Npos (XO (XI (XO (XI (XI (XO (XO XH)))))))
| X9b -> Npos (XI (XI (XO (XI (XI (XO (XO XH)))))))
| X9c -> Npos (XO (XO (XI (XI (XI (XO (XO XH)))))))
| X9d -> Npos (XI (XO (XI (XI (XI (XO (XO XH)))))))
| X9e -> Npos (XO (XI (XI (XI (XI (XO (XO XH)))))))
| X9f -> Npos (XI (XI (XI (XI (XI (XO (XO XH)))))))
| Xa0 -> Npos (XO (XO (XO (XO (XO (XI (XO XH)))))))
| Xa1 -> Npos (XI (XO (XO (XO (XO (XI (XO XH)))))))
| Xa2 -> Npos (XO (XI (XO (XO (XO (XI (XO XH)))))))
| Xa3 -> Npos (XI (XI (XO (XO (XO (XI (XO XH)))))))
| Xa4 -> Npos (XO (XO (XI (XO (XO (XI (XO XH)))))))
| Xa5 -> Npos (XI (XO (XI (XO (XO (XI (XO XH)))))))
| Xa6 -> Npos (XO (XI (XI (XO (XO (XI (XO XH)))))))
| Xa7 -> Npos (XI (XI (XI (XO (XO (XI (XO XH)))))))
| Xa8 -> Npos (XO (XO (XO (XI (XO (XI (XO XH)))))))
| Xa9 -> Npos (XI (XO (XO (XI (XO (XI (XO XH)))))))
| Xaa -> Npos (XO (XI (XO (XI (XO (XI (XO XH)))))))
| Xab -> Npos (XI (XI (XO (XI (XO (XI (XO XH)))))))
| Xac -> Npos (XO (XO (XI (XI (XO (XI (XO XH)))))))
| Xad -> Npos (XI (XO (XI (XI (XO (XI (XO XH)))))))
| Xae -> Npos (XO (XI (XI (XI (XO (XI (XO XH)))))))
| Xaf -> Npos (XI (XI (XI (XI (XO (XI (XO XH)))))))
| Xb0 -> Npos (XO (XO (XO (XO (XI (XI (XO XH)))))))
| Xb1 -> Npos (XI (XO (XO (XO (XI (XI (XO XH)))))))
| Xb2 -> Npos (XO (XI (XO (XO (XI (XI (XO XH)))))))
| Xb3 -> Npos (XI (XI (XO (XO (XI (XI (XO XH)))))))
| Xb4 -> Npos (XO (XO (XI (XO (XI (XI (XO XH)))))))
| Xb5 -> Npos (XI (XO (XI (XO (XI (XI (XO XH)))))))
| Xb6 -> Npos (XO (XI (XI (XO (XI (XI (XO XH)))))))
| Xb7 -> Npos (XI (XI (XI (XO (XI (XI (XO XH)))))))
| Xb8 -> Npos (XO (XO (XO (XI (XI (XI (XO XH)))))))
| Xb9 -> Npos (XI (XO (XO (XI (XI (XI (XO XH)))))))
| Xba -> Npos (XO (XI (XO (XI (XI (XI (XO XH)))))))
| Xbb -> Npos (XI (XI (XO (XI (XI (XI (XO XH)))))))
| Xbc -> Npos (XO (XO (XI (XI (XI (XI (XO XH)))))))
| Xbd -> Npos (XI (XO (XI (XI (XI (XI (XO XH)))))))
| Xbe -> Npos (XO (XI (XI (XI (XI (XI (XO XH)))))))
| Xbf -> Npos (XI (XI (XI (XI (XI (XI (XO XH)))))))
| Xc0 -> Npos (XO (XO (XO (XO (XO (XO (XI XH)))))))
| Xc1 -> Npos (XI (XO (XO (XO (XO (XO (XI XH)))))))
| Xc2 -> Npos (XO (XI (XO (XO (XO (XO (XI XH)))))))
| Xc3 -> Npos (XI (XI (XO (XO (XO (XO (XI XH)))))))
| Xc4 -> Npos (XO (XO (XI (XO (XO (XO (XI XH)))))))
| Xc5 -> Npos (XI (XO (XI (XO (XO (XO (XI XH)))))))
| Xc6 -> Npos (XO (XI (XI (XO (XO (XO (XI XH)))))))
| Xc7 -> Npos (XI (XI (XI (XO (XO (XO (XI XH)))))))
| Xc8 -> Npos (XO (XO (XO (XI (XO (XO (XI XH)))))))
| Xc9 -> Npos (XI (XO (XO (XI (XO (XO (XI XH)))))))
| Xca -> Npos (XO (XI (XO (XI (XO (XO (XI XH)))))))
| Xcb -> Npos (XI (XI (XO (XI (XO (XO (XI XH)))))))
| Xcc -> Npos (XO (XO (XI (XI (XO (XO (XI XH)))))))
| Xcd -> Npos (XI (XO (XI (XI (XO (XO (XI XH)))))))
| Xce -> Npos (XO (XI (XI (XI (XO (XO (XI XH)))))))
| Xcf -> Npos (XI (XI (XI (XI (XO (XO (XI XH)))))))
| Xd0 -> Npos (XO (XO (XO (XO (XI (XO (XI XH)))))))
| Xd1 -> Npos (XI (XO (XO (XO (XI (XO (XI XH)))))))
| Xd2 -> Npos (XO (XI (XO (XO (XI (XO (XI XH)))))))
| Xd3 -> Npos (XI (XI (XO (XO (XI (XO (XI XH)))))))
| Xd4 -> Npos (XO (XO (XI (XO (XI (XO (XI XH)))))))
| Xd5 -> Npos (XI (XO (XI (XO (XI (XO (XI XH)))))))
| Xd6 -> Npos (XO (XI (XI (XO (XI (XO (XI XH)))))))
| Xd7 -> Npos (XI (XI (XI (XO (XI (XO (XI XH)))))))
| Xd8 -> Npos (XO (XO (XO (XI (XI (XO (XI XH)))))))
| Xd9 -> Npos (XI (XO (XO (XI (XI (XO (XI XH)))))))
| Xda -> Npos (XO (XI (XO (XI (XI (XO (XI XH)))))))
| Xdb -> Npos (XI (XI (XO (XI (XI (XO (XI XH)))))))
| Xdc -> Npos (XO (XO (XI (XI (XI (XO (XI XH)))))))
| Xdd -> Npos (XI (XO (XI (XI (XI (XO (XI XH)))))))
| Xde -> Npos (XO (XI (XI (XI (XI (XO (XI XH)))))))
| Xdf -> Npos (XI (XI (XI (XI (XI (XO (XI XH)))))))
| Xe0 -> Npos (XO (XO (XO (XO (XO (XI (XI XH)))))))
| Xe1 -> Npos (XI (XO (XO (XO (XO (XI (XI XH)))))))
| Xe2 -> Npos (XO (XI (XO (XO (XO (XI (XI XH)))))))
| Xe3 -> Npos (XI (XI (XO (XO (XO (XI (XI XH)))))))
| Xe4 -> Npos (XO (XO (XI (XO (XO (XI (XI XH)))))))
| Xe5 -> Npos (XI (XO (XI (XO (XO (XI (XI XH)))))))
| Xe6 -> Npos (XO (XI (XI (XO (XO (XI (XI XH)))))))
| Xe7 -> Npos (XI (XI (XI (XO (XO (XI (XI XH)))))))
| Xe8 -> Npos (XO (XO (XO (XI (XO (XI (XI XH)))))))
| Xe9 -> Npos (XI (XO (XO (XI (XO (XI (XI XH)))))))
| Xea -> Npos (XO (XI (XO (XI (XO (XI (XI XH)))))))
| Xeb -> Npos (XI (XI (XO (XI (XO (XI (XI XH)))))))
| Xec -> Npos (XO (XO (XI (XI (XO (XI (XI XH)))))))
| Xed -> Npos (XI (XO (XI (XI (XO (XI (XI XH)))))))
| Xee -> Npos (XO (XI (XI (XI (XO (XI (XI XH)))))))
| Xef -> Npos (XI (XI (XI (XI (XO (XI (XI XH)))))))
| Xf0 -> Npos (XO (XO (XO (XO (XI (XI (XI XH)))))))
| Xf1 -> Npos (XI (XO (XO (XO (XI (XI (XI XH)))))))
| Xf2 -> Npos (XO (XI (XO (XO (XI (XI (XI XH)))))))
| Xf3 -> Npos (XI (XI (XO (XO (XI (XI (XI XH)))))))
| Xf4 -> Npos (XO (XO (XI (XO (XI (XI (XI XH)))))))
| Xf5 -> Npos (XI (XO (XI (XO (XI (XI (XI XH)))))))
| Xf6 -> Npos (XO (XI (XI (XO (XI (XI (XI XH)))))))
| Xf7 -> Npos (XI (XI (XI (XO (XI (XI (XI XH)))))))
| Xf8 -> Npos (XO (XO (XO (XI (XI (XI (XI XH)))))))
| Xf9 -> Npos (XI (XO (XO (XI (XI (XI (XI XH)))))))
| Xfa -> Npos (XO (XI (XO (XI (XI (XI (XI XH)))))))
| Xfb -> Npos (XI (XI (XO (XI (XI (XI (XI XH)))))))
| Xfc -> Npos (XO (XO (XI (XI (XI (XI (XI XH)))))))
| Xfd -> Npos (XI (XO (XI (XI (XI (XI (XI XH)))))))
| Xfe -> Npos (XO (XI (XI (XI (XI (XI (XI XH)))))))
| Xff -> Npos (XI (XI (XI (XI (XI (XI (XI XH)))))))

type ascii =
| Ascii of bool * bool * bool * bool * bool * bool * bool * bool

(** val eqb1 : ascii -> ascii -> bool **)

let eqb1 a b =
  let Ascii (a0, a1, a2, a3, a4, a5, a6, a7) = a in
  let Ascii (b0, b1, b2, b3, b4, b5, b6, b7) = b in
  if if if if if if if eqb0 a0 b0 then eqb0 a1 b1 else false
                 then eqb0 a2 b2
                 else false
              then eqb0 a3 b3
              else false
           then eqb0 a4 b4
           else false
        then eqb0 a5 b5
        else false
     then eqb0 a6 b6
     else false
  then eqb0 a7 b7
  else false

(** val byte_of_ascii : ascii -> byte **)

let byte_of_ascii = function
| Ascii (b0, b1, b2, b3, b4, b5, b6, b7) ->
  of_bits (b0, (b1, (b2, (b3, (b4, (b5, (b6, b7)))))))

type string =
| EmptyString
| String of ascii * string

(** val eqb2 : string -> string -> bool **)

let rec eqb2 s1 s2 =
  match s1 with
  | EmptyString ->
    (match s2 with
     | EmptyString -> true
     | String (_, _) -> false)
  | String (c1, s1') ->
    (match s2 with
     | EmptyString -> false
     | String (c2, s2') -> if eqb1 c1 c2 then eqb2 s1' s2' else false)

(** val list_ascii_of_string : string -> ascii list **)

let rec list_ascii_of_string = function
| EmptyString -> []
| String (ch, s0) -> ch :: (list_ascii_of_string s0)

(** val list_byte_of_string : string -> byte list **)

let list_byte_of_string s =
  map byte_of_ascii (list_ascii_of_string s)

(** val bytes_of_string : string -> n list **)

let bytes_of_string s =
  map to_N (list_byte_of_string s)

(** val bS : string -> n list **)

let bS =
  bytes_of_string

(** val bytes_eqb : n list -> n list -> bool **)

let rec bytes_eqb a b =
  match a with
  | [] -> (match b with
           | [] -> true
           | _ :: _ -> false)
  | x :: a' ->
    (match b with
     | [] -> false
     | y :: b' -> (&&) (N.eqb x y) (bytes_eqb a' b'))

(** val nth_opt : 'a1 list -> nat -> 'a1 option **)

let rec nth_opt l n0 =
  match l with
  | [] -> None
  | x :: l' -> (match n0 with
                | O -> Some x
                | S n' -> nth_opt l' n')

type 'a res =
| Val of 'a
| Pan of string
| Fuel

(** val bind : 'a1 res -> ('a1 -> 'a2 res) -> 'a2 res **)

let bind m0 f =
  match m0 with
  | Val a -> f a
  | Pan s -> Pan s
  | Fuel -> Fuel

(** val unwrap : string -> 'a1 option -> 'a1 res **)

let unwrap site = function
| Some a -> Val a
| None -> Pan site

(** val hASHCONST1 : n **)

let hASHCONST1 =
  Npos (XO (XI (XO (XO (XI (XI (XO (XI (XI (XO (XO (XI (XO (XI (XI (XO (XO
    (XO (XI (XI (XI (XO (XO (XO (XO (XO (XI (XO (XI (XO
    XH))))))))))))))))))))))))))))))

(** val hASHCONST2 : n **)

let hASHCONST2 =
  Npos (XI (XI (XO (XI (XI (XO (XO (XO (XO (XI (XI (XO (XI (XO (XO (XO (XI
    (XI (XI (XO (XI (XO (XO (XO (XI (XI (XO (XI (XI
    XH)))))))))))))))))))))))))))))

(** val sEED1 : n **)

let sEED1 =
  Npos (XI (XI (XO (XO (XO (XI (XI (XO (XO (XO (XI (XI (XI (XI (XO (XO (XO
    (XO (XI (XO (XI (XO (XO (XO (XI (XI (XO (XO (XI
    XH)))))))))))))))))))))))))))))

(** val sEED2 : n **)

let sEED2 =
  Npos (XO (XI (XI (XI (XI (XO (XO (XO (XO (XI (XO (XO (XI (XI (XO (XI (XO
    (XO (XO (XO (XI (XI (XO (XI (XO (XO (XO (XI (XO (XO (XO
    XH)))))))))))))))))))))))))))))))

(** val rOT1 : n **)

let rOT1 =
  Npos (XI (XO XH))

(** val rOT2 : n **)

let rOT2 =
  Npos (XO (XI XH))

(** val m32 : n **)

let m32 =
  Npos (XO (XO (XO (XO (XO (XO (XO (XO (XO (XO (XO (XO (XO (XO (XO (XO (XO
    (XO (XO (XO (XO (XO (XO (XO (XO (XO (XO (XO (XO (XO (XO (XO
    XH))))))))))))))))))))))))))))))))

(** val rotl32 : n -> n -> n **)

let rotl32 x k =
  N.coq_lor (N.modulo (N.shiftl x k) m32)
    (N.shiftr x (N.sub (Npos (XO (XO (XO (XO (XO XH)))))) k))

(** val mix : n -> n -> n -> n -> n **)

let mix f rot val0 c =
  N.modulo (N.mul (N.coq_lxor (rotl32 f rot) val0) c) m32

(** val hash_loop : n list -> n -> n -> n * n **)

let rec hash_loop data f1 f2 =
  match data with
  | [] -> (f1, f2)
  | b :: l ->
    (match l with
     | [] -> ((mix f1 rOT1 b hASHCONST1), (mix f2 rOT2 b hASHCONST2))
     | b1 :: rest ->
       (match rest with
        | [] ->
          let val0 =
            N.add b
              (N.mul (Npos (XO (XO (XO (XO (XO (XO (XO (XO XH))))))))) b1)
          in
          let f3 = mix f1 rOT1 val0 hASHCONST1 in
          let f4 = mix f2 rOT2 val0 hASHCONST2 in
          (match rest with
           | [] -> (f3, f4)
           | b0 :: _ ->
             ((mix f3 rOT1 b0 hASHCONST1), (mix f4 rOT2 b0 hASHCONST2)))
        | b2 :: l0 ->
          (match l0 with
           | [] ->
             let val0 =
               N.add b
                 (N.mul (Npos (XO (XO (XO (XO (XO (XO (XO (XO XH))))))))) b1)
             in
             let f3 = mix f1 rOT1 val0 hASHCONST1 in
             let f4 = mix f2 rOT2 val0 hASHCONST2 in
             (match rest with
              | [] -> (f3, f4)
              | b0 :: _ ->
                ((mix f3 rOT1 b0 hASHCONST1), (mix f4 rOT2 b0 hASHCONST2)))
           | b3 :: rest0 ->
             let val0 =
               N.add
                 (N.add
                   (N.add b
                     (N.mul (Npos (XO (XO (XO (XO (XO (XO (XO (XO XH)))))))))
                       b1))
                   (N.mul (Npos (XO (XO (XO (XO (XO (XO (XO (XO (XO (XO (XO
                     (XO (XO (XO (XO (XO XH))))))))))))))))) b2))
                 (N.mul (Npos (XO (XO (XO (XO (XO (XO (XO (XO (XO (XO (XO (XO
                   (XO (XO (XO (XO (XO (XO (XO (XO (XO (XO (XO (XO
                   XH))))))))))))))))))))))))) b3)
             in
             hash_loop rest0 (mix f1 rOT1 val0 hASHCONST1)
               (mix f2 rOT2 val0 hASHCONST2))))

(** val hashfunc : n list -> (n * n) * n **)

let hashfunc data =
  let (f1, f2) = hash_loop data sEED1 sEED2 in (((N.coq_lxor f1 f2), f1), f2)

type nametab = { nt_strtab : n list list; nt_disp : (n * n) list;
                 nt_mdisp : n; nt_mtab : n }

type 'a outcome =
| Ok of 'a
| Err
| Panic

(** val from_bytes : nametab -> n list -> n outcome **)

let from_bytes t input =
  let (p, f2) = hashfunc input in
  let (g, f1) = p in
  if N.eqb t.nt_mdisp N0
  then Panic
  else (match nth_opt t.nt_disp (N.to_nat (N.modulo g t.nt_mdisp)) with
        | Some p0 ->
          let (d1, d2) = p0 in
          if N.eqb t.nt_mtab N0
          then Panic
          else let item_idx =
                 N.modulo
                   (N.modulo
                     (N.add
                       (N.modulo (N.add d2 (N.modulo (N.mul f1 d1) m32)) m32)
                       f2) m32) t.nt_mtab
               in
               (match nth_opt t.nt_strtab (N.to_nat item_idx) with
                | Some str -> if bytes_eqb str input then Ok item_idx else Err
                | None -> Panic)
        | None -> Panic)

(** val to_str : nametab -> n -> n list option **)

let to_str t d =
  nth_opt t.nt_strtab (N.to_nat d)

type cdspec =
| CEnum of (n * n) list
| CPattern of n * n option
| CString of bool * n option
| CUInt
| CFloat

type elemdef = { ed_name : n; ed_type : n; ed_mult : n; ed_ordered : 
                 n; ed_split : n; ed_restrict : n }

type dtype = { dt_sub_start : n; dt_sub_end : n; dt_sub_ver : n;
               dt_attr_start : n; dt_attr_end : n; dt_attr_ver : n;
               dt_cdata : n; dt_mode : n; dt_ref_start : n; dt_ref_end : 
               n }

type tables = { t_elements : (n -> elemdef option); n_elements : n;
                t_subelements : (n -> (n * n) option); n_subelements : 
                n; t_attributes : (n -> ((n * n) * n) option);
                n_attributes : n; t_version_info : (n -> n option);
                n_version_info : n; t_datatypes : (n -> dtype option);
                n_datatypes : n; t_ref_items : (n -> n option);
                n_ref_items : n; t_cdata : (n -> cdspec option); n_cdata : 
                n; reference_type_idx : n; autosar_element : n;
                name_short_name : n; attr_dest : n }

(** val mSequence : n **)

let mSequence =
  N0

(** val mChoice : n **)

let mChoice =
  Npos XH

(** val mBag : n **)

let mBag =
  Npos (XO XH)

(** val mCharacters : n **)

let mCharacters =
  Npos (XI XH)

(** val mMixed : n **)

let mMixed =
  Npos (XO (XO XH))

type etype = n * n

(** val elem : tables -> n -> elemdef res **)

let elem t i =
  unwrap (String ((Ascii (true, false, true, false, false, false, true,
    false)), (String ((Ascii (false, false, true, true, false, false, true,
    false)), (String ((Ascii (true, false, true, false, false, false, true,
    false)), (String ((Ascii (true, false, true, true, false, false, true,
    false)), (String ((Ascii (true, false, true, false, false, false, true,
    false)), (String ((Ascii (false, true, true, true, false, false, true,
    false)), (String ((Ascii (false, false, true, false, true, false, true,
    false)), (String ((Ascii (true, true, false, false, true, false, true,
    false)), (String ((Ascii (true, true, false, true, true, false, true,
    false)), (String ((Ascii (true, false, false, true, false, true, true,
    false)), (String ((Ascii (true, false, true, true, true, false, true,
    false)), EmptyString)))))))))))))))))))))) (t.t_elements i)

(** val dt : tables -> n -> dtype res **)

let dt t i =
  unwrap (String ((Ascii (false, false, true, false, false, false, true,
    false)), (String ((Ascii (true, false, false, false, false, false, true,
    false)), (String ((Ascii (false, false, true, false, true, false, true,
    false)), (String ((Ascii (true, false, false, false, false, false, true,
    false)), (String ((Ascii (false, false, true, false, true, false, true,
    false)), (String ((Ascii (true, false, false, true, true, false, true,
    false)), (String ((Ascii (false, false, false, false, true, false, true,
    false)), (String ((Ascii (true, false, true, false, false, false, true,
    false)), (String ((Ascii (true, true, false, false, true, false, true,
    false)), (String ((Ascii (true, true, false, true, true, false, true,
    false)), (String ((Ascii (true, false, false, true, false, true, true,
    false)), (String ((Ascii (true, false, true, true, true, false, true,
    false)), EmptyString)))))))))))))))))))))))) (t.t_datatypes i)

(** val vinfo : tables -> n -> n res **)

let vinfo t i =
  unwrap (String ((Ascii (false, true, true, false, true, false, true,
    false)), (String ((Ascii (true, false, true, false, false, false, true,
    false)), (String ((Ascii (false, true, false, false, true, false, true,
    false)), (String ((Ascii (true, true, false, false, true, false, true,
    false)), (String ((Ascii (true, false, false, true, false, false, true,
    false)), (String ((Ascii (true, true, true, true, false, false, true,
    false)), (String ((Ascii (false, true, true, true, false, false, true,
    false)), (String ((Ascii (true, true, true, true, true, false, true,
    false)), (String ((Ascii (true, false, false, true, false, false, true,
    false)), (String ((Ascii (false, true, true, true, false, false, true,
    false)), (String ((Ascii (false, true, true, false, false, false, true,
    false)), (String ((Ascii (true, true, true, true, false, false, true,
    false)), (String ((Ascii (true, true, false, true, true, false, true,
    false)), (String ((Ascii (true, false, false, true, false, true, true,
    false)), (String ((Ascii (true, false, true, true, true, false, true,
    false)), EmptyString)))))))))))))))))))))))))))))) (t.t_version_info i)

(** val subel : tables -> n -> (n * n) res **)

let subel t i =
  unwrap (String ((Ascii (true, true, false, false, true, false, true,
    false)), (String ((Ascii (true, false, true, false, true, false, true,
    false)), (String ((Ascii (false, true, false, false, false, false, true,
    false)), (String ((Ascii (true, false, true, false, false, false, true,
    false)), (String ((Ascii (false, false, true, true, false, false, true,
    false)), (String ((Ascii (true, false, true, false, false, false, true,
    false)), (String ((Ascii (true, false, true, true, false, false, true,
    false)), (String ((Ascii (true, false, true, false, false, false, true,
    false)), (String ((Ascii (false, true, true, true, false, false, true,
    false)), (String ((Ascii (false, false, true, false, true, false, true,
    false)), (String ((Ascii (true, true, false, false, true, false, true,
    false)), (String ((Ascii (true, true, false, true, true, false, true,
    false)), (String ((Ascii (true, false, false, true, false, true, true,
    false)), (String ((Ascii (true, false, true, true, true, false, true,
    false)), EmptyString)))))))))))))))))))))))))))) (t.t_subelements i)

(** val et_new : tables -> n -> etype res **)

let et_new t def =
  bind (elem t def) (fun e -> Val (def, e.ed_type))

(** val slice_chk : string -> n -> n -> n -> unit res **)

let slice_chk site start stop len =
  if (||) (N.ltb stop start) (N.ltb len stop) then Pan site else Val ()

(** val sub_slice : tables -> n -> ((n * n) * dtype) res **)

let sub_slice t ty =
  bind (dt t ty) (fun d ->
    bind
      (slice_chk (String ((Ascii (true, true, false, false, true, false,
        true, false)), (String ((Ascii (true, false, true, false, true,
        false, true, false)), (String ((Ascii (false, true, false, false,
        false, false, true, false)), (String ((Ascii (true, false, true,
        false, false, false, true, false)), (String ((Ascii (false, false,
        true, true, false, false, true, false)), (String ((Ascii (true,
        false, true, false, false, false, true, false)), (String ((Ascii
        (true, false, true, true, false, false, true, false)), (String
        ((Ascii (true, false, true, false, false, false, true, false)),
        (String ((Ascii (false, true, true, true, false, false, true,
        false)), (String ((Ascii (false, false, true, false, true, false,
        true, false)), (String ((Ascii (true, true, false, false, true,
        false, true, false)), (String ((Ascii (true, true, false, true, true,
        false, true, false)), (String ((Ascii (true, false, false, false,
        false, true, true, false)), (String ((Ascii (false, true, true, true,
        false, true, false, false)), (String ((Ascii (false, true, true,
        true, false, true, false, false)), (String ((Ascii (false, true,
        false, false, false, true, true, false)), (String ((Ascii (true,
        false, true, true, true, false, true, false)),
        EmptyString)))))))))))))))))))))))))))))))))) d.dt_sub_start
        d.dt_sub_end t.n_subelements) (fun _ -> Val ((d.dt_sub_start,
      d.dt_sub_end), d)))

(** val find_sub :
    tables -> nat -> n -> n -> n -> (etype * n list) option res **)

let rec find_sub t fuel ty target version =
  match fuel with
  | O -> Fuel
  | S fuel' ->
    bind (sub_slice t ty) (fun x ->
      let (p, d) = x in
      let (start, stop) = p in
      let rec loop k pos =
        match k with
        | O -> Val None
        | S k' ->
          bind (subel t (N.add start pos)) (fun x0 ->
            let (kind, idx) = x0 in
            if N.eqb kind N0
            then bind (elem t idx) (fun e ->
                   bind (vinfo t (N.add d.dt_sub_ver pos)) (fun mask0 ->
                     if (&&) (N.eqb e.ed_name target)
                          (negb (N.eqb (N.coq_land version mask0) N0))
                     then bind (et_new t idx) (fun et -> Val (Some (et,
                            (pos :: []))))
                     else loop k' (N.add pos (Npos XH))))
            else (match find_sub t fuel' idx target version with
                  | Val a ->
                    (match a with
                     | Some p0 ->
                       let (et, ixs) = p0 in Val (Some (et, (pos :: ixs)))
                     | None -> loop k' (N.add pos (Npos XH)))
                  | x1 -> x1))
      in loop (N.to_nat (N.sub stop start)) N0)

(** val fUEL : nat **)

let fUEL =
  S (S (S (S (S (S (S (S (S (S (S (S (S (S (S (S (S (S (S (S (S (S (S (S
    O)))))))))))))))))))))))

(** val find_sub_element :
    tables -> etype -> n -> n -> (etype * n list) option res **)

let find_sub_element t t0 target version =
  find_sub t fUEL (snd t0) target version

(** val short_name_version_mask : tables -> n -> n option res **)

let short_name_version_mask t ty =
  bind (sub_slice t ty) (fun x ->
    let (p, d) = x in
    let (start, stop) = p in
    if N.eqb start stop
    then Val None
    else bind (subel t start) (fun x0 ->
           let (kind, idx) = x0 in
           if N.eqb kind N0
           then bind (elem t idx) (fun e ->
                  if N.eqb e.ed_name t.name_short_name
                  then bind (vinfo t d.dt_sub_ver) (fun m0 -> Val (Some m0))
                  else Val None)
           else Val None))

(** val is_named : tables -> etype -> bool res **)

let is_named t t0 =
  bind (short_name_version_mask t (snd t0)) (fun m0 -> Val
    (match m0 with
     | Some _ -> true
     | None -> false))

(** val is_named_in_version : tables -> etype -> n -> bool res **)

let is_named_in_version t t0 v =
  bind (short_name_version_mask t (snd t0)) (fun m0 -> Val
    (match m0 with
     | Some mask0 -> negb (N.eqb (N.coq_land mask0 v) N0)
     | None -> false))

(** val walk_groups : tables -> n -> n list -> ((n * n) * n) option res **)

let rec walk_groups t cur_ty = function
| [] -> Val None
| i :: rest ->
  (match rest with
   | [] ->
     bind (sub_slice t cur_ty) (fun x ->
       let (p, d) = x in
       let (start, stop) = p in
       if N.leb (N.sub stop start) i
       then Pan (String ((Ascii (true, true, false, false, false, true, true,
              false)), (String ((Ascii (true, false, true, false, true, true,
              true, false)), (String ((Ascii (false, true, false, false,
              true, true, true, false)), (String ((Ascii (false, true, false,
              false, true, true, true, false)), (String ((Ascii (true, false,
              true, false, false, true, true, false)), (String ((Ascii
              (false, true, true, true, false, true, true, false)), (String
              ((Ascii (false, false, true, false, true, true, true, false)),
              (String ((Ascii (true, true, true, true, true, false, true,
              false)), (String ((Ascii (true, true, false, false, true, true,
              true, false)), (String ((Ascii (false, false, false, false,
              true, true, true, false)), (String ((Ascii (true, false, true,
              false, false, true, true, false)), (String ((Ascii (true, true,
              false, false, false, true, true, false)), (String ((Ascii
              (true, true, false, true, true, false, true, false)), (String
              ((Ascii (false, false, true, true, false, true, true, false)),
              (String ((Ascii (true, false, false, false, false, true, true,
              false)), (String ((Ascii (true, true, false, false, true, true,
              true, false)), (String ((Ascii (false, false, true, false,
              true, true, true, false)), (String ((Ascii (true, true, true,
              true, true, false, true, false)), (String ((Ascii (true, false,
              false, true, false, true, true, false)), (String ((Ascii
              (false, false, true, false, false, true, true, false)), (String
              ((Ascii (false, false, false, true, true, true, true, false)),
              (String ((Ascii (true, false, true, true, true, false, true,
              false)), EmptyString))))))))))))))))))))))))))))))))))))))))))))
       else bind (subel t (N.add start i)) (fun se ->
              bind (vinfo t (N.add d.dt_sub_ver i)) (fun m0 -> Val (Some (se,
                m0)))))
   | _ :: _ ->
     bind (sub_slice t cur_ty) (fun x ->
       let (p, _) = x in
       let (start, stop) = p in
       if N.leb (N.sub stop start) i
       then Pan (String ((Ascii (true, true, false, false, false, true, true,
              false)), (String ((Ascii (true, false, true, false, true, true,
              true, false)), (String ((Ascii (false, true, false, false,
              true, true, true, false)), (String ((Ascii (false, true, false,
              false, true, true, true, false)), (String ((Ascii (true, false,
              true, false, false, true, true, false)), (String ((Ascii
              (false, true, true, true, false, true, true, false)), (String
              ((Ascii (false, false, true, false, true, true, true, false)),
              (String ((Ascii (true, true, true, true, true, false, true,
              false)), (String ((Ascii (true, true, false, false, true, true,
              true, false)), (String ((Ascii (false, false, false, false,
              true, true, true, false)), (String ((Ascii (true, false, true,
              false, false, true, true, false)), (String ((Ascii (true, true,
              false, false, false, true, true, false)), (String ((Ascii
              (true, true, false, true, true, false, true, false)), (String
              ((Ascii (true, false, true, false, false, true, true, false)),
              (String ((Ascii (false, false, true, true, false, true, true,
              false)), (String ((Ascii (true, false, true, false, false,
              true, true, false)), (String ((Ascii (true, false, true, true,
              false, true, true, false)), (String ((Ascii (true, false, true,
              false, false, true, true, false)), (String ((Ascii (false,
              true, true, true, false, true, true, false)), (String ((Ascii
              (false, false, true, false, true, true, true, false)), (String
              ((Ascii (true, true, true, true, true, false, true, false)),
              (String ((Ascii (true, false, false, true, false, true, true,
              false)), (String ((Ascii (false, true, true, true, false, true,
              true, false)), (String ((Ascii (false, false, true, false,
              false, true, true, false)), (String ((Ascii (true, false,
              false, true, false, true, true, false)), (String ((Ascii (true,
              true, false, false, false, true, true, false)), (String ((Ascii
              (true, false, true, false, false, true, true, false)), (String
              ((Ascii (true, true, false, false, true, true, true, false)),
              (String ((Ascii (true, true, false, true, true, false, true,
              false)), (String ((Ascii (true, false, false, true, false,
              true, true, false)), (String ((Ascii (false, false, true,
              false, false, true, true, false)), (String ((Ascii (false,
              false, false, true, true, true, true, false)), (String ((Ascii
              (true, false, true, true, true, false, true, false)), (String
              ((Ascii (true, false, true, true, true, false, true, false)),
              EmptyString))))))))))))))))))))))))))))))))))))))))))))))))))))))))))))))))))))
       else bind (subel t (N.add start i)) (fun x0 ->
              let (kind, idx) = x0 in
              if N.eqb kind N0 then Val None else walk_groups t idx rest)))

(** val get_sub_element_spec :
    tables -> etype -> n list -> ((n * n) * n) option res **)

let get_sub_element_spec t t0 ixs = match ixs with
| [] -> Val None
| _ :: _ -> bind (sub_slice t (snd t0)) (fun _ -> walk_groups t (snd t0) ixs)

(** val get_sub_element_version_mask :
    tables -> etype -> n list -> n option res **)

let get_sub_element_version_mask t t0 ixs =
  bind (get_sub_element_spec t t0 ixs) (fun r -> Val (option_map snd r))

(** val get_sub_element_multiplicity :
    tables -> etype -> n list -> n option res **)

let get_sub_element_multiplicity t t0 ixs =
  bind (get_sub_element_spec t t0 ixs) (fun r ->
    match r with
    | Some p ->
      let (p0, _) = p in
      let (n0, def) = p0 in
      (match n0 with
       | N0 -> bind (elem t def) (fun e -> Val (Some e.ed_mult))
       | Npos _ -> Val None)
    | None -> Val None)

(** val get_sub_element_container_mode :
    tables -> etype -> n list -> n res **)

let get_sub_element_container_mode t t0 ixs =
  if N.ltb (N.of_nat (length ixs)) (Npos (XO XH))
  then bind (dt t (snd t0)) (fun d -> Val d.dt_mode)
  else bind (get_sub_element_spec t t0 (removelast ixs)) (fun r ->
         match r with
         | Some p ->
           let (p0, _) = p in
           let (n0, gid) = p0 in
           (match n0 with
            | N0 ->
              Pan (String ((Ascii (true, false, true, false, true, true,
                true, false)), (String ((Ascii (false, true, true, true,
                false, true, true, false)), (String ((Ascii (false, true,
                false, false, true, true, true, false)), (String ((Ascii
                (true, false, true, false, false, true, true, false)),
                (String ((Ascii (true, false, false, false, false, true,
                true, false)), (String ((Ascii (true, true, false, false,
                false, true, true, false)), (String ((Ascii (false, false,
                false, true, false, true, true, false)), (String ((Ascii
                (true, false, false, false, false, true, true, false)),
                (String ((Ascii (false, true, false, false, false, true,
                true, false)), (String ((Ascii (false, false, true, true,
                false, true, true, false)), (String ((Ascii (true, false,
                true, false, false, true, true, false)), (String ((Ascii
                (false, true, false, true, true, true, false, false)),
                (String ((Ascii (false, false, false, false, false, true,
                false, false)), (String ((Ascii (true, false, true, false,
                false, true, true, false)), (String ((Ascii (false, false,
                true, true, false, true, true, false)), (String ((Ascii
                (true, false, true, false, false, true, true, false)),
                (String ((Ascii (true, false, true, true, false, true, true,
                false)), (String ((Ascii (true, false, true, false, false,
                true, true, false)), (String ((Ascii (false, true, true,
                true, false, true, true, false)), (String ((Ascii (false,
                false, true, false, true, true, true, false)), (String
                ((Ascii (false, false, false, false, false, true, false,
                false)), (String ((Ascii (true, true, false, false, false,
                true, true, false)), (String ((Ascii (true, true, true, true,
                false, true, true, false)), (String ((Ascii (false, true,
                true, true, false, true, true, false)), (String ((Ascii
                (false, false, true, false, true, true, true, false)),
                (String ((Ascii (true, false, false, false, false, true,
                true, false)), (String ((Ascii (true, false, false, true,
                false, true, true, false)), (String ((Ascii (false, true,
                true, true, false, true, true, false)), (String ((Ascii
                (true, false, true, false, false, true, true, false)),
                (String ((Ascii (false, true, false, false, true, true, true,
                false)), (String ((Ascii (false, false, false, false, false,
                true, false, false)), (String ((Ascii (true, false, false,
                true, false, true, true, false)), (String ((Ascii (true,
                true, false, false, true, true, true, false)), (String
                ((Ascii (false, false, false, false, false, true, false,
                false)), (String ((Ascii (false, true, true, true, false,
                true, true, false)), (String ((Ascii (true, true, true, true,
                false, true, true, false)), (String ((Ascii (false, false,
                true, false, true, true, true, false)), (String ((Ascii
                (false, false, false, false, false, true, false, false)),
                (String ((Ascii (true, false, false, false, false, true,
                true, false)), (String ((Ascii (false, false, false, false,
                false, true, false, false)), (String ((Ascii (true, true,
                true, false, false, true, true, false)), (String ((Ascii
                (false, true, false, false, true, true, true, false)),
                (String ((Ascii (true, true, true, true, false, true, true,
                false)), (String ((Ascii (true, false, true, false, true,
                true, true, false)), (String ((Ascii (false, false, false,
                false, true, true, true, false)),
                EmptyString))))))))))))))))))))))))))))))))))))))))))))))))))))))))))))))))))))))))))))))))))))))))))
            | Npos p1 ->
              (match p1 with
               | XH -> bind (dt t gid) (fun d -> Val d.dt_mode)
               | _ ->
                 Pan (String ((Ascii (true, false, true, false, true, true,
                   true, false)), (String ((Ascii (false, true, true, true,
                   false, true, true, false)), (String ((Ascii (false, true,
                   false, false, true, true, true, false)), (String ((Ascii
                   (true, false, true, false, false, true, true, false)),
                   (String ((Ascii (true, false, false, false, false, true,
                   true, false)), (String ((Ascii (true, true, false, false,
                   false, true, true, false)), (String ((Ascii (false, false,
                   false, true, false, true, true, false)), (String ((Ascii
                   (true, false, false, false, false, true, true, false)),
                   (String ((Ascii (false, true, false, false, false, true,
                   true, false)), (String ((Ascii (false, false, true, true,
                   false, true, true, false)), (String ((Ascii (true, false,
                   true, false, false, true, true, false)), (String ((Ascii
                   (false, true, false, true, true, true, false, false)),
                   (String ((Ascii (false, false, false, false, false, true,
                   false, false)), (String ((Ascii (true, false, true, false,
                   false, true, true, false)), (String ((Ascii (false, false,
                   true, true, false, true, true, false)), (String ((Ascii
                   (true, false, true, false, false, true, true, false)),
                   (String ((Ascii (true, false, true, true, false, true,
                   true, false)), (String ((Ascii (true, false, true, false,
                   false, true, true, false)), (String ((Ascii (false, true,
                   true, true, false, true, true, false)), (String ((Ascii
                   (false, false, true, false, true, true, true, false)),
                   (String ((Ascii (false, false, false, false, false, true,
                   false, false)), (String ((Ascii (true, true, false, false,
                   false, true, true, false)), (String ((Ascii (true, true,
                   true, true, false, true, true, false)), (String ((Ascii
                   (false, true, true, true, false, true, true, false)),
                   (String ((Ascii (false, false, true, false, true, true,
                   true, false)), (String ((Ascii (true, false, false, false,
                   false, true, true, false)), (String ((Ascii (true, false,
                   false, true, false, true, true, false)), (String ((Ascii
                   (false, true, true, true, false, true, true, false)),
                   (String ((Ascii (true, false, true, false, false, true,
                   true, false)), (String ((Ascii (false, true, false, false,
                   true, true, true, false)), (String ((Ascii (false, false,
                   false, false, false, true, false, false)), (String ((Ascii
                   (true, false, false, true, false, true, true, false)),
                   (String ((Ascii (true, true, false, false, true, true,
                   true, false)), (String ((Ascii (false, false, false,
                   false, false, true, false, false)), (String ((Ascii
                   (false, true, true, true, false, true, true, false)),
                   (String ((Ascii (true, true, true, true, false, true,
                   true, false)), (String ((Ascii (false, false, true, false,
                   true, true, true, false)), (String ((Ascii (false, false,
                   false, false, false, true, false, false)), (String ((Ascii
                   (true, false, false, false, false, true, true, false)),
                   (String ((Ascii (false, false, false, false, false, true,
                   false, false)), (String ((Ascii (true, true, true, false,
                   false, true, true, false)), (String ((Ascii (false, true,
                   false, false, true, true, true, false)), (String ((Ascii
                   (true, true, true, true, false, true, true, false)),
                   (String ((Ascii (true, false, true, false, true, true,
                   true, false)), (String ((Ascii (false, false, false,
                   false, true, true, true, false)),
                   EmptyString))))))))))))))))))))))))))))))))))))))))))))))))))))))))))))))))))))))))))))))))))))))))))))
         | None ->
           Pan (String ((Ascii (true, false, true, false, true, true, true,
             false)), (String ((Ascii (false, true, true, true, false, true,
             true, false)), (String ((Ascii (false, true, false, false, true,
             true, true, false)), (String ((Ascii (true, false, true, false,
             false, true, true, false)), (String ((Ascii (true, false, false,
             false, false, true, true, false)), (String ((Ascii (true, true,
             false, false, false, true, true, false)), (String ((Ascii
             (false, false, false, true, false, true, true, false)), (String
             ((Ascii (true, false, false, false, false, true, true, false)),
             (String ((Ascii (false, true, false, false, false, true, true,
             false)), (String ((Ascii (false, false, true, true, false, true,
             true, false)), (String ((Ascii (true, false, true, false, false,
             true, true, false)), (String ((Ascii (false, true, false, true,
             true, true, false, false)), (String ((Ascii (false, false,
             false, false, false, true, false, false)), (String ((Ascii
             (true, false, true, false, false, true, true, false)), (String
             ((Ascii (false, false, true, true, false, true, true, false)),
             (String ((Ascii (true, false, true, false, false, true, true,
             false)), (String ((Ascii (true, false, true, true, false, true,
             true, false)), (String ((Ascii (true, false, true, false, false,
             true, true, false)), (String ((Ascii (false, true, true, true,
             false, true, true, false)), (String ((Ascii (false, false, true,
             false, true, true, true, false)), (String ((Ascii (false, false,
             false, false, false, true, false, false)), (String ((Ascii
             (true, true, false, false, false, true, true, false)), (String
             ((Ascii (true, true, true, true, false, true, true, false)),
             (String ((Ascii (false, true, true, true, false, true, true,
             false)), (String ((Ascii (false, false, true, false, true, true,
             true, false)), (String ((Ascii (true, false, false, false,
             false, true, true, false)), (String ((Ascii (true, false, false,
             true, false, true, true, false)), (String ((Ascii (false, true,
             true, true, false, true, true, false)), (String ((Ascii (true,
             false, true, false, false, true, true, false)), (String ((Ascii
             (false, true, false, false, true, true, true, false)), (String
             ((Ascii (false, false, false, false, false, true, false,
             false)), (String ((Ascii (true, false, false, true, false, true,
             true, false)), (String ((Ascii (true, true, false, false, true,
             true, true, false)), (String ((Ascii (false, false, false,
             false, false, true, false, false)), (String ((Ascii (false,
             true, true, true, false, true, true, false)), (String ((Ascii
             (true, true, true, true, false, true, true, false)), (String
             ((Ascii (false, false, true, false, true, true, true, false)),
             (String ((Ascii (false, false, false, false, false, true, false,
             false)), (String ((Ascii (true, false, false, false, false,
             true, true, false)), (String ((Ascii (false, false, false,
             false, false, true, false, false)), (String ((Ascii (true, true,
             true, false, false, true, true, false)), (String ((Ascii (false,
             true, false, false, true, true, true, false)), (String ((Ascii
             (true, true, true, true, false, true, true, false)), (String
             ((Ascii (true, false, true, false, true, true, true, false)),
             (String ((Ascii (false, false, false, false, true, true, true,
             false)),
             EmptyString)))))))))))))))))))))))))))))))))))))))))))))))))))))))))))))))))))))))))))))))))))))))))))

(** val common_group : tables -> n -> n list -> n list -> n res **)

let rec common_group t result a b =
  match a with
  | [] -> Val result
  | x :: a' ->
    (match b with
     | [] -> Val result
     | y :: b' ->
       if N.eqb x y
       then bind (sub_slice t result) (fun x0 ->
              let (p, _) = x0 in
              let (start, stop) = p in
              if N.leb (N.sub stop start) x
              then Pan (String ((Ascii (true, true, true, false, false, true,
                     true, false)), (String ((Ascii (true, false, true,
                     false, false, true, true, false)), (String ((Ascii
                     (false, false, true, false, true, true, true, false)),
                     (String ((Ascii (true, true, true, true, true, false,
                     true, false)), (String ((Ascii (true, true, false,
                     false, true, true, true, false)), (String ((Ascii (true,
                     false, true, false, true, true, true, false)), (String
                     ((Ascii (false, true, false, false, false, true, true,
                     false)), (String ((Ascii (true, true, true, true, true,
                     false, true, false)), (String ((Ascii (true, false,
                     true, false, false, true, true, false)), (String ((Ascii
                     (false, false, true, true, false, true, true, false)),
                     (String ((Ascii (true, false, true, false, false, true,
                     true, false)), (String ((Ascii (true, false, true, true,
                     false, true, true, false)), (String ((Ascii (true,
                     false, true, false, false, true, true, false)), (String
                     ((Ascii (false, true, true, true, false, true, true,
                     false)), (String ((Ascii (false, false, true, false,
                     true, true, true, false)), (String ((Ascii (true, true,
                     false, false, true, true, true, false)), (String ((Ascii
                     (false, false, false, true, false, true, false, false)),
                     (String ((Ascii (false, true, false, false, true, true,
                     true, false)), (String ((Ascii (true, false, true,
                     false, false, true, true, false)), (String ((Ascii
                     (true, true, false, false, true, true, true, false)),
                     (String ((Ascii (true, false, true, false, true, true,
                     true, false)), (String ((Ascii (false, false, true,
                     true, false, true, true, false)), (String ((Ascii
                     (false, false, true, false, true, true, true, false)),
                     (String ((Ascii (true, false, false, true, false, true,
                     false, false)), (String ((Ascii (true, true, false,
                     true, true, false, true, false)), (String ((Ascii (true,
                     false, false, true, false, true, true, false)), (String
                     ((Ascii (true, false, true, true, true, false, true,
                     false)),
                     EmptyString))))))))))))))))))))))))))))))))))))))))))))))))))))))
              else bind (subel t (N.add start x)) (fun x1 ->
                     let (kind, idx) = x1 in
                     if N.eqb kind N0
                     then Val result
                     else common_group t idx a' b'))
       else Val result)

(** val find_common_group : tables -> etype -> n list -> n list -> n res **)

let find_common_group t t0 a b =
  common_group t (snd t0) a b

(** val is_ref : tables -> etype -> bool res **)

let is_ref t t0 =
  bind (dt t (snd t0)) (fun d -> Val
    (if N.eqb d.dt_cdata N0
     then false
     else N.eqb (N.sub d.dt_cdata (Npos XH)) t.reference_type_idx))

(** val content_mode : tables -> etype -> n res **)

let content_mode t t0 =
  bind (dt t (snd t0)) (fun d -> Val d.dt_mode)

(** val chardata_spec : tables -> etype -> cdspec option res **)

let chardata_spec t t0 =
  bind (dt t (snd t0)) (fun d ->
    if N.eqb d.dt_cdata N0
    then Val None
    else bind
           (unwrap (String ((Ascii (true, true, false, false, false, false,
             true, false)), (String ((Ascii (false, false, false, true,
             false, false, true, false)), (String ((Ascii (true, false,
             false, false, false, false, true, false)), (String ((Ascii
             (false, true, false, false, true, false, true, false)), (String
             ((Ascii (true, false, false, false, false, false, true, false)),
             (String ((Ascii (true, true, false, false, false, false, true,
             false)), (String ((Ascii (false, false, true, false, true,
             false, true, false)), (String ((Ascii (true, false, true, false,
             false, false, true, false)), (String ((Ascii (false, true,
             false, false, true, false, true, false)), (String ((Ascii (true,
             true, true, true, true, false, true, false)), (String ((Ascii
             (false, false, true, false, false, false, true, false)), (String
             ((Ascii (true, false, false, false, false, false, true, false)),
             (String ((Ascii (false, false, true, false, true, false, true,
             false)), (String ((Ascii (true, false, false, false, false,
             false, true, false)), (String ((Ascii (true, true, false, true,
             true, false, true, false)), (String ((Ascii (true, false, false,
             true, false, true, true, false)), (String ((Ascii (true, false,
             true, true, true, false, true, false)),
             EmptyString))))))))))))))))))))))))))))))))))
             (t.t_cdata (N.sub d.dt_cdata (Npos XH)))) (fun c -> Val (Some c)))

(** val attr_slice : tables -> n -> ((n * n) * dtype) res **)

let attr_slice t ty =
  bind (dt t ty) (fun d -> Val ((d.dt_attr_start, d.dt_attr_end), d))

(** val find_attribute_spec :
    tables -> etype -> n -> (((n * cdspec) * n) * n) option res **)

let find_attribute_spec t t0 attrname =
  bind (attr_slice t (snd t0)) (fun x ->
    let (p, d) = x in
    let (start, stop) = p in
    bind
      (slice_chk (String ((Ascii (true, false, false, false, false, false,
        true, false)), (String ((Ascii (false, false, true, false, true,
        false, true, false)), (String ((Ascii (false, false, true, false,
        true, false, true, false)), (String ((Ascii (false, true, false,
        false, true, false, true, false)), (String ((Ascii (true, false,
        false, true, false, false, true, false)), (String ((Ascii (false,
        true, false, false, false, false, true, false)), (String ((Ascii
        (true, false, true, false, true, false, true, false)), (String
        ((Ascii (false, false, true, false, true, false, true, false)),
        (String ((Ascii (true, false, true, false, false, false, true,
        false)), (String ((Ascii (true, true, false, false, true, false,
        true, false)), (String ((Ascii (true, true, false, true, true, false,
        true, false)), (String ((Ascii (true, false, false, false, false,
        true, true, false)), (String ((Ascii (false, true, true, true, false,
        true, false, false)), (String ((Ascii (false, true, true, true,
        false, true, false, false)), (String ((Ascii (false, true, false,
        false, false, true, true, false)), (String ((Ascii (true, false,
        true, true, true, false, true, false)),
        EmptyString)))))))))))))))))))))))))))))))) start stop t.n_attributes)
      (fun _ ->
      let rec loop k pos =
        match k with
        | O -> Val None
        | S k' ->
          bind
            (unwrap (String ((Ascii (true, false, false, false, false, false,
              true, false)), (String ((Ascii (false, false, true, false,
              true, false, true, false)), (String ((Ascii (false, false,
              true, false, true, false, true, false)), (String ((Ascii
              (false, true, false, false, true, false, true, false)), (String
              ((Ascii (true, false, false, true, false, false, true, false)),
              (String ((Ascii (false, true, false, false, false, false, true,
              false)), (String ((Ascii (true, false, true, false, true,
              false, true, false)), (String ((Ascii (false, false, true,
              false, true, false, true, false)), (String ((Ascii (true,
              false, true, false, false, false, true, false)), (String
              ((Ascii (true, true, false, false, true, false, true, false)),
              (String ((Ascii (true, true, false, true, true, false, true,
              false)), (String ((Ascii (true, false, false, true, false,
              true, true, false)), (String ((Ascii (true, false, true, true,
              true, false, true, false)),
              EmptyString))))))))))))))))))))))))))
              (t.t_attributes (N.add start pos))) (fun x0 ->
            let (p0, req) = x0 in
            let (name, cdid) = p0 in
            if N.eqb name attrname
            then bind (vinfo t (N.add d.dt_attr_ver pos)) (fun ver ->
                   bind
                     (unwrap (String ((Ascii (true, true, false, false,
                       false, false, true, false)), (String ((Ascii (false,
                       false, false, true, false, false, true, false)),
                       (String ((Ascii (true, false, false, false, false,
                       false, true, false)), (String ((Ascii (false, true,
                       false, false, true, false, true, false)), (String
                       ((Ascii (true, false, false, false, false, false,
                       true, false)), (String ((Ascii (true, true, false,
                       false, false, false, true, false)), (String ((Ascii
                       (false, false, true, false, true, false, true,
                       false)), (String ((Ascii (true, false, true, false,
                       false, false, true, false)), (String ((Ascii (false,
                       true, false, false, true, false, true, false)),
                       (String ((Ascii (true, true, true, true, true, false,
                       true, false)), (String ((Ascii (false, false, true,
                       false, false, false, true, false)), (String ((Ascii
                       (true, false, false, false, false, false, true,
                       false)), (String ((Ascii (false, false, true, false,
                       true, false, true, false)), (String ((Ascii (true,
                       false, false, false, false, false, true, false)),
                       (String ((Ascii (true, true, false, true, true, false,
                       true, false)), (String ((Ascii (true, false, false,
                       true, false, true, true, false)), (String ((Ascii
                       (true, false, true, true, true, false, true, false)),
                       EmptyString))))))))))))))))))))))))))))))))))
                       (t.t_cdata cdid)) (fun c -> Val (Some (((cdid, c),
                     req), ver))))
            else loop k' (N.add pos (Npos XH)))
      in loop (N.to_nat (N.sub stop start)) N0))

(** val attribute_spec_list :
    tables -> etype -> (((n * n) * cdspec) * n) list res **)

let attribute_spec_list t t0 =
  bind (attr_slice t (snd t0)) (fun x ->
    let (p, _) = x in
    let (start, stop) = p in
    let rec loop k pos =
      match k with
      | O -> Val []
      | S k' ->
        bind
          (unwrap (String ((Ascii (true, false, false, false, false, false,
            true, false)), (String ((Ascii (false, false, true, false, true,
            false, true, false)), (String ((Ascii (false, false, true, false,
            true, false, true, false)), (String ((Ascii (false, true, false,
            false, true, false, true, false)), (String ((Ascii (true, false,
            false, true, false, false, true, false)), (String ((Ascii (false,
            true, false, false, false, false, true, false)), (String ((Ascii
            (true, false, true, false, true, false, true, false)), (String
            ((Ascii (false, false, true, false, true, false, true, false)),
            (String ((Ascii (true, false, true, false, false, false, true,
            false)), (String ((Ascii (true, true, false, false, true, false,
            true, false)), (String ((Ascii (true, true, false, true, true,
            false, true, false)), (String ((Ascii (true, false, false, true,
            false, true, true, false)), (String ((Ascii (true, false, true,
            true, true, false, true, false)),
            EmptyString))))))))))))))))))))))))))
            (t.t_attributes (N.add start pos))) (fun x0 ->
          let (p0, req) = x0 in
          let (name, cdid) = p0 in
          bind
            (unwrap (String ((Ascii (true, true, false, false, false, false,
              true, false)), (String ((Ascii (false, false, false, true,
              false, false, true, false)), (String ((Ascii (true, false,
              false, false, false, false, true, false)), (String ((Ascii
              (false, true, false, false, true, false, true, false)), (String
              ((Ascii (true, false, false, false, false, false, true,
              false)), (String ((Ascii (true, true, false, false, false,
              false, true, false)), (String ((Ascii (false, false, true,
              false, true, false, true, false)), (String ((Ascii (true,
              false, true, false, false, false, true, false)), (String
              ((Ascii (false, true, false, false, true, false, true, false)),
              (String ((Ascii (true, true, true, true, true, false, true,
              false)), (String ((Ascii (false, false, true, false, false,
              false, true, false)), (String ((Ascii (true, false, false,
              false, false, false, true, false)), (String ((Ascii (false,
              false, true, false, true, false, true, false)), (String ((Ascii
              (true, false, false, false, false, false, true, false)),
              (String ((Ascii (true, true, false, true, true, false, true,
              false)), (String ((Ascii (true, false, false, true, false,
              true, true, false)), (String ((Ascii (true, false, true, true,
              true, false, true, false)),
              EmptyString)))))))))))))))))))))))))))))))))) (t.t_cdata cdid))
            (fun c ->
            bind (loop k' (N.add pos (Npos XH))) (fun rest -> Val ((((name,
              cdid), c), req) :: rest))))
    in loop (N.to_nat (N.sub stop start)) N0)

(** val is_ordered : tables -> etype -> bool res **)

let is_ordered t t0 =
  bind (elem t (fst t0)) (fun e -> Val (negb (N.eqb e.ed_ordered N0)))

(** val splittable : tables -> etype -> n res **)

let splittable t t0 =
  bind (elem t (fst t0)) (fun e -> Val e.ed_split)

(** val splittable_in : tables -> etype -> n -> bool res **)

let splittable_in t t0 v =
  bind (elem t (fst t0)) (fun e -> Val
    (negb (N.eqb (N.coq_land e.ed_split v) N0)))

(** val ref_slice : tables -> n -> n list res **)

let ref_slice t ty =
  bind (dt t ty) (fun d ->
    bind
      (slice_chk (String ((Ascii (false, true, false, false, true, false,
        true, false)), (String ((Ascii (true, false, true, false, false,
        false, true, false)), (String ((Ascii (false, true, true, false,
        false, false, true, false)), (String ((Ascii (true, true, true, true,
        true, false, true, false)), (String ((Ascii (true, false, false,
        true, false, false, true, false)), (String ((Ascii (false, false,
        true, false, true, false, true, false)), (String ((Ascii (true,
        false, true, false, false, false, true, false)), (String ((Ascii
        (true, false, true, true, false, false, true, false)), (String
        ((Ascii (true, true, false, false, true, false, true, false)),
        (String ((Ascii (true, true, false, true, true, false, true, false)),
        (String ((Ascii (true, false, false, false, false, true, true,
        false)), (String ((Ascii (false, true, true, true, false, true,
        false, false)), (String ((Ascii (false, true, true, true, false,
        true, false, false)), (String ((Ascii (false, true, false, false,
        false, true, true, false)), (String ((Ascii (true, false, true, true,
        true, false, true, false)), EmptyString))))))))))))))))))))))))))))))
        d.dt_ref_start d.dt_ref_end t.n_ref_items) (fun _ ->
      let rec loop k pos =
        match k with
        | O -> Val []
        | S k' ->
          bind
            (unwrap (String ((Ascii (false, true, false, false, true, false,
              true, false)), (String ((Ascii (true, false, true, false,
              false, false, true, false)), (String ((Ascii (false, true,
              true, false, false, false, true, false)), (String ((Ascii
              (true, true, true, true, true, false, true, false)), (String
              ((Ascii (true, false, false, true, false, false, true, false)),
              (String ((Ascii (false, false, true, false, true, false, true,
              false)), (String ((Ascii (true, false, true, false, false,
              false, true, false)), (String ((Ascii (true, false, true, true,
              false, false, true, false)), (String ((Ascii (true, true,
              false, false, true, false, true, false)), (String ((Ascii
              (true, true, false, true, true, false, true, false)), (String
              ((Ascii (true, false, false, true, false, true, true, false)),
              (String ((Ascii (true, false, true, true, true, false, true,
              false)), EmptyString))))))))))))))))))))))))
              (t.t_ref_items (N.add d.dt_ref_start pos))) (fun x ->
            bind (loop k' (N.add pos (Npos XH))) (fun rest -> Val (x :: rest)))
      in loop (N.to_nat (N.sub d.dt_ref_end d.dt_ref_start)) N0))

(** val verify_reference_dest : tables -> etype -> n -> bool res **)

let verify_reference_dest t t0 dest =
  bind (ref_slice t (snd t0)) (fun l -> Val (existsb (N.eqb dest) l))

(** val reference_dest_value : tables -> etype -> etype -> n option res **)

let reference_dest_value t t0 other =
  bind (is_ref t t0) (fun r ->
    if negb r
    then Val None
    else bind (is_named t other) (fun n0 ->
           if negb n0
           then Val None
           else bind (find_attribute_spec t t0 t.attr_dest) (fun a ->
                  match a with
                  | Some p ->
                    let (p0, _) = p in
                    let (p1, _) = p0 in
                    let (_, c) = p1 in
                    (match c with
                     | CEnum items ->
                       bind (ref_slice t (snd other)) (fun ref_by -> Val
                         (find (fun rv ->
                           existsb (fun it -> N.eqb rv (fst it)) items)
                           ref_by))
                     | _ -> Val None)
                  | None -> Val None)))

type id = n

type cdata =
| DEnum of n
| DString of n list
| DUInt of n
| DFloat of n

type pref =
| PNone
| PModel of n
| PElem of id

type citem =
| CElem of id
| CData of cdata

type node = { n_parent : pref; n_name : n; n_type : (n * n);
              n_content : citem list; n_attrs : (n * cdata) list;
              n_files : n list; n_comment : n list option }

type file = { f_model : n; f_name : n list; f_version : n;
              f_standalone : bool option }

type model = { m_root : id; m_files : n list; m_idents : (n list * id) list;
               m_origins : (n list * id list) list }

type world = { w_nodes : (id -> node option); w_next : id;
               w_files : file list; w_models : model list }

type err =
| ItemDeleted
| ParentElementLocked
| ElementNotIdentifiable
| ItemNameRequired
| IncorrectContentType
| ElementInsertionConflict
| InvalidSubElement
| ElementNotFound
| ShortNameRemovalForbidden
| NotReferenceElement
| InvalidReference
| DuplicateItemName
| ForbiddenMoveToSubElement
| ForbiddenCopyOfParent
| InvalidPosition
| VersionMismatch
| VersionIncompatibleData
| InvalidAttribute
| InvalidAttributeValue
| NoFilesInModel
| InvalidFile
| FilesetModificationForbidden
| DuplicateFilenameError
| EmptyFile
| InvalidFileMerge
| OverlappingDataError
| LoadError

type 'a out =
| OK of 'a
| ER of err

type 'a w = world -> ('a out * world) res

(** val wret : 'a1 -> 'a1 w **)

let wret a w0 =
  Val ((OK a), w0)

(** val wfail : err -> 'a1 w **)

let wfail e w0 =
  Val ((ER e), w0)

(** val wpanic : string -> 'a1 w **)

let wpanic s _ =
  Pan s

(** val wfuel : 'a1 w **)

let wfuel _ =
  Fuel

(** val wbind : 'a1 w -> ('a1 -> 'a2 w) -> 'a2 w **)

let wbind m0 f w0 =
  match m0 w0 with
  | Val a0 ->
    let (o, w') = a0 in
    (match o with
     | OK a -> f a w'
     | ER e -> Val ((ER e), w'))
  | Pan s -> Pan s
  | Fuel -> Fuel

(** val wtry : 'a1 w -> 'a1 option w **)

let wtry m0 w0 =
  match m0 w0 with
  | Val a0 ->
    let (o, w') = a0 in
    (match o with
     | OK a -> Val ((OK (Some a)), w')
     | ER _ -> Val ((OK None), w'))
  | Pan s -> Pan s
  | Fuel -> Fuel

(** val wcatch : 'a1 w -> 'a1 out w **)

let wcatch m0 w0 =
  match m0 w0 with
  | Val a -> let (r, w') = a in Val ((OK r), w')
  | Pan s -> Pan s
  | Fuel -> Fuel

(** val wget : world w **)

let wget w0 =
  Val ((OK w0), w0)

(** val wput : world -> unit w **)

let wput w' _ =
  Val ((OK ()), w')

(** val wlift : 'a1 res -> 'a1 w **)

let wlift r w0 =
  match r with
  | Val a -> Val ((OK a), w0)
  | Pan s -> Pan s
  | Fuel -> Fuel

(** val upd : (id -> node option) -> id -> node -> id -> node option **)

let upd f i n0 x =
  if N.eqb x i then Some n0 else f x

(** val get_node : id -> node w **)

let get_node i w0 =
  match w0.w_nodes i with
  | Some n0 -> Val ((OK n0), w0)
  | None ->
    Pan (String ((Ascii (false, false, true, false, false, true, true,
      false)), (String ((Ascii (true, false, false, false, false, true, true,
      false)), (String ((Ascii (false, true, true, true, false, true, true,
      false)), (String ((Ascii (true, true, true, false, false, true, true,
      false)), (String ((Ascii (false, false, true, true, false, true, true,
      false)), (String ((Ascii (true, false, false, true, false, true, true,
      false)), (String ((Ascii (false, true, true, true, false, true, true,
      false)), (String ((Ascii (true, true, true, false, false, true, true,
      false)), (String ((Ascii (false, false, false, false, false, true,
      false, false)), (String ((Ascii (false, true, true, true, false, true,
      true, false)), (String ((Ascii (true, true, true, true, false, true,
      true, false)), (String ((Ascii (false, false, true, false, false, true,
      true, false)), (String ((Ascii (true, false, true, false, false, true,
      true, false)), (String ((Ascii (false, false, false, false, false,
      true, false, false)), (String ((Ascii (true, false, false, true, false,
      true, true, false)), (String ((Ascii (false, false, true, false, false,
      true, true, false)), EmptyString))))))))))))))))))))))))))))))))

(** val set_node : id -> node -> unit w **)

let set_node i n0 w0 =
  Val ((OK ()), { w_nodes = (upd w0.w_nodes i n0); w_next = w0.w_next;
    w_files = w0.w_files; w_models = w0.w_models })

(** val alloc : node -> id w **)

let alloc n0 w0 =
  Val ((OK w0.w_next), { w_nodes = (upd w0.w_nodes w0.w_next n0); w_next =
    (N.add w0.w_next (Npos XH)); w_files = w0.w_files; w_models =
    w0.w_models })

(** val modify_node : id -> (node -> node) -> unit w **)

let modify_node i f =
  wbind (get_node i) (fun n0 -> set_node i (f n0))

(** val set_parent : node -> pref -> node **)

let set_parent n0 p =
  { n_parent = p; n_name = n0.n_name; n_type = n0.n_type; n_content =
    n0.n_content; n_attrs = n0.n_attrs; n_files = n0.n_files; n_comment =
    n0.n_comment }

(** val set_content : node -> citem list -> node **)

let set_content n0 c =
  { n_parent = n0.n_parent; n_name = n0.n_name; n_type = n0.n_type;
    n_content = c; n_attrs = n0.n_attrs; n_files = n0.n_files; n_comment =
    n0.n_comment }

(** val set_attrs : node -> (n * cdata) list -> node **)

let set_attrs n0 a =
  { n_parent = n0.n_parent; n_name = n0.n_name; n_type = n0.n_type;
    n_content = n0.n_content; n_attrs = a; n_files = n0.n_files; n_comment =
    n0.n_comment }

(** val set_files : node -> n list -> node **)

let set_files n0 f =
  { n_parent = n0.n_parent; n_name = n0.n_name; n_type = n0.n_type;
    n_content = n0.n_content; n_attrs = n0.n_attrs; n_files = f; n_comment =
    n0.n_comment }

(** val set_comment : node -> n list option -> node **)

let set_comment n0 c =
  { n_parent = n0.n_parent; n_name = n0.n_name; n_type = n0.n_type;
    n_content = n0.n_content; n_attrs = n0.n_attrs; n_files = n0.n_files;
    n_comment = c }

(** val get_model : n -> model w **)

let get_model m0 w0 =
  match nth_opt w0.w_models (N.to_nat m0) with
  | Some x -> Val ((OK x), w0)
  | None ->
    Pan (String ((Ascii (false, false, true, false, false, true, true,
      false)), (String ((Ascii (true, false, false, false, false, true, true,
      false)), (String ((Ascii (false, true, true, true, false, true, true,
      false)), (String ((Ascii (true, true, true, false, false, true, true,
      false)), (String ((Ascii (false, false, true, true, false, true, true,
      false)), (String ((Ascii (true, false, false, true, false, true, true,
      false)), (String ((Ascii (false, true, true, true, false, true, true,
      false)), (String ((Ascii (true, true, true, false, false, true, true,
      false)), (String ((Ascii (false, false, false, false, false, true,
      false, false)), (String ((Ascii (true, false, true, true, false, true,
      true, false)), (String ((Ascii (true, true, true, true, false, true,
      true, false)), (String ((Ascii (false, false, true, false, false, true,
      true, false)), (String ((Ascii (true, false, true, false, false, true,
      true, false)), (String ((Ascii (false, false, true, true, false, true,
      true, false)), (String ((Ascii (false, false, false, false, false,
      true, false, false)), (String ((Ascii (true, false, false, true, false,
      true, true, false)), (String ((Ascii (false, false, true, false, false,
      true, true, false)), EmptyString))))))))))))))))))))))))))))))))))

(** val list_set : 'a1 list -> nat -> 'a1 -> 'a1 list **)

let rec list_set l k x =
  match l with
  | [] -> []
  | y :: l' -> (match k with
                | O -> x :: l'
                | S k' -> y :: (list_set l' k' x))

(** val set_model : n -> model -> unit w **)

let set_model m0 x w0 =
  Val ((OK ()), { w_nodes = w0.w_nodes; w_next = w0.w_next; w_files =
    w0.w_files; w_models = (list_set w0.w_models (N.to_nat m0) x) })

(** val modify_model : n -> (model -> model) -> unit w **)

let modify_model m0 f =
  wbind (get_model m0) (fun x -> set_model m0 (f x))

(** val get_file : n -> file w **)

let get_file f w0 =
  match nth_opt w0.w_files (N.to_nat f) with
  | Some x -> Val ((OK x), w0)
  | None ->
    Pan (String ((Ascii (false, false, true, false, false, true, true,
      false)), (String ((Ascii (true, false, false, false, false, true, true,
      false)), (String ((Ascii (false, true, true, true, false, true, true,
      false)), (String ((Ascii (true, true, true, false, false, true, true,
      false)), (String ((Ascii (false, false, true, true, false, true, true,
      false)), (String ((Ascii (true, false, false, true, false, true, true,
      false)), (String ((Ascii (false, true, true, true, false, true, true,
      false)), (String ((Ascii (true, true, true, false, false, true, true,
      false)), (String ((Ascii (false, false, false, false, false, true,
      false, false)), (String ((Ascii (false, true, true, false, false, true,
      true, false)), (String ((Ascii (true, false, false, true, false, true,
      true, false)), (String ((Ascii (false, false, true, true, false, true,
      true, false)), (String ((Ascii (true, false, true, false, false, true,
      true, false)), (String ((Ascii (false, false, false, false, false,
      true, false, false)), (String ((Ascii (true, false, false, true, false,
      true, true, false)), (String ((Ascii (false, false, true, false, false,
      true, true, false)), EmptyString))))))))))))))))))))))))))))))))

(** val set_file : n -> file -> unit w **)

let set_file f x w0 =
  Val ((OK ()), { w_nodes = w0.w_nodes; w_next = w0.w_next; w_files =
    (list_set w0.w_files (N.to_nat f) x); w_models = w0.w_models })

(** val set_root : model -> id -> model **)

let set_root m0 r =
  { m_root = r; m_files = m0.m_files; m_idents = m0.m_idents; m_origins =
    m0.m_origins }

(** val set_mfiles : model -> n list -> model **)

let set_mfiles m0 f =
  { m_root = m0.m_root; m_files = f; m_idents = m0.m_idents; m_origins =
    m0.m_origins }

(** val set_idents : model -> (n list * id) list -> model **)

let set_idents m0 i =
  { m_root = m0.m_root; m_files = m0.m_files; m_idents = i; m_origins =
    m0.m_origins }

(** val set_origins : model -> (n list * id list) list -> model **)

let set_origins m0 o =
  { m_root = m0.m_root; m_files = m0.m_files; m_idents = m0.m_idents;
    m_origins = o }

(** val insert_at : 'a1 list -> nat -> 'a1 -> 'a1 list **)

let rec insert_at l k x =
  match k with
  | O -> x :: l
  | S k' -> (match l with
             | [] -> x :: []
             | y :: l' -> y :: (insert_at l' k' x))

(** val remove_at : 'a1 list -> nat -> 'a1 list **)

let rec remove_at l k =
  match l with
  | [] -> []
  | y :: l' -> (match k with
                | O -> l'
                | S k' -> y :: (remove_at l' k'))

(** val swap_remove_at : 'a1 list -> nat -> 'a1 list **)

let swap_remove_at l k =
  match rev l with
  | [] -> []
  | lst :: _ ->
    if eqb (S k) (length l)
    then removelast l
    else removelast (list_set l k lst)

(** val index_of : ('a1 -> bool) -> 'a1 list -> nat option **)

let rec index_of p = function
| [] -> None
| x :: l' ->
  if p x then Some O else option_map (fun x0 -> S x0) (index_of p l')

(** val set_add : n -> n list -> n list **)

let rec set_add x l = match l with
| [] -> x :: []
| y :: l' ->
  if N.ltb x y then x :: l else if N.eqb x y then l else y :: (set_add x l')

(** val set_mem : n -> n list -> bool **)

let set_mem x l =
  existsb (N.eqb x) l

(** val set_remove : n -> n list -> n list **)

let set_remove x l =
  filter (fun y -> negb (N.eqb y x)) l

(** val is_empty : 'a1 list -> bool **)

let is_empty = function
| [] -> true
| _ :: _ -> false

(** val citem_is : id -> citem -> bool **)

let citem_is c = function
| CElem x -> N.eqb x c
| CData _ -> false

(** val strip_prefix : n list -> n list -> n list option **)

let rec strip_prefix pre s =
  match pre with
  | [] -> Some s
  | p :: pre' ->
    (match s with
     | [] -> None
     | x :: s' -> if N.eqb p x then strip_prefix pre' s' else None)

(** val starts_with_slash : n list -> bool **)

let starts_with_slash = function
| [] -> false
| n0 :: _ ->
  (match n0 with
   | N0 -> false
   | Npos p ->
     (match p with
      | XI p0 ->
        (match p0 with
         | XI p1 ->
           (match p1 with
            | XI p2 ->
              (match p2 with
               | XI p3 ->
                 (match p3 with
                  | XO p4 -> (match p4 with
                              | XH -> true
                              | _ -> false)
                  | _ -> false)
               | _ -> false)
            | _ -> false)
         | _ -> false)
      | _ -> false))

(** val assoc_get : n list -> (n list * 'a1) list -> 'a1 option **)

let rec assoc_get k = function
| [] -> None
| p :: l' ->
  let (k', a) = p in if bytes_eqb k' k then Some a else assoc_get k l'

(** val assoc_insert :
    n list -> 'a1 -> (n list * 'a1) list -> (n list * 'a1) list **)

let rec assoc_insert k a = function
| [] -> (k, a) :: []
| p :: l' ->
  let (k', a') = p in
  if bytes_eqb k' k then (k', a) :: l' else (k', a') :: (assoc_insert k a l')

(** val assoc_index : n list -> (n list * 'a1) list -> nat option **)

let assoc_index k l =
  index_of (fun e -> bytes_eqb (fst e) k) l

(** val assoc_swap_remove :
    n list -> (n list * 'a1) list -> (n list * 'a1) list **)

let assoc_swap_remove k l =
  match assoc_index k l with
  | Some i -> swap_remove_at l i
  | None -> l

(** val assoc_remove :
    n list -> (n list * 'a1) list -> (n list * 'a1) list **)

let assoc_remove k l =
  filter (fun e -> negb (bytes_eqb (fst e) k)) l

(** val dec_aux : nat -> n -> n list -> n list **)

let rec dec_aux fuel n0 acc =
  match fuel with
  | O -> acc
  | S f ->
    if N.ltb n0 (Npos (XO (XI (XO XH))))
    then (N.add (Npos (XO (XO (XO (XO (XI XH)))))) n0) :: acc
    else dec_aux f (N.div n0 (Npos (XO (XI (XO XH)))))
           ((N.add (Npos (XO (XO (XO (XO (XI XH))))))
              (N.modulo n0 (Npos (XO (XI (XO XH)))))) :: acc)

(** val to_dec : n -> n list **)

let to_dec n0 =
  dec_aux (S (S (S (S (S (S (S (S (S (S (S (S (S (S (S (S (S (S (S (S (S (S
    (S (S (S (S (S (S (S (S (S (S (S (S (S (S (S (S (S (S
    O)))))))))))))))))))))))))))))))))))))))) n0 []

(** val sHORT : tables -> n **)

let sHORT t =
  t.name_short_name

(** val wl : 'a1 res -> 'a1 w **)

let wl =
  wlift

(** val fuel_of : world -> nat **)

let fuel_of w0 =
  S (N.to_nat w0.w_next)

(** val opt_le : n option -> nat -> bool **)

let opt_le maxlen len =
  match maxlen with
  | Some m0 -> N.leb (N.of_nat len) m0
  | None -> true

(** val check_value :
    (n -> n list -> bool res) -> cdata -> cdspec -> n -> bool res **)

let check_value check_fn v spec version =
  match spec with
  | CEnum items ->
    (match v with
     | DEnum e ->
       Val
         (match find (fun it -> N.eqb (fst it) e) items with
          | Some p ->
            let (_, mask0) = p in negb (N.eqb (N.coq_land mask0 version) N0)
          | None -> false)
     | _ -> Val false)
  | CPattern (fn, maxlen) ->
    (match v with
     | DString s ->
       if opt_le maxlen (length s) then check_fn fn s else Val false
     | _ -> Val false)
  | CString (_, maxlen) ->
    (match v with
     | DString s -> Val (opt_le maxlen (length s))
     | _ -> Val false)
  | CUInt -> (match v with
              | DUInt _ -> Val true
              | _ -> Val false)
  | CFloat -> (match v with
               | DFloat _ -> Val true
               | _ -> Val false)

(** val value_compat : cdata -> cdspec -> n -> bool * n **)

let value_compat v spec version =
  match spec with
  | CEnum items ->
    (match v with
     | DEnum e ->
       (match find (fun it -> N.eqb (fst it) e) items with
        | Some p ->
          let (_, mask0) = p in
          ((negb (N.eqb (N.coq_land mask0 version) N0)), mask0)
        | None -> (false, N0))
     | _ ->
       (false, (Npos (XI (XI (XI (XI (XI (XI (XI (XI (XI (XI (XI (XI (XI (XI
         (XI (XI (XI (XI (XI (XI (XI (XI (XI (XI (XI (XI (XI (XI (XI (XI (XI
         XH))))))))))))))))))))))))))))))))))
  | _ ->
    (true, (Npos (XI (XI (XI (XI (XI (XI (XI (XI (XI (XI (XI (XI (XI (XI (XI
      (XI (XI (XI (XI (XI (XI (XI (XI (XI (XI (XI (XI (XI (XI (XI (XI
      XH)))))))))))))))))))))))))))))))))

(** val cdata_to_string : nametab -> cdata -> n list res **)

let cdata_to_string tab_en = function
| DEnum e ->
  unwrap (String ((Ascii (true, false, true, false, false, false, true,
    false)), (String ((Ascii (false, true, true, true, false, true, true,
    false)), (String ((Ascii (true, false, true, false, true, true, true,
    false)), (String ((Ascii (true, false, true, true, false, true, true,
    false)), (String ((Ascii (true, false, false, true, false, false, true,
    false)), (String ((Ascii (false, false, true, false, true, true, true,
    false)), (String ((Ascii (true, false, true, false, false, true, true,
    false)), (String ((Ascii (true, false, true, true, false, true, true,
    false)), (String ((Ascii (false, true, false, true, true, true, false,
    false)), (String ((Ascii (false, true, false, true, true, true, false,
    false)), (String ((Ascii (false, false, true, false, true, true, true,
    false)), (String ((Ascii (true, true, true, true, false, true, true,
    false)), (String ((Ascii (true, true, true, true, true, false, true,
    false)), (String ((Ascii (true, true, false, false, true, true, true,
    false)), (String ((Ascii (false, false, true, false, true, true, true,
    false)), (String ((Ascii (false, true, false, false, true, true, true,
    false)), EmptyString)))))))))))))))))))))))))))))))) (to_str tab_en e)
| DString s -> Val s
| DUInt n0 -> Val (to_dec n0)
| DFloat _ ->
  Pan (String ((Ascii (true, false, true, false, true, false, true, false)),
    (String ((Ascii (false, true, true, true, false, false, true, false)),
    (String ((Ascii (true, false, true, true, false, false, true, false)),
    (String ((Ascii (true, true, true, true, false, false, true, false)),
    (String ((Ascii (false, false, true, false, false, false, true, false)),
    (String ((Ascii (true, false, true, false, false, false, true, false)),
    (String ((Ascii (false, false, true, true, false, false, true, false)),
    (String ((Ascii (false, false, true, true, false, false, true, false)),
    (String ((Ascii (true, false, true, false, false, false, true, false)),
    (String ((Ascii (false, false, true, false, false, false, true, false)),
    (String ((Ascii (false, true, false, true, true, true, false, false)),
    (String ((Ascii (false, false, false, false, false, true, false, false)),
    (String ((Ascii (false, true, true, false, false, true, true, false)),
    (String ((Ascii (false, true, true, false, true, true, false, false)),
    (String ((Ascii (false, false, true, false, true, true, false, false)),
    (String ((Ascii (false, true, false, true, true, true, false, false)),
    (String ((Ascii (false, true, false, true, true, true, false, false)),
    (String ((Ascii (false, false, true, false, true, true, true, false)),
    (String ((Ascii (true, true, true, true, false, true, true, false)),
    (String ((Ascii (true, true, true, true, true, false, true, false)),
    (String ((Ascii (true, true, false, false, true, true, true, false)),
    (String ((Ascii (false, false, true, false, true, true, true, false)),
    (String ((Ascii (false, true, false, false, true, true, true, false)),
    (String ((Ascii (true, false, false, true, false, true, true, false)),
    (String ((Ascii (false, true, true, true, false, true, true, false)),
    (String ((Ascii (true, true, true, false, false, true, true, false)),
    EmptyString))))))))))))))))))))))))))))))))))))))))))))))))))))

(** val character_data : tables -> node -> cdata option res **)

let character_data t n0 =
  match n0.n_content with
  | [] -> Val None
  | c :: l ->
    (match c with
     | CElem _ -> Val None
     | CData d ->
       (match l with
        | [] ->
          bind (content_mode t n0.n_type) (fun mode -> Val
            (if (||) (N.eqb mode mCharacters) (N.eqb mode mMixed)
             then Some d
             else None))
        | _ :: _ -> Val None))

(** val item_name : tables -> node -> n list option w **)

let item_name t n0 =
  wbind (wl (is_named t n0.n_type)) (fun named ->
    if negb named
    then wret None
    else (match n0.n_content with
          | [] -> wret None
          | c :: _ ->
            (match c with
             | CElem s ->
               wbind (get_node s) (fun sn ->
                 if N.eqb sn.n_name (sHORT t)
                 then wbind (wl (character_data t sn)) (fun cd ->
                        wret
                          (match cd with
                           | Some c0 ->
                             (match c0 with
                              | DString nm -> Some nm
                              | _ -> None)
                           | None -> None))
                 else wret None)
             | CData _ -> wret None)))

(** val is_identifiable : tables -> node -> bool w **)

let is_identifiable t n0 =
  wbind (wl (is_named t n0.n_type)) (fun named ->
    if negb named
    then wret false
    else (match n0.n_content with
          | [] -> wret false
          | c :: _ ->
            (match c with
             | CElem s ->
               wbind (get_node s) (fun sn -> wret (N.eqb sn.n_name (sHORT t)))
             | CData _ -> wret false)))

(** val parent_of : node -> id option w **)

let parent_of n0 =
  match n0.n_parent with
  | PNone -> wfail ItemDeleted
  | PModel _ -> wret None
  | PElem p -> wret (Some p)

(** val up_names : tables -> nat -> pref -> n list list -> n list list w **)

let rec up_names t fuel p acc =
  match fuel with
  | O -> wfuel
  | S f ->
    (match p with
     | PNone -> wfail ItemDeleted
     | PModel _ -> wret acc
     | PElem i ->
       wbind (get_node i) (fun n0 ->
         wbind (item_name t n0) (fun nm ->
           up_names t f n0.n_parent
             (match nm with
              | Some x -> x :: acc
              | None -> acc))))

(** val join_path : n list list -> n list **)

let join_path names =
  concat (map (fun nm -> (Npos (XI (XI (XI (XI (XO XH)))))) :: nm) names)

(** val path_unchecked : tables -> node -> n list w **)

let path_unchecked t n0 =
  wbind (item_name t n0) (fun own ->
    wbind wget (fun w0 ->
      wbind
        (up_names t (fuel_of w0) n0.n_parent
          (match own with
           | Some x -> x :: []
           | None -> [])) (fun names -> wret (join_path names))))

(** val path_of : tables -> node -> n list w **)

let path_of t n0 =
  wbind (is_identifiable t n0) (fun i ->
    if i then path_unchecked t n0 else wfail ElementNotIdentifiable)

(** val path_id : tables -> id -> n list w **)

let path_id t i =
  wbind (get_node i) (fun n0 -> path_of t n0)

(** val model_walk : nat -> id -> n w **)

let rec model_walk fuel i =
  match fuel with
  | O -> wfuel
  | S f ->
    wbind (get_node i) (fun n0 ->
      match n0.n_parent with
      | PNone -> wfail ItemDeleted
      | PModel m0 -> wret m0
      | PElem p -> model_walk f p)

(** val model_of : id -> n w **)

let model_of i =
  wbind wget (fun w0 -> model_walk (fuel_of w0) i)

(** val fm_walk : nat -> id -> id -> (bool * n list) w **)

let rec fm_walk fuel self cur =
  match fuel with
  | O -> wfuel
  | S f ->
    wbind (get_node cur) (fun n0 ->
      if negb (is_empty n0.n_files)
      then wret ((N.eqb cur self), n0.n_files)
      else wbind (parent_of n0) (fun p ->
             match p with
             | Some pi -> fm_walk f self pi
             | None -> wfail NoFilesInModel))

(** val file_membership : id -> (bool * n list) w **)

let file_membership i =
  wbind wget (fun w0 -> fm_walk (fuel_of w0) i i)

(** val min_version : n -> id -> n w **)

let min_version lATEST i =
  wbind (file_membership i) (fun x ->
    let (_, files) = x in
    wbind wget (fun w0 ->
      wret
        (fold_left (fun ver f ->
          match nth_opt w0.w_files (N.to_nat f) with
          | Some x0 -> if N.ltb x0.f_version ver then x0.f_version else ver
          | None -> ver) files lATEST)))

(** val get_element_by_path : n -> n list -> id option w **)

let get_element_by_path m0 path =
  wbind (get_model m0) (fun x -> wret (assoc_get path x.m_idents))

(** val add_identifiable : n -> n list -> id -> unit w **)

let add_identifiable m0 path e =
  modify_model m0 (fun x -> set_idents x (assoc_insert path e x.m_idents))

(** val remove_identifiable : n -> n list -> unit w **)

let remove_identifiable m0 path =
  modify_model m0 (fun x -> set_idents x (assoc_swap_remove path x.m_idents))

(** val fix_identifiables : n -> n list -> n list -> unit w **)

let fix_identifiables m0 old_path new_path =
  modify_model m0 (fun x ->
    set_idents x
      (fold_left (fun idents key ->
        match strip_prefix old_path key with
        | Some suffix ->
          if (||) (is_empty suffix) (starts_with_slash suffix)
          then (match assoc_get key idents with
                | Some entry ->
                  assoc_insert (app new_path suffix) entry
                    (assoc_swap_remove key idents)
                | None -> idents)
          else idents
        | None -> idents) (map fst x.m_idents) x.m_idents))

(** val add_reference_origin : n -> n list -> id -> unit w **)

let add_reference_origin m0 r e =
  modify_model m0 (fun x ->
    set_origins x
      (match assoc_get r x.m_origins with
       | Some l -> assoc_insert r (app l (e :: [])) x.m_origins
       | None -> app x.m_origins ((r, (e :: [])) :: [])))

(** val remove_first : id -> id list -> id list **)

let remove_first e l =
  match index_of (N.eqb e) l with
  | Some k -> swap_remove_at l k
  | None -> l

(** val fix_reference_origins : n -> n list -> n list -> id -> unit w **)

let fix_reference_origins m0 old_ref new_ref e =
  if bytes_eqb old_ref new_ref
  then wret ()
  else modify_model m0 (fun x ->
         let o1 =
           match assoc_get old_ref x.m_origins with
           | Some l ->
             (match index_of (N.eqb e) l with
              | Some k ->
                let l' = swap_remove_at l k in
                if is_empty l'
                then assoc_remove old_ref x.m_origins
                else assoc_insert old_ref l' x.m_origins
              | None -> x.m_origins)
           | None -> x.m_origins
         in
         set_origins x
           (match assoc_get new_ref o1 with
            | Some l -> assoc_insert new_ref (app l (e :: [])) o1
            | None -> app o1 ((new_ref, (e :: [])) :: [])))

(** val remove_reference_origin : n -> n list -> id -> unit w **)

let remove_reference_origin m0 r e =
  modify_model m0 (fun x ->
    set_origins x
      (match assoc_get r x.m_origins with
       | Some l ->
         let l' = remove_first e l in
         if is_empty l'
         then assoc_remove r x.m_origins
         else assoc_insert r l' x.m_origins
       | None -> x.m_origins))

(** val lex_cmp : n list -> n list -> comparison **)

let rec lex_cmp a b =
  match a with
  | [] -> (match b with
           | [] -> Eq
           | _ :: _ -> Lt)
  | x :: a' ->
    (match b with
     | [] -> Gt
     | y :: b' -> (match N.compare x y with
                   | Eq -> lex_cmp a' b'
                   | x0 -> x0))

(** val list_eqbN : n list -> n list -> bool **)

let rec list_eqbN a b =
  match a with
  | [] -> (match b with
           | [] -> true
           | _ :: _ -> false)
  | x :: a' ->
    (match b with
     | [] -> false
     | y :: b' -> (&&) (N.eqb x y) (list_eqbN a' b'))

(** val repeat_conflict : tables -> (n * n) -> n list -> bool res **)

let repeat_conflict t ty idx =
  bind (get_sub_element_multiplicity t ty idx) (fun m0 -> Val
    (match m0 with
     | Some mu -> negb (N.eqb mu (Npos (XO XH)))
     | None -> false))

(** val range_loop :
    tables -> (n * n) -> n -> n list -> citem list -> n -> n -> n -> (n * n) w **)

let rec range_loop t ty version new_idx items idx start_pos end_pos =
  match items with
  | [] -> wret (start_pos, end_pos)
  | c0 :: rest ->
    (match c0 with
     | CElem c ->
       wbind (get_node c) (fun cn ->
         wbind (wl (find_sub_element t ty cn.n_name version)) (fun ex0 ->
           wbind
             (match ex0 with
              | Some x -> wret (Some x)
              | None ->
                wl
                  (find_sub_element t ty cn.n_name (Npos (XI (XI (XI (XI (XI
                    (XI (XI (XI (XI (XI (XI (XI (XI (XI (XI (XI (XI (XI (XI
                    (XI (XI (XI (XI (XI (XI (XI (XI (XI (XI (XI (XI
                    XH)))))))))))))))))))))))))))))))))) (fun ex ->
             match ex with
             | Some p ->
               let (_, ex_idx) = p in
               wbind (wl (find_common_group t ty new_idx ex_idx)) (fun g ->
                 wbind (wl (dt t g)) (fun gd ->
                   let mode = gd.dt_mode in
                   if N.eqb mode mSequence
                   then (match lex_cmp new_idx ex_idx with
                         | Eq ->
                           wbind (wl (repeat_conflict t ty new_idx))
                             (fun c1 ->
                             if c1
                             then wfail ElementInsertionConflict
                             else range_loop t ty version new_idx rest
                                    (N.add idx (Npos XH)) start_pos
                                    (N.add idx (Npos XH)))
                         | Lt -> wret (start_pos, end_pos)
                         | Gt ->
                           range_loop t ty version new_idx rest
                             (N.add idx (Npos XH)) (N.add idx (Npos XH))
                             (N.add idx (Npos XH)))
                   else if N.eqb mode mChoice
                        then if list_eqbN new_idx ex_idx
                             then wbind (wl (repeat_conflict t ty new_idx))
                                    (fun c1 ->
                                    if c1
                                    then wfail ElementInsertionConflict
                                    else range_loop t ty version new_idx rest
                                           (N.add idx (Npos XH)) start_pos
                                           (N.add idx (Npos XH)))
                             else wfail ElementInsertionConflict
                        else if (||) (N.eqb mode mBag) (N.eqb mode mMixed)
                             then range_loop t ty version new_idx rest
                                    (N.add idx (Npos XH)) start_pos
                                    (N.add idx (Npos XH))
                             else wpanic (String ((Ascii (true, false, true,
                                    false, false, true, true, false)),
                                    (String ((Ascii (false, false, true,
                                    true, false, true, true, false)), (String
                                    ((Ascii (true, false, true, false, false,
                                    true, true, false)), (String ((Ascii
                                    (true, false, true, true, false, true,
                                    true, false)), (String ((Ascii (true,
                                    false, true, false, false, true, true,
                                    false)), (String ((Ascii (false, true,
                                    true, true, false, true, true, false)),
                                    (String ((Ascii (false, false, true,
                                    false, true, true, true, false)), (String
                                    ((Ascii (false, true, false, false, true,
                                    true, true, false)), (String ((Ascii
                                    (true, false, false, false, false, true,
                                    true, false)), (String ((Ascii (true,
                                    true, true, false, true, true, true,
                                    false)), (String ((Ascii (false, true,
                                    true, true, false, true, false, false)),
                                    (String ((Ascii (false, true, false,
                                    false, true, true, true, false)), (String
                                    ((Ascii (true, true, false, false, true,
                                    true, true, false)), (String ((Ascii
                                    (false, false, false, false, false, true,
                                    false, false)), (String ((Ascii (true,
                                    true, false, false, false, true, true,
                                    false)), (String ((Ascii (true, false,
                                    false, false, false, true, true, false)),
                                    (String ((Ascii (false, false, true,
                                    true, false, true, true, false)), (String
                                    ((Ascii (true, true, false, false, false,
                                    true, true, false)), (String ((Ascii
                                    (true, true, true, true, true, false,
                                    true, false)), (String ((Ascii (true,
                                    false, true, false, false, true, true,
                                    false)), (String ((Ascii (false, false,
                                    true, true, false, true, true, false)),
                                    (String ((Ascii (true, false, true,
                                    false, false, true, true, false)),
                                    (String ((Ascii (true, false, true, true,
                                    false, true, true, false)), (String
                                    ((Ascii (true, false, true, false, false,
                                    true, true, false)), (String ((Ascii
                                    (false, true, true, true, false, true,
                                    true, false)), (String ((Ascii (false,
                                    false, true, false, true, true, true,
                                    false)), (String ((Ascii (true, true,
                                    true, true, true, false, true, false)),
                                    (String ((Ascii (true, false, false,
                                    true, false, true, true, false)), (String
                                    ((Ascii (false, true, true, true, false,
                                    true, true, false)), (String ((Ascii
                                    (true, true, false, false, true, true,
                                    true, false)), (String ((Ascii (true,
                                    false, true, false, false, true, true,
                                    false)), (String ((Ascii (false, true,
                                    false, false, true, true, true, false)),
                                    (String ((Ascii (false, false, true,
                                    false, true, true, true, false)), (String
                                    ((Ascii (true, true, true, true, true,
                                    false, true, false)), (String ((Ascii
                                    (false, true, false, false, true, true,
                                    true, false)), (String ((Ascii (true,
                                    false, false, false, false, true, true,
                                    false)), (String ((Ascii (false, true,
                                    true, true, false, true, true, false)),
                                    (String ((Ascii (true, true, true, false,
                                    false, true, true, false)), (String
                                    ((Ascii (true, false, true, false, false,
                                    true, true, false)), (String ((Ascii
                                    (false, true, false, true, true, true,
                                    false, false)), (String ((Ascii (false,
                                    false, false, false, false, true, false,
                                    false)), (String ((Ascii (true, false,
                                    true, false, true, true, true, false)),
                                    (String ((Ascii (false, true, true, true,
                                    false, true, true, false)), (String
                                    ((Ascii (false, true, false, false, true,
                                    true, true, false)), (String ((Ascii
                                    (true, false, true, false, false, true,
                                    true, false)), (String ((Ascii (true,
                                    false, false, false, false, true, true,
                                    false)), (String ((Ascii (true, true,
                                    false, false, false, true, true, false)),
                                    (String ((Ascii (false, false, false,
                                    true, false, true, true, false)), (String
                                    ((Ascii (true, false, false, false,
                                    false, true, true, false)), (String
                                    ((Ascii (false, true, false, false,
                                    false, true, true, false)), (String
                                    ((Ascii (false, false, true, true, false,
                                    true, true, false)), (String ((Ascii
                                    (true, false, true, false, false, true,
                                    true, false)), (String ((Ascii (true,
                                    false, false, false, false, true, false,
                                    false)), (String ((Ascii (false, false,
                                    false, true, false, true, false, false)),
                                    (String ((Ascii (true, false, false,
                                    true, false, true, false, false)),
                                    EmptyString))))))))))))))))))))))))))))))))))))))))))))))))))))))))))))))))))))))))))))))))))))))))))))))))))))))))))))))))
             | None ->
               range_loop t ty version new_idx rest (N.add idx (Npos XH))
                 start_pos end_pos)))
     | CData _ ->
       range_loop t ty version new_idx rest (N.add idx (Npos XH)) start_pos
         (N.add idx (Npos XH)))

(** val calc_element_insert_range : tables -> node -> n -> n -> (n * n) w **)

let calc_element_insert_range t n0 name version =
  wbind (wl (content_mode t n0.n_type)) (fun mode ->
    if N.eqb mode mCharacters
    then wfail IncorrectContentType
    else wbind (wl (find_sub_element t n0.n_type name version)) (fun f ->
           match f with
           | Some p ->
             let (_, new_idx) = p in
             if (||) (N.eqb mode mBag) (N.eqb mode mMixed)
             then wret (N0, (N.of_nat (length n0.n_content)))
             else range_loop t n0.n_type version new_idx n0.n_content N0 N0 N0
           | None -> wfail InvalidSubElement))

(** val content_insert : id -> n -> citem -> unit w **)

let content_insert self pos it =
  wbind (get_node self) (fun n0 ->
    if N.ltb (N.of_nat (length n0.n_content)) pos
    then wpanic (String ((Ascii (false, true, true, false, true, false, true,
           false)), (String ((Ascii (true, false, true, false, false, true,
           true, false)), (String ((Ascii (true, true, false, false, false,
           true, true, false)), (String ((Ascii (false, true, false, true,
           true, true, false, false)), (String ((Ascii (false, true, false,
           true, true, true, false, false)), (String ((Ascii (true, false,
           false, true, false, true, true, false)), (String ((Ascii (false,
           true, true, true, false, true, true, false)), (String ((Ascii
           (true, true, false, false, true, true, true, false)), (String
           ((Ascii (true, false, true, false, false, true, true, false)),
           (String ((Ascii (false, true, false, false, true, true, true,
           false)), (String ((Ascii (false, false, true, false, true, true,
           true, false)), (String ((Ascii (false, true, false, true, true,
           true, false, false)), (String ((Ascii (false, false, false, false,
           false, true, false, false)), (String ((Ascii (true, false, false,
           true, false, true, true, false)), (String ((Ascii (false, true,
           true, true, false, true, true, false)), (String ((Ascii (false,
           false, true, false, false, true, true, false)), (String ((Ascii
           (true, false, true, false, false, true, true, false)), (String
           ((Ascii (false, false, false, true, true, true, true, false)),
           (String ((Ascii (false, false, false, false, false, true, false,
           false)), (String ((Ascii (false, true, true, true, true, true,
           false, false)), (String ((Ascii (false, false, false, false,
           false, true, false, false)), (String ((Ascii (false, false, true,
           true, false, true, true, false)), (String ((Ascii (true, false,
           true, false, false, true, true, false)), (String ((Ascii (false,
           true, true, true, false, true, true, false)),
           EmptyString))))))))))))))))))))))))))))))))))))))))))))))))
    else set_node self
           (set_content n0 (insert_at n0.n_content (N.to_nat pos) it)))

(** val new_node : pref -> n -> (n * n) -> node **)

let new_node parent name ty =
  { n_parent = parent; n_name = name; n_type = ty; n_content = []; n_attrs =
    []; n_files = []; n_comment = None }

(** val create_sub_element_inner : tables -> id -> n -> n -> n -> id w **)

let create_sub_element_inner t self name pos version =
  wbind (get_node self) (fun n0 ->
    wbind (wl (find_sub_element t n0.n_type name version)) (fun f ->
      match f with
      | Some p ->
        let (et, _) = p in
        wbind (wl (is_named_in_version t et version)) (fun nv ->
          if nv
          then wfail ItemNameRequired
          else wbind (alloc (new_node (PElem self) name et)) (fun c ->
                 wbind (content_insert self pos (CElem c)) (fun _ -> wret c)))
      | None -> wfail InvalidSubElement))

(** val raw_create_sub_element : tables -> id -> n -> n -> id w **)

let raw_create_sub_element t self name version =
  wbind (get_node self) (fun n0 ->
    wbind (calc_element_insert_range t n0 name version) (fun x ->
      let (_, e) = x in create_sub_element_inner t self name e version))

(** val raw_create_sub_element_at : tables -> id -> n -> n -> n -> id w **)

let raw_create_sub_element_at t self name pos version =
  wbind (get_node self) (fun n0 ->
    wbind (calc_element_insert_range t n0 name version) (fun x ->
      let (s, e) = x in
      if (&&) (N.leb s pos) (N.leb pos e)
      then create_sub_element_inner t self name pos version
      else wfail InvalidPosition))

(** val raw_set_character_data :
    tables -> (n -> n list -> bool res) -> id -> cdata -> n -> unit w **)

let raw_set_character_data t check_fn i v version =
  wbind (get_node i) (fun n0 ->
    wbind (wl (content_mode t n0.n_type)) (fun mode ->
      if (||) (N.eqb mode mCharacters)
           ((&&) (N.eqb mode mMixed) (leb (length n0.n_content) (S O)))
      then wbind (wl (chardata_spec t n0.n_type)) (fun spec ->
             match spec with
             | Some cs ->
               wbind (wl (check_value check_fn v cs version)) (fun ok ->
                 if ok
                 then set_node i
                        (set_content n0
                          (match n0.n_content with
                           | [] -> (CData v) :: []
                           | _ :: r -> (CData v) :: r))
                 else wfail IncorrectContentType)
             | None -> wfail IncorrectContentType)
      else wfail IncorrectContentType))

(** val create_named_sub_element_inner :
    tables -> (n -> n list -> bool res) -> id -> n -> n list -> n -> n -> n
    -> id w **)

let create_named_sub_element_inner t check_fn self name item pos m0 version =
  if is_empty item
  then wfail ItemNameRequired
  else wbind (get_node self) (fun n0 ->
         wbind (wl (find_sub_element t n0.n_type name version)) (fun f ->
           match f with
           | Some p ->
             let (et, _) = p in
             wbind (wl (is_named_in_version t et version)) (fun nv ->
               if negb nv
               then wfail ElementNotIdentifiable
               else wbind (wl (find_sub_element t et (sHORT t) version))
                      (fun sn ->
                      wbind
                        (match sn with
                         | Some p0 ->
                           let (se_type, _) = p0 in
                           wbind (wl (chardata_spec t se_type)) (fun cs ->
                             match cs with
                             | Some spec ->
                               wl
                                 (check_value check_fn (DString item) spec
                                   version)
                             | None -> wret false)
                         | None -> wret false) (fun valid ->
                        if negb valid
                        then wfail IncorrectContentType
                        else wbind (path_unchecked t n0) (fun parent_path ->
                               let path =
                                 app parent_path
                                   (app ((Npos (XI (XI (XI (XI (XO
                                     XH)))))) :: []) item)
                               in
                               wbind (get_element_by_path m0 path) (fun ex ->
                                 match ex with
                                 | Some _ -> wfail DuplicateItemName
                                 | None ->
                                   wbind
                                     (alloc (new_node (PElem self) name et))
                                     (fun c ->
                                     wbind
                                       (content_insert self pos (CElem c))
                                       (fun _ ->
                                       wbind
                                         (raw_create_sub_element t c
                                           (sHORT t) version) (fun s ->
                                         wbind
                                           (wtry
                                             (raw_set_character_data t
                                               check_fn s (DString item)
                                               version)) (fun _ ->
                                           wbind (add_identifiable m0 path c)
                                             (fun _ -> wret c))))))))))
           | None -> wfail InvalidSubElement))

(** val raw_create_named_sub_element :
    tables -> (n -> n list -> bool res) -> id -> n -> n list -> n -> n -> id w **)

let raw_create_named_sub_element t check_fn self name item m0 version =
  wbind (get_node self) (fun n0 ->
    wbind (calc_element_insert_range t n0 name version) (fun x ->
      let (_, e) = x in
      create_named_sub_element_inner t check_fn self name item e m0 version))

(** val raw_create_named_sub_element_at :
    tables -> (n -> n list -> bool res) -> id -> n -> n list -> n -> n -> n
    -> id w **)

let raw_create_named_sub_element_at t check_fn self name item pos m0 version =
  wbind (get_node self) (fun n0 ->
    wbind (calc_element_insert_range t n0 name version) (fun x ->
      let (s, e) = x in
      if (&&) (N.leb s pos) (N.leb pos e)
      then create_named_sub_element_inner t check_fn self name item pos m0
             version
      else wfail InvalidPosition))

(** val copy_attrs :
    tables -> (n * n) -> n -> (n * cdata) list -> (n * cdata) list ->
    (n * cdata) list w **)

let rec copy_attrs t ty version attrs acc =
  match attrs with
  | [] -> wret acc
  | p :: rest ->
    let (an, av) = p in
    wbind (wl (find_attribute_spec t ty an)) (fun sp ->
      match sp with
      | Some p0 ->
        let (p1, mask0) = p0 in
        let (p2, required) = p1 in
        let (_, spec) = p2 in
        if (&&) (negb (N.eqb (N.coq_land version mask0) N0))
             (fst (value_compat av spec version))
        then copy_attrs t ty version rest (app acc ((an, av) :: []))
        else if negb (N.eqb required N0)
             then wfail VersionIncompatibleData
             else copy_attrs t ty version rest acc
      | None -> wfail VersionIncompatibleData)

(** val deep_copy : tables -> nat -> id -> n -> id w **)

let rec deep_copy t fuel src version =
  match fuel with
  | O -> wfuel
  | S f ->
    wbind (get_node src) (fun n0 ->
      wbind
        (alloc { n_parent = PNone; n_name = n0.n_name; n_type = n0.n_type;
          n_content = []; n_attrs = []; n_files = []; n_comment =
          n0.n_comment }) (fun c ->
        wbind (copy_attrs t n0.n_type version n0.n_attrs []) (fun attrs ->
          wbind (modify_node c (fun x -> set_attrs x attrs)) (fun _ ->
            wbind
              (let rec items = function
               | [] -> wret ()
               | c0 :: rest ->
                 (match c0 with
                  | CElem s ->
                    wbind (get_node s) (fun sn ->
                      wbind
                        (wl (find_sub_element t n0.n_type sn.n_name version))
                        (fun fs ->
                        match fs with
                        | Some _ ->
                          wbind (wtry (deep_copy t f s version)) (fun r ->
                            match r with
                            | Some cs ->
                              wbind
                                (modify_node cs (fun x ->
                                  set_parent x (PElem c))) (fun _ ->
                                wbind
                                  (modify_node c (fun x ->
                                    set_content x
                                      (app x.n_content ((CElem cs) :: []))))
                                  (fun _ -> items rest))
                            | None -> items rest)
                        | None -> items rest))
                  | CData d ->
                    wbind
                      (modify_node c (fun x ->
                        set_content x (app x.n_content ((CData d) :: []))))
                      (fun _ -> items rest))
               in items n0.n_content) (fun _ -> wret c)))))

(** val unique_loop :
    nat -> n -> n list -> n list -> n list -> n -> (n list * n) w **)

let rec unique_loop fuel m0 parent_path orig name counter =
  match fuel with
  | O -> wfuel
  | S f ->
    wbind
      (get_element_by_path m0
        (app parent_path
          (app ((Npos (XI (XI (XI (XI (XO XH)))))) :: []) name))) (fun ex ->
      match ex with
      | Some _ ->
        unique_loop f m0 parent_path orig
          (app orig
            (app ((Npos (XI (XI (XI (XI (XI (XO XH))))))) :: [])
              (to_dec counter))) (N.add counter (Npos XH))
      | None -> wret (name, counter))

(** val make_unique_item_name : tables -> id -> n -> n list -> n list w **)

let make_unique_item_name t i m0 parent_path =
  wbind (get_node i) (fun n0 ->
    wbind (item_name t n0) (fun nm ->
      match nm with
      | Some orig ->
        wbind (get_model m0) (fun x ->
          wbind
            (unique_loop (S (S (length x.m_idents))) m0 parent_path orig orig
              (Npos XH)) (fun x0 ->
            let (name, counter) = x0 in
            wbind
              (if N.ltb (Npos XH) counter
               then (match n0.n_content with
                     | [] -> wret ()
                     | c :: _ ->
                       (match c with
                        | CElem s ->
                          modify_node s (fun sn ->
                            set_content sn ((CData (DString name)) :: []))
                        | CData _ -> wret ()))
               else wret ()) (fun _ -> wret name)))
      | None -> wfail ElementNotIdentifiable))

(** val ancestor_is : nat -> pref -> id -> bool w **)

let rec ancestor_is fuel p other =
  match fuel with
  | O -> wfuel
  | S f ->
    (match p with
     | PElem i ->
       if N.eqb i other
       then wret true
       else wbind (get_node i) (fun n0 -> ancestor_is f n0.n_parent other)
     | _ -> wret false)

(** val register_subtree : tables -> nat -> n -> n list -> id -> unit w **)

let rec register_subtree t fuel m0 cur i =
  match fuel with
  | O -> wfuel
  | S f ->
    wbind (get_node i) (fun n0 ->
      wbind (is_identifiable t n0) (fun ident ->
        wbind
          (if ident
           then wbind (item_name t n0) (fun nm ->
                  let p =
                    match nm with
                    | Some x ->
                      app cur
                        (app ((Npos (XI (XI (XI (XI (XO XH)))))) :: []) x)
                    | None -> cur
                  in
                  wbind (add_identifiable m0 p i) (fun _ -> wret p))
           else wret cur) (fun cur' ->
          wbind (wl (is_ref t n0.n_type)) (fun isr ->
            wbind
              (if isr
               then wbind (wl (character_data t n0)) (fun cd ->
                      match cd with
                      | Some c ->
                        (match c with
                         | DString r -> add_reference_origin m0 r i
                         | _ -> wret ())
                      | None -> wret ())
               else wret ()) (fun _ ->
              let rec kids = function
              | [] -> wret ()
              | c0 :: rest ->
                (match c0 with
                 | CElem c ->
                   wbind (register_subtree t f m0 cur' c) (fun _ -> kids rest)
                 | CData _ -> kids rest)
              in kids n0.n_content)))))

(** val create_copied_sub_element_inner :
    tables -> id -> id -> n -> n -> n -> id w **)

let create_copied_sub_element_inner t self other pos m0 version =
  wbind (get_node self) (fun n0 ->
    wbind wget (fun w0 ->
      wbind (ancestor_is (fuel_of w0) n0.n_parent other) (fun anc ->
        if anc
        then wfail ForbiddenCopyOfParent
        else wbind (deep_copy t (fuel_of w0) other version) (fun c ->
               wbind (path_unchecked t n0) (fun path ->
                 wbind (modify_node c (fun x -> set_parent x (PElem self)))
                   (fun _ ->
                   wbind (get_node c) (fun cn ->
                     wbind (is_identifiable t cn) (fun ident ->
                       wbind
                         (if ident
                          then wbind (make_unique_item_name t c m0 path)
                                 (fun _ -> wret ())
                          else wret ()) (fun _ ->
                         wbind wget (fun w2 ->
                           wbind (register_subtree t (fuel_of w2) m0 path c)
                             (fun _ ->
                             wbind (content_insert self pos (CElem c))
                               (fun _ -> wret c))))))))))))

(** val raw_create_copied_sub_element :
    tables -> id -> id -> n -> n -> id w **)

let raw_create_copied_sub_element t self other m0 version =
  wbind (get_node self) (fun n0 ->
    wbind (get_node other) (fun o ->
      wbind (calc_element_insert_range t n0 o.n_name version) (fun x ->
        let (_, e) = x in
        create_copied_sub_element_inner t self other e m0 version)))

(** val raw_create_copied_sub_element_at :
    tables -> id -> id -> n -> n -> n -> id w **)

let raw_create_copied_sub_element_at t self other pos m0 version =
  wbind (get_node self) (fun n0 ->
    wbind (get_node other) (fun o ->
      wbind (calc_element_insert_range t n0 o.n_name version) (fun x ->
        let (s, e) = x in
        if (&&) (N.leb s pos) (N.leb pos e)
        then create_copied_sub_element_inner t self other pos m0 version
        else wfail InvalidPosition)))

(** val dfs_ids : nat -> id -> id list w **)

let rec dfs_ids fuel i =
  match fuel with
  | O -> wfuel
  | S f ->
    wbind (get_node i) (fun n0 ->
      wbind
        (let rec kids = function
         | [] -> wret []
         | c0 :: r ->
           (match c0 with
            | CElem c ->
              wbind (dfs_ids f c) (fun a ->
                wbind (kids r) (fun b -> wret (app a b)))
            | CData _ -> kids r)
         in kids n0.n_content) (fun rest -> wret (i :: rest)))

(** val named_paths : tables -> id list -> (n list * id) list w **)

let rec named_paths t = function
| [] -> wret []
| i :: rest ->
  wbind (get_node i) (fun n0 ->
    wbind (wl (is_named t n0.n_type)) (fun named ->
      wbind (named_paths t rest) (fun r ->
        if named
        then wbind (wtry (path_of t n0)) (fun p ->
               wret (match p with
                     | Some x -> (x, i) :: r
                     | None -> r))
        else wret r)))

(** val detach_from : id -> id -> unit w **)

let detach_from parent c =
  wbind (get_node parent) (fun pn ->
    match index_of (citem_is c) pn.n_content with
    | Some k -> set_node parent (set_content pn (remove_at pn.n_content k))
    | None -> wfail ElementNotFound)

(** val move_element_position : id -> id -> n -> id w **)

let move_element_position self mv pos =
  wbind (get_node self) (fun n0 ->
    if N.ltb pos (N.of_nat (length n0.n_content))
    then (match index_of (citem_is mv) n0.n_content with
          | Some cur ->
            wbind
              (set_node self
                (set_content n0
                  (insert_at (remove_at n0.n_content cur) (N.to_nat pos)
                    (CElem mv)))) (fun _ -> wret mv)
          | None -> wfail ElementNotFound)
    else wfail InvalidPosition)

(** val move_element_local :
    tables -> (n -> n list -> bool res) -> id -> id -> n -> n -> n -> id w **)

let move_element_local t check_fn self mv pos m0 version =
  wbind (get_node self) (fun n0 ->
    wbind wget (fun w0 ->
      wbind (ancestor_is (fuel_of w0) n0.n_parent mv) (fun anc ->
        if anc
        then wfail ForbiddenMoveToSubElement
        else wbind (get_node mv) (fun mn ->
               wbind (parent_of mn) (fun sp ->
                 match sp with
                 | Some src_parent ->
                   wbind (dfs_ids (fuel_of w0) mv) (fun ids ->
                     wbind (named_paths t ids) (fun original ->
                       let original_paths = map fst original in
                       wbind (ancestor_is (fuel_of w0) mn.n_parent self)
                         (fun self_above ->
                         if self_above
                         then wfail ParentElementLocked
                         else wbind (path_unchecked t mn) (fun src_prefix ->
                                wbind (path_unchecked t n0)
                                  (fun dest_prefix ->
                                  wbind (detach_from src_parent mv) (fun _ ->
                                    wbind
                                      (modify_node mv (fun x ->
                                        set_parent x (PElem self))) (fun _ ->
                                      wbind (get_node mv) (fun mn2 ->
                                        wbind (is_identifiable t mn2)
                                          (fun ident ->
                                          wbind
                                            (if ident
                                             then wbind
                                                    (make_unique_item_name t
                                                      mv m0 dest_prefix)
                                                    (fun nm ->
                                                    wret
                                                      (app dest_prefix
                                                        (app ((Npos (XI (XI
                                                          (XI (XI (XO
                                                          XH)))))) :: []) nm)))
                                             else wret dest_prefix)
                                            (fun dest_path ->
                                            wbind
                                              (if ident
                                               then fix_identifiables m0
                                                      src_prefix dest_path
                                               else let rec each = function
                                                    | [] -> wret ()
                                                    | op0 :: r ->
                                                      wbind
                                                        (match strip_prefix
                                                                 src_prefix
                                                                 op0 with
                                                         | Some suffix ->
                                                           fix_identifiables
                                                             m0 op0
                                                             (app dest_path
                                                               suffix)
                                                         | None -> wret ())
                                                        (fun _ -> each r)
                                                    in each original_paths)
                                              (fun _ ->
                                              wbind
                                                (let rec each = function
                                                 | [] -> wret ()
                                                 | orig_ref :: r ->
                                                   wbind
                                                     (match strip_prefix
                                                              src_prefix
                                                              orig_ref with
                                                      | Some suffix ->
                                                        wbind (get_model m0)
                                                          (fun x ->
                                                          match assoc_get
                                                                  orig_ref
                                                                  x.m_origins with
                                                          | Some refs ->
                                                            wbind
                                                              (set_model m0
                                                                (set_origins
                                                                  x
                                                                  (assoc_remove
                                                                    orig_ref
                                                                    x.m_origins)))
                                                              (fun _ ->
                                                              let refstr =
                                                                app dest_path
                                                                  suffix
                                                              in
                                                              wbind
                                                                (let rec upd_refs = function
                                                                 | [] ->
                                                                   wret ()
                                                                 | re :: rr ->
                                                                   wbind
                                                                    (raw_set_character_data
                                                                    t
                                                                    check_fn
                                                                    re
                                                                    (DString
                                                                    refstr)
                                                                    version)
                                                                    (fun _ ->
                                                                    upd_refs
                                                                    rr)
                                                                 in upd_refs
                                                                    refs)
                                                                (fun _ ->
                                                                modify_model
                                                                  m0
                                                                  (fun y ->
                                                                  set_origins
                                                                    y
                                                                    (
                                                                    match 
                                                                    assoc_get
                                                                    refstr
                                                                    y.m_origins with
                                                                    | Some l0 ->
                                                                    assoc_insert
                                                                    refstr
                                                                    (app l0
                                                                    refs)
                                                                    y.m_origins
                                                                    | None ->
                                                                    app
                                                                    y.m_origins
                                                                    ((refstr,
                                                                    refs) :: [])))))
                                                          | None -> wret ())
                                                      | None -> wret ())
                                                     (fun _ -> each r)
                                                 in each original_paths)
                                                (fun _ ->
                                                wbind
                                                  (content_insert self pos
                                                    (CElem mv)) (fun _ ->
                                                  wret mv)))))))))))))
                 | None -> wfail InvalidSubElement)))))

(** val ref_texts : tables -> nametab -> id list -> (n list * id) list w **)

let rec ref_texts t tab_en = function
| [] -> wret []
| i :: rest ->
  wbind (get_node i) (fun n0 ->
    wbind (wl (is_ref t n0.n_type)) (fun isr ->
      wbind (ref_texts t tab_en rest) (fun r ->
        if isr
        then wbind (wl (character_data t n0)) (fun cd ->
               match cd with
               | Some d ->
                 wbind (wl (cdata_to_string tab_en d)) (fun s ->
                   wret ((s, i) :: r))
               | None -> wret r)
        else wret r)))

(** val move_element_full :
    tables -> nametab -> (n -> n list -> bool res) -> id -> id -> n -> n -> n
    -> n -> id w **)

let move_element_full t tab_en check_fn self mv pos m0 m_src version =
  wbind (get_node self) (fun n0 ->
    wbind (get_node mv) (fun mn ->
      wbind (path_unchecked t mn) (fun src_prefix ->
        wbind (path_unchecked t n0) (fun dest_prefix ->
          wbind (parent_of mn) (fun sp ->
            match sp with
            | Some src_parent ->
              wbind wget (fun w0 ->
                wbind (dfs_ids (fuel_of w0) mv) (fun ids ->
                  wbind (named_paths t ids) (fun original ->
                    wbind (ref_texts t tab_en ids) (fun orig_refs ->
                      wbind (detach_from src_parent mv) (fun _ ->
                        wbind
                          (let rec each = function
                           | [] -> wret ()
                           | p0 :: r ->
                             let (p, _) = p0 in
                             wbind (remove_identifiable m_src p) (fun _ ->
                               each r)
                           in each original) (fun _ ->
                          wbind
                            (let rec each = function
                             | [] -> wret ()
                             | p0 :: r ->
                               let (p, e) = p0 in
                               wbind (remove_reference_origin m_src p e)
                                 (fun _ -> each r)
                             in each orig_refs) (fun _ ->
                            wbind
                              (modify_node mv (fun x ->
                                set_parent x (PElem self))) (fun _ ->
                              wbind (get_node mv) (fun mn2 ->
                                wbind (is_identifiable t mn2) (fun ident ->
                                  wbind
                                    (if ident
                                     then wbind
                                            (make_unique_item_name t mv m0
                                              dest_prefix) (fun nm ->
                                            wret
                                              (app dest_prefix
                                                (app ((Npos (XI (XI (XI (XI
                                                  (XO XH)))))) :: []) nm)))
                                     else wret dest_prefix) (fun dest_path ->
                                    wbind
                                      (let rec each = function
                                       | [] -> wret ()
                                       | p :: r ->
                                         let (op0, e) = p in
                                         wbind
                                           (match strip_prefix src_prefix op0 with
                                            | Some suffix ->
                                              add_identifiable m0
                                                (app dest_path suffix) e
                                            | None -> wret ()) (fun _ ->
                                           each r)
                                       in each original) (fun _ ->
                                      wbind
                                        (let rec each = function
                                         | [] -> wret ()
                                         | p :: r ->
                                           let (old_ref, re) = p in
                                           wbind
                                             (if existsb (fun p0 ->
                                                   bytes_eqb (fst p0) old_ref)
                                                   original
                                              then (match strip_prefix
                                                            src_prefix old_ref with
                                                    | Some suffix ->
                                                      let refstr =
                                                        app dest_path suffix
                                                      in
                                                      wbind
                                                        (raw_set_character_data
                                                          t check_fn re
                                                          (DString refstr)
                                                          version) (fun _ ->
                                                        add_reference_origin
                                                          m0 refstr re)
                                                    | None ->
                                                      add_reference_origin m0
                                                        old_ref re)
                                              else add_reference_origin m0
                                                     old_ref re) (fun _ ->
                                             each r)
                                         in each orig_refs) (fun _ ->
                                        wbind
                                          (content_insert self pos (CElem mv))
                                          (fun _ -> wret mv))))))))))))))
            | None -> wfail InvalidSubElement)))))

(** val remove_internal : tables -> nat -> id -> n -> n list -> unit w **)

let rec remove_internal t fuel i m0 path =
  match fuel with
  | O -> wfuel
  | S f ->
    wbind (get_node i) (fun n0 ->
      wbind (is_identifiable t n0) (fun ident ->
        wbind
          (if ident
           then wbind (item_name t n0) (fun nm ->
                  match nm with
                  | Some x ->
                    let p =
                      app path
                        (app ((Npos (XI (XI (XI (XI (XO XH)))))) :: []) x)
                    in
                    wbind (remove_identifiable m0 p) (fun _ -> wret p)
                  | None -> wret path)
           else wret path) (fun path' ->
          wbind (wl (is_ref t n0.n_type)) (fun isr ->
            wbind
              (if isr
               then wbind (wl (character_data t n0)) (fun cd ->
                      match cd with
                      | Some c ->
                        (match c with
                         | DString r -> remove_reference_origin m0 r i
                         | _ -> wret ())
                      | None -> wret ())
               else wret ()) (fun _ ->
              wbind
                (let rec kids = function
                 | [] -> wret ()
                 | c0 :: rest ->
                   (match c0 with
                    | CElem c ->
                      wbind (remove_internal t f c m0 path') (fun _ ->
                        kids rest)
                    | CData _ -> kids rest)
                 in kids n0.n_content) (fun _ ->
                modify_node i (fun x ->
                  set_parent (set_files (set_content x []) []) PNone)))))))

(** val raw_remove_sub_element : tables -> n -> n -> n -> unit w **)

let raw_remove_sub_element t self sub0 m0 =
  wbind (get_node self) (fun n0 ->
    wbind (path_unchecked t n0) (fun path ->
      match index_of (citem_is sub0) n0.n_content with
      | Some pos ->
        wbind (wl (is_named t n0.n_type)) (fun named ->
          wbind (get_node sub0) (fun sn ->
            if (&&) named (N.eqb sn.n_name (sHORT t))
            then wfail ShortNameRemovalForbidden
            else wbind wget (fun w0 ->
                   wbind (remove_internal t (fuel_of w0) sub0 m0 path)
                     (fun _ ->
                     modify_node self (fun x ->
                       set_content x (remove_at x.n_content pos))))))
      | None -> wfail ElementNotFound))

(** val e_create_sub_element : tables -> n -> n -> n -> id w **)

let e_create_sub_element t lATEST h name =
  wbind (min_version lATEST h) (fun v -> raw_create_sub_element t h name v)

(** val e_create_sub_element_at : tables -> n -> n -> n -> n -> id w **)

let e_create_sub_element_at t lATEST h name pos =
  wbind (min_version lATEST h) (fun v ->
    raw_create_sub_element_at t h name pos v)

(** val e_create_named_sub_element :
    tables -> (n -> n list -> bool res) -> n -> n -> n -> n list -> id w **)

let e_create_named_sub_element t check_fn lATEST h name item =
  wbind (model_of h) (fun m0 ->
    wbind (min_version lATEST h) (fun v ->
      raw_create_named_sub_element t check_fn h name item m0 v))

(** val e_create_named_sub_element_at :
    tables -> (n -> n list -> bool res) -> n -> n -> n -> n list -> n -> id w **)

let e_create_named_sub_element_at t check_fn lATEST h name item pos =
  wbind (model_of h) (fun m0 ->
    wbind (min_version lATEST h) (fun v ->
      raw_create_named_sub_element_at t check_fn h name item pos m0 v))

(** val e_create_copied_sub_element : tables -> n -> n -> n -> id w **)

let e_create_copied_sub_element t lATEST h other =
  if N.eqb h other
  then wfail InvalidSubElement
  else wbind (model_of h) (fun m0 ->
         wbind (min_version lATEST h) (fun v ->
           raw_create_copied_sub_element t h other m0 v))

(** val e_create_copied_sub_element_at :
    tables -> n -> n -> n -> n -> id w **)

let e_create_copied_sub_element_at t lATEST h other pos =
  if N.eqb h other
  then wfail InvalidSubElement
  else wbind (model_of h) (fun m0 ->
         wbind (min_version lATEST h) (fun v ->
           raw_create_copied_sub_element_at t h other pos m0 v))

(** val e_move_element_here :
    tables -> nametab -> (n -> n list -> bool res) -> n -> n -> n -> id w **)

let e_move_element_here t tab_en check_fn lATEST h mv =
  if N.eqb h mv
  then wfail ForbiddenMoveToSubElement
  else wbind (model_of mv) (fun m_src ->
         wbind (model_of h) (fun m0 ->
           wbind (min_version lATEST mv) (fun v_src ->
             wbind (min_version lATEST h) (fun v ->
               if negb (N.eqb v v_src)
               then wfail VersionMismatch
               else wbind (get_node h) (fun n0 ->
                      wbind (get_node mv) (fun mn ->
                        wbind (calc_element_insert_range t n0 mn.n_name v)
                          (fun x ->
                          let (_, e) = x in
                          if N.eqb m0 m_src
                          then wbind (parent_of mn) (fun sp ->
                                 match sp with
                                 | Some p ->
                                   if N.eqb p h
                                   then wret mv
                                   else move_element_local t check_fn h mv e
                                          m0 v
                                 | None -> wfail InvalidSubElement)
                          else move_element_full t tab_en check_fn h mv e m0
                                 m_src v)))))))

(** val e_move_element_here_at :
    tables -> nametab -> (n -> n list -> bool res) -> n -> n -> n -> n -> id w **)

let e_move_element_here_at t tab_en check_fn lATEST h mv pos =
  if N.eqb h mv
  then wfail ForbiddenMoveToSubElement
  else wbind (model_of mv) (fun m_src ->
         wbind (model_of h) (fun m0 ->
           wbind (min_version lATEST mv) (fun v_src ->
             wbind (min_version lATEST h) (fun v ->
               if negb (N.eqb v v_src)
               then wfail VersionMismatch
               else wbind (get_node h) (fun n0 ->
                      wbind (get_node mv) (fun mn ->
                        wbind (calc_element_insert_range t n0 mn.n_name v)
                          (fun x ->
                          let (s, e) = x in
                          if (&&) (N.leb s pos) (N.leb pos e)
                          then if N.eqb m0 m_src
                               then wbind (parent_of mn) (fun sp ->
                                      match sp with
                                      | Some p ->
                                        if N.eqb p h
                                        then move_element_position h mv pos
                                        else move_element_local t check_fn h
                                               mv pos m0 v
                                      | None -> wfail InvalidSubElement)
                               else move_element_full t tab_en check_fn h mv
                                      pos m0 m_src v
                          else wfail InvalidPosition)))))))

(** val e_remove_sub_element : tables -> n -> n -> unit w **)

let e_remove_sub_element t h sub0 =
  if N.eqb h sub0
  then wfail ElementNotFound
  else wbind (model_of h) (fun m0 -> raw_remove_sub_element t h sub0 m0)

(** val first_named : n -> citem list -> id option w **)

let rec first_named name = function
| [] -> wret None
| c0 :: rest ->
  (match c0 with
   | CElem c ->
     wbind (get_node c) (fun cn ->
       if N.eqb cn.n_name name then wret (Some c) else first_named name rest)
   | CData _ -> first_named name rest)

(** val get_sub_element : n -> n -> id option w **)

let get_sub_element h name =
  wbind (get_node h) (fun n0 -> first_named name n0.n_content)

(** val e_remove_sub_element_kind : tables -> n -> n -> unit w **)

let e_remove_sub_element_kind t h name =
  wbind (get_sub_element h name) (fun s ->
    match s with
    | Some sub0 -> e_remove_sub_element t h sub0
    | None -> wfail ElementNotFound)

(** val strip_suffix : n list -> n list -> n list option **)

let strip_suffix suf s =
  match strip_prefix (rev suf) (rev s) with
  | Some r -> Some (rev r)
  | None -> None

(** val e_set_item_name :
    tables -> (n -> n list -> bool res) -> n -> n -> n list -> unit w **)

let e_set_item_name t check_fn lATEST h new_name =
  if is_empty new_name
  then wfail ItemNameRequired
  else wbind (model_of h) (fun m0 ->
         wbind (min_version lATEST h) (fun version ->
           wbind (get_node h) (fun n0 ->
             wbind (item_name t n0) (fun cur ->
               match cur with
               | Some current_name ->
                 if bytes_eqb current_name new_name
                 then wret ()
                 else wbind (path_of t n0) (fun old_path ->
                        match strip_suffix current_name old_path with
                        | Some base ->
                          let new_path = app base new_name in
                          wbind (get_element_by_path m0 new_path) (fun ex ->
                            match ex with
                            | Some _ -> wfail DuplicateItemName
                            | None ->
                              (match n0.n_content with
                               | [] -> wret ()
                               | c :: _ ->
                                 (match c with
                                  | CElem s ->
                                    wbind (get_node s) (fun sn ->
                                      if N.eqb sn.n_name (sHORT t)
                                      then wbind
                                             (raw_set_character_data t
                                               check_fn s (DString new_name)
                                               version) (fun _ ->
                                             wbind
                                               (fix_identifiables m0 old_path
                                                 new_path) (fun _ ->
                                               wbind (get_model m0) (fun x ->
                                                 let rec each = function
                                                 | [] -> wret ()
                                                 | refpath :: r ->
                                                   wbind
                                                     (match strip_prefix
                                                              old_path refpath with
                                                      | Some partial ->
                                                        if (||)
                                                             (is_empty
                                                               partial)
                                                             (starts_with_slash
                                                               partial)
                                                        then wbind
                                                               (get_model m0)
                                                               (fun y ->
                                                               match 
                                                               assoc_get
                                                                 refpath
                                                                 y.m_origins with
                                                               | Some reflist ->
                                                                 wbind
                                                                   (set_model
                                                                    m0
                                                                    (set_origins
                                                                    y
                                                                    (assoc_remove
                                                                    refpath
                                                                    y.m_origins)))
                                                                   (fun _ ->
                                                                   let refpath_new =
                                                                    app
                                                                    new_path
                                                                    partial
                                                                   in
                                                                   wbind
                                                                    (let rec upd_refs = function
                                                                    | [] ->
                                                                    wret ()
                                                                    | re :: rr ->
                                                                    wbind
                                                                    (get_node
                                                                    re)
                                                                    (fun rn ->
                                                                    wbind
                                                                    (match rn.n_content with
                                                                    | [] ->
                                                                    set_node
                                                                    re
                                                                    (set_content
                                                                    rn
                                                                    ((CData
                                                                    (DString
                                                                    refpath_new)) :: []))
                                                                    | _ :: tl0 ->
                                                                    set_node
                                                                    re
                                                                    (set_content
                                                                    rn
                                                                    ((CData
                                                                    (DString
                                                                    refpath_new)) :: tl0)))
                                                                    (fun _ ->
                                                                    upd_refs
                                                                    rr))
                                                                    in 
                                                                    upd_refs
                                                                    reflist)
                                                                    (fun _ ->
                                                                    modify_model
                                                                    m0
                                                                    (fun z ->
                                                                    set_origins
                                                                    z
                                                                    (match 
                                                                    assoc_get
                                                                    refpath_new
                                                                    z.m_origins with
                                                                    | Some l0 ->
                                                                    assoc_insert
                                                                    refpath_new
                                                                    (app l0
                                                                    reflist)
                                                                    z.m_origins
                                                                    | None ->
                                                                    app
                                                                    z.m_origins
                                                                    ((refpath_new,
                                                                    reflist) :: [])))))
                                                               | None ->
                                                                 wret ())
                                                        else wret ()
                                                      | None -> wret ())
                                                     (fun _ -> each r)
                                                 in each (map fst x.m_origins))))
                                      else wret ())
                                  | CData _ -> wret ())))
                        | None ->
                          wpanic (String ((Ascii (true, false, true, false,
                            false, true, true, false)), (String ((Ascii
                            (false, false, true, true, false, true, true,
                            false)), (String ((Ascii (true, false, true,
                            false, false, true, true, false)), (String
                            ((Ascii (true, false, true, true, false, true,
                            true, false)), (String ((Ascii (true, false,
                            true, false, false, true, true, false)), (String
                            ((Ascii (false, true, true, true, false, true,
                            true, false)), (String ((Ascii (false, false,
                            true, false, true, true, true, false)), (String
                            ((Ascii (false, true, false, false, true, true,
                            true, false)), (String ((Ascii (true, false,
                            false, false, false, true, true, false)), (String
                            ((Ascii (true, true, true, false, true, true,
                            true, false)), (String ((Ascii (false, true,
                            true, true, false, true, false, false)), (String
                            ((Ascii (false, true, false, false, true, true,
                            true, false)), (String ((Ascii (true, true,
                            false, false, true, true, true, false)), (String
                            ((Ascii (false, false, false, false, false, true,
                            false, false)), (String ((Ascii (true, true,
                            false, false, true, true, true, false)), (String
                            ((Ascii (true, false, true, false, false, true,
                            true, false)), (String ((Ascii (false, false,
                            true, false, true, true, true, false)), (String
                            ((Ascii (true, true, true, true, true, false,
                            true, false)), (String ((Ascii (true, false,
                            false, true, false, true, true, false)), (String
                            ((Ascii (false, false, true, false, true, true,
                            true, false)), (String ((Ascii (true, false,
                            true, false, false, true, true, false)), (String
                            ((Ascii (true, false, true, true, false, true,
                            true, false)), (String ((Ascii (true, true, true,
                            true, true, false, true, false)), (String ((Ascii
                            (false, true, true, true, false, true, true,
                            false)), (String ((Ascii (true, false, false,
                            false, false, true, true, false)), (String
                            ((Ascii (true, false, true, true, false, true,
                            true, false)), (String ((Ascii (true, false,
                            true, false, false, true, true, false)), (String
                            ((Ascii (false, true, false, true, true, true,
                            false, false)), (String ((Ascii (false, false,
                            false, false, false, true, false, false)),
                            (String ((Ascii (true, true, false, false, true,
                            true, true, false)), (String ((Ascii (false,
                            false, true, false, true, true, true, false)),
                            (String ((Ascii (false, true, false, false, true,
                            true, true, false)), (String ((Ascii (true,
                            false, false, true, false, true, true, false)),
                            (String ((Ascii (false, false, false, false,
                            true, true, true, false)), (String ((Ascii (true,
                            true, true, true, true, false, true, false)),
                            (String ((Ascii (true, true, false, false, true,
                            true, true, false)), (String ((Ascii (true,
                            false, true, false, true, true, true, false)),
                            (String ((Ascii (false, true, true, false, false,
                            true, true, false)), (String ((Ascii (false,
                            true, true, false, false, true, true, false)),
                            (String ((Ascii (true, false, false, true, false,
                            true, true, false)), (String ((Ascii (false,
                            false, false, true, true, true, true, false)),
                            (String ((Ascii (false, false, false, true,
                            false, true, false, false)), (String ((Ascii
                            (false, true, true, true, false, true, false,
                            false)), (String ((Ascii (false, true, true,
                            true, false, true, false, false)), (String
                            ((Ascii (true, false, false, true, false, true,
                            false, false)), (String ((Ascii (false, true,
                            true, true, false, true, false, false)), (String
                            ((Ascii (true, false, true, false, true, true,
                            true, false)), (String ((Ascii (false, true,
                            true, true, false, true, true, false)), (String
                            ((Ascii (true, true, true, false, true, true,
                            true, false)), (String ((Ascii (false, true,
                            false, false, true, true, true, false)), (String
                            ((Ascii (true, false, false, false, false, true,
                            true, false)), (String ((Ascii (false, false,
                            false, false, true, true, true, false)), (String
                            ((Ascii (false, false, false, true, false, true,
                            false, false)), (String ((Ascii (true, false,
                            false, true, false, true, false, false)),
                            EmptyString)))))))))))))))))))))))))))))))))))))))))))))))))))))))))))))))))))))))))))))))))))))))))))))))))))))))))))))
               | None -> wfail ElementNotIdentifiable))))

(** val e_set_character_data :
    tables -> nametab -> (n -> n list -> bool res) -> n -> n -> cdata -> unit
    w **)

let e_set_character_data t tab_en check_fn lATEST h v0 =
  wbind (get_node h) (fun n0 ->
    wbind (wl (content_mode t n0.n_type)) (fun mode ->
      if negb
           ((||) (N.eqb mode mCharacters)
             ((&&) (N.eqb mode mMixed)
               (negb
                 (existsb (fun it ->
                   match it with
                   | CElem _ -> true
                   | CData _ -> false) n0.n_content))))
      then wfail IncorrectContentType
      else wbind (wl (chardata_spec t n0.n_type)) (fun spec ->
             match spec with
             | Some cs ->
               wbind (model_of h) (fun m0 ->
                 wbind (min_version lATEST h) (fun version ->
                   wbind (wl (check_value check_fn v0 cs version))
                     (fun ok0 ->
                     wbind
                       (if (&&) (negb ok0)
                             (match cs with
                              | CPattern (_, _) -> true
                              | CString (_, _) -> true
                              | _ -> false)
                        then wbind (wl (cdata_to_string tab_en v0)) (fun s ->
                               wbind
                                 (wl
                                   (check_value check_fn (DString s) cs
                                     version)) (fun ok1 ->
                                 wret ((DString s), ok1)))
                        else wret (v0, ok0)) (fun x ->
                       let (v, ok) = x in
                       if negb ok
                       then wfail IncorrectContentType
                       else wbind (wl (character_data t n0)) (fun cd0 ->
                              wbind
                                (if (&&) (N.eqb n0.n_name (sHORT t))
                                      (match cd0 with
                                       | Some _ -> true
                                       | None -> false)
                                 then wbind (parent_of n0) (fun p ->
                                        match p with
                                        | Some pi ->
                                          wbind (path_id t pi) (fun pp ->
                                            wbind (get_node pi) (fun pn ->
                                              wbind (item_name t pn)
                                                (fun old ->
                                                wbind
                                                  (match old with
                                                   | Some old_name ->
                                                     (match v with
                                                      | DString new_name ->
                                                        (match strip_suffix
                                                                 old_name pp with
                                                         | Some base ->
                                                           if negb
                                                                (bytes_eqb
                                                                  new_name
                                                                  old_name)
                                                           then wbind
                                                                  (get_element_by_path
                                                                    m0
                                                                    (app base
                                                                    new_name))
                                                                  (fun ex ->
                                                                  match ex with
                                                                  | Some _ ->
                                                                    wfail
                                                                    DuplicateItemName
                                                                  | None ->
                                                                    wret ())
                                                           else wret ()
                                                         | None -> wret ())
                                                      | _ -> wret ())
                                                   | None -> wret ())
                                                  (fun _ -> wret (Some pp)))))
                                        | None -> wret None)
                                 else wret None) (fun prev_path ->
                                wbind (wl (is_ref t n0.n_type)) (fun isr ->
                                  let old_refval =
                                    if isr
                                    then (match cd0 with
                                          | Some c ->
                                            (match c with
                                             | DEnum _ -> None
                                             | DString s -> Some s
                                             | _ -> None)
                                          | None -> None)
                                    else None
                                  in
                                  wbind
                                    (set_node h
                                      (set_content n0 ((CData v) :: [])))
                                    (fun _ ->
                                    wbind
                                      (match prev_path with
                                       | Some pp ->
                                         wbind (get_node h) (fun n2 ->
                                           wbind (parent_of n2) (fun p ->
                                             match p with
                                             | Some pi ->
                                               wbind (path_id t pi)
                                                 (fun np ->
                                                 fix_identifiables m0 pp np)
                                             | None -> wret ()))
                                       | None -> wret ()) (fun _ ->
                                      if isr
                                      then (match v with
                                            | DString refval ->
                                              (match old_refval with
                                               | Some o ->
                                                 fix_reference_origins m0 o
                                                   refval h
                                               | None ->
                                                 add_reference_origin m0
                                                   refval h)
                                            | _ -> wret ())
                                      else wret ())))))))))
             | None -> wfail IncorrectContentType)))

(** val e_remove_character_data : tables -> n -> unit w **)

let e_remove_character_data t h =
  wbind (get_node h) (fun n0 ->
    wbind (wl (content_mode t n0.n_type)) (fun mode ->
      if negb (N.eqb mode mCharacters)
      then wfail IncorrectContentType
      else if N.eqb n0.n_name (sHORT t)
           then wfail ShortNameRemovalForbidden
           else wbind (wl (character_data t n0)) (fun cd ->
                  match cd with
                  | Some d ->
                    wbind (wl (is_ref t n0.n_type)) (fun isr ->
                      wbind
                        (if isr
                         then wbind (model_of h) (fun m0 ->
                                match d with
                                | DString r -> remove_reference_origin m0 r h
                                | _ -> wret ())
                         else wret ()) (fun _ ->
                        modify_node h (fun x -> set_content x [])))
                  | None -> wret ())))

(** val e_insert_character_content_item :
    tables -> n -> n list -> n -> unit w **)

let e_insert_character_content_item t h text pos =
  wbind (get_node h) (fun n0 ->
    wbind (wl (content_mode t n0.n_type)) (fun mode ->
      if N.eqb mode mMixed
      then if N.leb pos (N.of_nat (length n0.n_content))
           then set_node h
                  (set_content n0
                    (insert_at n0.n_content (N.to_nat pos) (CData (DString
                      text))))
           else wfail InvalidPosition
      else wfail IncorrectContentType))

(** val e_remove_character_content_item : tables -> n -> n -> unit w **)

let e_remove_character_content_item t h pos =
  wbind (get_node h) (fun n0 ->
    wbind (wl (content_mode t n0.n_type)) (fun mode ->
      if N.eqb mode mMixed
      then (match nth_opt n0.n_content (N.to_nat pos) with
            | Some c ->
              (match c with
               | CElem _ -> wfail InvalidPosition
               | CData _ ->
                 set_node h
                   (set_content n0 (remove_at n0.n_content (N.to_nat pos))))
            | None -> wfail InvalidPosition)
      else wfail IncorrectContentType))

(** val raw_set_attribute :
    tables -> (n -> n list -> bool res) -> n -> n -> cdata -> n -> unit w **)

let raw_set_attribute t check_fn h attr v version =
  wbind (get_node h) (fun n0 ->
    wbind (wl (find_attribute_spec t n0.n_type attr)) (fun sp ->
      match sp with
      | Some p ->
        let (p0, mask0) = p in
        let (p1, _) = p0 in
        let (_, spec) = p1 in
        if N.eqb (N.coq_land version mask0) N0
        then wfail InvalidAttribute
        else wbind (wl (check_value check_fn v spec version)) (fun ok ->
               if ok
               then set_node h
                      (set_attrs n0
                        (if existsb (fun a -> N.eqb (fst a) attr) n0.n_attrs
                         then map (fun a ->
                                if N.eqb (fst a) attr then (attr, v) else a)
                                n0.n_attrs
                         else app n0.n_attrs ((attr, v) :: [])))
               else wfail InvalidAttributeValue)
      | None -> wfail InvalidAttribute))

(** val e_set_attribute :
    tables -> (n -> n list -> bool res) -> n -> n -> n -> cdata -> unit w **)

let e_set_attribute t check_fn lATEST h attr v =
  wbind (min_version lATEST h) (fun version ->
    raw_set_attribute t check_fn h attr v version)

(** val e_remove_attribute : tables -> n -> n -> bool w **)

let e_remove_attribute t h attr =
  wbind (get_node h) (fun n0 ->
    match index_of (fun a -> N.eqb (fst a) attr) n0.n_attrs with
    | Some k ->
      wbind (wl (find_attribute_spec t n0.n_type attr)) (fun sp ->
        match sp with
        | Some p ->
          let (p0, _) = p in
          let (_, required) = p0 in
          if N.eqb required N0
          then wbind (set_node h (set_attrs n0 (remove_at n0.n_attrs k)))
                 (fun _ -> wret true)
          else wret false
        | None -> wret false)
    | None -> wret false)

(** val attr_value : node -> n -> cdata option **)

let attr_value n0 attr =
  option_map snd (find (fun a -> N.eqb (fst a) attr) n0.n_attrs)

(** val e_set_reference_target :
    tables -> nametab -> nametab -> (n -> n list -> bool res) -> n -> n -> n
    -> unit w **)

let e_set_reference_target t tab_el tab_en check_fn lATEST h target =
  wbind (get_node h) (fun n0 ->
    wbind (wl (is_ref t n0.n_type)) (fun isr ->
      if negb isr
      then wfail NotReferenceElement
      else wbind (path_id t target) (fun new_ref ->
             wbind (get_node target) (fun tn ->
               wbind
                 (wl
                   (unwrap (String ((Ascii (true, false, true, false, false,
                     false, true, false)), (String ((Ascii (false, false,
                     true, true, false, true, true, false)), (String ((Ascii
                     (true, false, true, false, false, true, true, false)),
                     (String ((Ascii (true, false, true, true, false, true,
                     true, false)), (String ((Ascii (true, false, true,
                     false, false, true, true, false)), (String ((Ascii
                     (false, true, true, true, false, true, true, false)),
                     (String ((Ascii (false, false, true, false, true, true,
                     true, false)), (String ((Ascii (false, true, true, true,
                     false, false, true, false)), (String ((Ascii (true,
                     false, false, false, false, true, true, false)), (String
                     ((Ascii (true, false, true, true, false, true, true,
                     false)), (String ((Ascii (true, false, true, false,
                     false, true, true, false)), (String ((Ascii (false,
                     true, false, true, true, true, false, false)), (String
                     ((Ascii (false, true, false, true, true, true, false,
                     false)), (String ((Ascii (false, false, true, false,
                     true, true, true, false)), (String ((Ascii (true, true,
                     true, true, false, true, true, false)), (String ((Ascii
                     (true, true, true, true, true, false, true, false)),
                     (String ((Ascii (true, true, false, false, true, true,
                     true, false)), (String ((Ascii (false, false, true,
                     false, true, true, true, false)), (String ((Ascii
                     (false, true, false, false, true, true, true, false)),
                     EmptyString))))))))))))))))))))))))))))))))))))))
                     (to_str tab_el tn.n_name))) (fun txt ->
                 wbind
                   (match from_bytes tab_en txt with
                    | Ok i -> wret (Some i)
                    | Err -> wl (reference_dest_value t n0.n_type tn.n_type)
                    | Panic ->
                      wpanic (String ((Ascii (true, false, true, false,
                        false, false, true, false)), (String ((Ascii (false,
                        true, true, true, false, true, true, false)), (String
                        ((Ascii (true, false, true, false, true, true, true,
                        false)), (String ((Ascii (true, false, true, true,
                        false, true, true, false)), (String ((Ascii (true,
                        false, false, true, false, false, true, false)),
                        (String ((Ascii (false, false, true, false, true,
                        true, true, false)), (String ((Ascii (true, false,
                        true, false, false, true, true, false)), (String
                        ((Ascii (true, false, true, true, false, true, true,
                        false)), (String ((Ascii (false, true, false, true,
                        true, true, false, false)), (String ((Ascii (false,
                        true, false, true, true, true, false, false)),
                        (String ((Ascii (false, true, true, false, false,
                        true, true, false)), (String ((Ascii (false, true,
                        false, false, true, true, true, false)), (String
                        ((Ascii (true, true, true, true, false, true, true,
                        false)), (String ((Ascii (true, false, true, true,
                        false, true, true, false)), (String ((Ascii (true,
                        true, true, true, true, false, true, false)), (String
                        ((Ascii (false, true, false, false, false, true,
                        true, false)), (String ((Ascii (true, false, false,
                        true, true, true, true, false)), (String ((Ascii
                        (false, false, true, false, true, true, true,
                        false)), (String ((Ascii (true, false, true, false,
                        false, true, true, false)), (String ((Ascii (true,
                        true, false, false, true, true, true, false)),
                        (String ((Ascii (false, true, false, true, true,
                        true, false, false)), (String ((Ascii (false, false,
                        false, false, false, true, false, false)), (String
                        ((Ascii (false, false, true, false, true, true, true,
                        false)), (String ((Ascii (true, false, false, false,
                        false, true, true, false)), (String ((Ascii (false,
                        true, false, false, false, true, true, false)),
                        (String ((Ascii (false, false, true, true, false,
                        true, true, false)), (String ((Ascii (true, false,
                        true, false, false, true, true, false)), (String
                        ((Ascii (false, false, false, false, false, true,
                        false, false)), (String ((Ascii (true, false, false,
                        true, false, true, true, false)), (String ((Ascii
                        (false, true, true, true, false, true, true, false)),
                        (String ((Ascii (false, false, true, false, false,
                        true, true, false)), (String ((Ascii (true, false,
                        true, false, false, true, true, false)), (String
                        ((Ascii (false, false, false, true, true, true, true,
                        false)),
                        EmptyString)))))))))))))))))))))))))))))))))))))))))))))))))))))))))))))))))))
                   (fun item ->
                   match item with
                   | Some enum_item ->
                     wbind (model_of h) (fun m0 ->
                       wbind (min_version lATEST h) (fun version ->
                         wbind
                           (wtry
                             (raw_set_attribute t check_fn h t.attr_dest
                               (DEnum enum_item) version)) (fun r ->
                           match r with
                           | Some _ ->
                             wbind (get_node h) (fun n2 ->
                               wbind (wl (character_data t n2)) (fun cd ->
                                 wbind
                                   (match cd with
                                    | Some c ->
                                      (match c with
                                       | DString old_ref ->
                                         fix_reference_origins m0 old_ref
                                           new_ref h
                                       | _ ->
                                         add_reference_origin m0 new_ref h)
                                    | None ->
                                      add_reference_origin m0 new_ref h)
                                   (fun _ ->
                                   raw_set_character_data t check_fn h
                                     (DString new_ref) version)))
                           | None -> wfail InvalidReference)))
                   | None -> wfail InvalidReference))))))

(** val e_get_reference_target : tables -> n -> id w **)

let e_get_reference_target t h =
  wbind (get_node h) (fun n0 ->
    wbind (wl (is_ref t n0.n_type)) (fun isr ->
      if negb isr
      then wfail NotReferenceElement
      else wbind (wl (character_data t n0)) (fun cd ->
             match cd with
             | Some c ->
               (match c with
                | DString r ->
                  wbind (model_of h) (fun m0 ->
                    wbind (get_element_by_path m0 r) (fun t0 ->
                      match t0 with
                      | Some target ->
                        (match attr_value n0 t.attr_dest with
                         | Some c0 ->
                           (match c0 with
                            | DEnum d ->
                              wbind (get_node target) (fun tn ->
                                wbind
                                  (wl (verify_reference_dest t tn.n_type d))
                                  (fun ok ->
                                  if ok
                                  then wret target
                                  else wfail InvalidReference))
                            | _ -> wfail InvalidReference)
                         | None -> wfail InvalidReference)
                      | None -> wfail InvalidReference))
                | _ -> wfail InvalidReference)
             | None -> wfail InvalidReference)))

(** val replace_dd : n list -> n list **)

let rec replace_dd = function
| [] -> []
| x :: r ->
  (match x with
   | N0 -> x :: (replace_dd r)
   | Npos p ->
     (match p with
      | XI p0 ->
        (match p0 with
         | XO p1 ->
           (match p1 with
            | XI p2 ->
              (match p2 with
               | XI p3 ->
                 (match p3 with
                  | XO p4 ->
                    (match p4 with
                     | XH ->
                       (match r with
                        | [] -> x :: (replace_dd r)
                        | n0 :: r0 ->
                          (match n0 with
                           | N0 -> x :: (replace_dd r)
                           | Npos p5 ->
                             (match p5 with
                              | XI p6 ->
                                (match p6 with
                                 | XO p7 ->
                                   (match p7 with
                                    | XI p8 ->
                                      (match p8 with
                                       | XI p9 ->
                                         (match p9 with
                                          | XO p10 ->
                                            (match p10 with
                                             | XH ->
                                               (Npos (XI (XI (XI (XI (XI (XO
                                                 XH))))))) :: ((Npos (XI (XI
                                                 (XI (XI (XI (XO
                                                 XH))))))) :: (replace_dd r0))
                                             | _ -> x :: (replace_dd r))
                                          | _ -> x :: (replace_dd r))
                                       | _ -> x :: (replace_dd r))
                                    | _ -> x :: (replace_dd r))
                                 | _ -> x :: (replace_dd r))
                              | _ -> x :: (replace_dd r))))
                     | _ -> x :: (replace_dd r))
                  | _ -> x :: (replace_dd r))
               | _ -> x :: (replace_dd r))
            | _ -> x :: (replace_dd r))
         | _ -> x :: (replace_dd r))
      | _ -> x :: (replace_dd r)))

(** val e_set_comment : n -> n list option -> unit w **)

let e_set_comment h c =
  modify_node h (fun x -> set_comment x (option_map replace_dd c))

(** val e_get_or_create_sub_element : tables -> n -> n -> n -> id w **)

let e_get_or_create_sub_element t lATEST h name =
  wbind (min_version lATEST h) (fun v ->
    wbind (get_sub_element h name) (fun s ->
      match s with
      | Some c -> wret c
      | None -> raw_create_sub_element t h name v))

(** val first_named_item :
    tables -> n -> n list -> citem list -> id option w **)

let rec first_named_item t name item = function
| [] -> wret None
| c0 :: rest ->
  (match c0 with
   | CElem c ->
     wbind (get_node c) (fun cn ->
       wbind (item_name t cn) (fun nm ->
         if (&&) (N.eqb cn.n_name name)
              (bytes_eqb (match nm with
                          | Some x -> x
                          | None -> []) item)
         then wret (Some c)
         else first_named_item t name item rest))
   | CData _ -> first_named_item t name item rest)

(** val e_get_or_create_named_sub_element :
    tables -> (n -> n list -> bool res) -> n -> n -> n -> n list -> id w **)

let e_get_or_create_named_sub_element t check_fn lATEST h name item =
  wbind (model_of h) (fun m0 ->
    wbind (min_version lATEST h) (fun v ->
      wbind (get_node h) (fun n0 ->
        wbind (first_named_item t name item n0.n_content) (fun s ->
          match s with
          | Some c -> wret c
          | None -> raw_create_named_sub_element t check_fn h name item m0 v))))

(** val parent_splittable : tables -> node -> bool w **)

let parent_splittable t n0 =
  wbind (parent_of n0) (fun p ->
    match p with
    | Some pi ->
      wbind (get_node pi) (fun pn ->
        wbind (wl (splittable t pn.n_type)) (fun s ->
          wret (negb (N.eqb s N0))))
    | None -> wret true)

(** val add_to_file_restricted : tables -> nat -> n -> n -> unit w **)

let rec add_to_file_restricted t fuel e f =
  match fuel with
  | O -> wfuel
  | S fl ->
    wbind (wtry (file_membership e)) (fun fm ->
      let (local, cur) = match fm with
                         | Some x -> x
                         | None -> (true, []) in
      if set_mem f cur
      then wret ()
      else wbind (get_node e) (fun n0 ->
             wbind (wl (splittable t n0.n_type)) (fun sp ->
               wbind
                 (if negb (N.eqb sp N0)
                  then let rec kids = function
                       | [] -> wret ()
                       | c0 :: rest ->
                         (match c0 with
                          | CElem c ->
                            wbind
                              (modify_node c (fun x ->
                                if is_empty x.n_files
                                then set_files x cur
                                else x)) (fun _ -> kids rest)
                          | CData _ -> kids rest)
                       in kids n0.n_content
                  else wret ()) (fun _ ->
                 let ext = set_add f cur in
                 wbind (parent_splittable t n0) (fun ps ->
                   wbind
                     (if (||) ps local
                      then modify_node e (fun x -> set_files x ext)
                      else wret ()) (fun _ ->
                     wbind (parent_of n0) (fun p ->
                       match p with
                       | Some pi -> add_to_file_restricted t fl pi f
                       | None -> wret ())))))))

(** val file_model : n -> n w **)

let file_model f =
  wbind (get_file f) (fun x -> wret x.f_model)

(** val e_add_to_file : tables -> n -> n -> unit w **)

let e_add_to_file t e f =
  wbind (get_node e) (fun n0 ->
    wbind (parent_splittable t n0) (fun ps ->
      if negb ps
      then wfail FilesetModificationForbidden
      else wbind (file_model f) (fun fm ->
             wbind (model_of e) (fun m0 ->
               if negb (N.eqb fm m0)
               then wfail InvalidFile
               else wbind (file_membership e) (fun x ->
                      let (_, cur) = x in
                      if set_mem f cur
                      then wret ()
                      else wbind
                             (modify_node e (fun x0 ->
                               set_files x0 (set_add f cur))) (fun _ ->
                             wbind (parent_of n0) (fun p ->
                               match p with
                               | Some pi ->
                                 wbind wget (fun w0 ->
                                   add_to_file_restricted t (fuel_of w0) pi f)
                               | None -> wret ())))))))

(** val e_remove_from_file : tables -> n -> n -> unit w **)

let e_remove_from_file t e f =
  wbind (get_node e) (fun n0 ->
    wbind (parent_splittable t n0) (fun ps ->
      if negb ps
      then wfail FilesetModificationForbidden
      else wbind (file_model f) (fun fm ->
             wbind (model_of e) (fun m0 ->
               if negb (N.eqb fm m0)
               then wfail InvalidFile
               else wbind (file_membership e) (fun x ->
                      let (_, cur) = x in
                      let restricted = set_remove f cur in
                      wbind
                        (if is_empty restricted
                         then wbind (parent_of n0) (fun p ->
                                match p with
                                | Some pi ->
                                  wbind (wtry (e_remove_sub_element t pi e))
                                    (fun _ -> wret ())
                                | None -> wret ())
                         else wret ()) (fun _ ->
                        wbind
                          (modify_node e (fun x0 -> set_files x0 restricted))
                          (fun _ ->
                          wbind wget (fun w0 ->
                            wbind (dfs_ids (fuel_of w0) e) (fun ids ->
                              wbind
                                (let rec scan = function
                                 | [] -> wret []
                                 | s :: rest ->
                                   wbind (get_node s) (fun sn ->
                                     if negb (is_empty sn.n_files)
                                     then let fs = set_remove f sn.n_files in
                                          wbind
                                            (set_node s (set_files sn fs))
                                            (fun _ ->
                                            wbind (scan rest) (fun r ->
                                              wret
                                                (if is_empty fs
                                                 then s :: r
                                                 else r)))
                                     else scan rest)
                                 in scan ids) (fun to_delete ->
                                let rec del = function
                                | [] -> wret ()
                                | d :: rest ->
                                  wbind (get_node d) (fun dn ->
                                    wbind (wtry (parent_of dn)) (fun p ->
                                      wbind
                                        (match p with
                                         | Some o ->
                                           (match o with
                                            | Some pi ->
                                              wbind
                                                (wtry
                                                  (e_remove_sub_element t pi
                                                    d)) (fun _ -> wret ())
                                            | None -> wret ())
                                         | None -> wret ()) (fun _ ->
                                        del rest)))
                                in del to_delete))))))))))

(** val new_model : tables -> (n * cdata) list -> n w **)

let new_model t root_attrs w0 =
  let r = w0.w_next in
  let m0 = N.of_nat (length w0.w_models) in
  (match et_new t t.autosar_element with
   | Val ty ->
     (match elem t t.autosar_element with
      | Val ed ->
        Val ((OK m0), { w_nodes =
          (upd w0.w_nodes r { n_parent = (PModel m0); n_name = ed.ed_name;
            n_type = ty; n_content = []; n_attrs = root_attrs; n_files = [];
            n_comment = None }); w_next = (N.add r (Npos XH)); w_files =
          w0.w_files; w_models =
          (app w0.w_models ({ m_root = r; m_files = []; m_idents = [];
            m_origins = [] } :: [])) })
      | Pan s -> Pan s
      | Fuel -> Fuel)
   | Pan s -> Pan s
   | Fuel -> (match elem t t.autosar_element with
              | Pan s -> Pan s
              | _ -> Fuel))

(** val m_create_file : tables -> n -> n list -> n -> n w **)

let m_create_file t m0 name version =
  wbind (get_model m0) (fun x ->
    wbind wget (fun w0 ->
      if existsb (fun f ->
           match nth_opt w0.w_files (N.to_nat f) with
           | Some fl -> bytes_eqb fl.f_name name
           | None -> false) x.m_files
      then wfail DuplicateFilenameError
      else let fid = N.of_nat (length w0.w_files) in
           wbind
             (wput { w_nodes = w0.w_nodes; w_next = w0.w_next; w_files =
               (app w0.w_files ({ f_model = m0; f_name = name; f_version =
                 version; f_standalone = None } :: [])); w_models =
               w0.w_models }) (fun _ ->
             wbind
               (modify_model m0 (fun y ->
                 set_mfiles y (app y.m_files (fid :: [])))) (fun _ ->
               wbind wget (fun w2 ->
                 wbind
                   (wtry (add_to_file_restricted t (fuel_of w2) x.m_root fid))
                   (fun _ -> wret fid))))))

(** val set_file_membership : tables -> n -> n list -> unit w **)

let set_file_membership t e fm =
  wbind (get_node e) (fun n0 ->
    wbind (wtry (parent_of n0)) (fun p ->
      wbind
        (match p with
         | Some o ->
           (match o with
            | Some pi ->
              wbind (get_node pi) (fun pn ->
                wbind (wl (splittable t pn.n_type)) (fun s ->
                  wret (negb (N.eqb s N0))))
            | None -> wret true)
         | None -> wret true) (fun ps ->
        if (||) (is_empty fm) ps
        then modify_node e (fun x -> set_files x fm)
        else wret ())))

(** val m_remove_file : tables -> n -> n -> unit w **)

let m_remove_file t m0 f =
  wbind (get_model m0) (fun x ->
    match index_of (N.eqb f) x.m_files with
    | Some pos ->
      let files' = swap_remove_at x.m_files pos in
      wbind (set_model m0 (set_mfiles x files')) (fun _ ->
        if is_empty files'
        then wbind (get_node x.m_root) (fun r ->
               wbind
                 (let rec each = function
                  | [] -> wret ()
                  | c0 :: rest ->
                    (match c0 with
                     | CElem c ->
                       wbind (wtry (e_remove_sub_element t x.m_root c))
                         (fun _ -> each rest)
                     | CData _ -> each rest)
                  in each r.n_content) (fun _ ->
                 wbind (set_file_membership t x.m_root []) (fun _ ->
                   modify_model m0 (fun y -> set_origins (set_idents y []) []))))
        else wbind (wtry (e_remove_from_file t x.m_root f)) (fun _ -> wret ()))
    | None -> wret ())

type op =
| OpCreateSub of n * n
| OpCreateSubAt of n * n * n
| OpCreateNamed of n * n * n list
| OpCreateNamedAt of n * n * n list * n
| OpCopy of n * n
| OpCopyAt of n * n * n
| OpMove of n * n
| OpMoveAt of n * n * n
| OpRemove of n * n
| OpRemoveKind of n * n
| OpSetItemName of n * n list
| OpSetCData of n * cdata
| OpRemoveCData of n
| OpInsertCItem of n * n list * n
| OpRemoveCItem of n * n
| OpSetRefTarget of n * n
| OpSetAttr of n * n * cdata
| OpRemoveAttr of n * n
| OpSetComment of n * n list option
| OpGetOrCreate of n * n
| OpGetOrCreateNamed of n * n * n list
| OpNewModel
| OpCreateFile of n * n list * n
| OpRemoveFile of n * n
| OpAddToFile of n * n
| OpRemoveFromFile of n * n

type value =
| VUnit
| VElem of id
| VBool of bool
| VFile of n
| VModel of n

(** val welem : id w -> value w **)

let welem m0 =
  wbind m0 (fun i -> wret (VElem i))

(** val wunit : unit w -> value w **)

let wunit m0 =
  wbind m0 (fun _ -> wret VUnit)

(** val run_op :
    tables -> nametab -> nametab -> (n -> n list -> bool res) -> n ->
    (n * cdata) list -> op -> value w **)

let run_op t tab_el tab_en check_fn lATEST root_attrs = function
| OpCreateSub (h, name) -> welem (e_create_sub_element t lATEST h name)
| OpCreateSubAt (h, name, pos) ->
  welem (e_create_sub_element_at t lATEST h name pos)
| OpCreateNamed (h, name, item) ->
  welem (e_create_named_sub_element t check_fn lATEST h name item)
| OpCreateNamedAt (h, name, item, pos) ->
  welem (e_create_named_sub_element_at t check_fn lATEST h name item pos)
| OpCopy (h, other) -> welem (e_create_copied_sub_element t lATEST h other)
| OpCopyAt (h, other, pos) ->
  welem (e_create_copied_sub_element_at t lATEST h other pos)
| OpMove (h, mv) -> welem (e_move_element_here t tab_en check_fn lATEST h mv)
| OpMoveAt (h, mv, pos) ->
  welem (e_move_element_here_at t tab_en check_fn lATEST h mv pos)
| OpRemove (h, sub0) -> wunit (e_remove_sub_element t h sub0)
| OpRemoveKind (h, name) -> wunit (e_remove_sub_element_kind t h name)
| OpSetItemName (h, name) -> wunit (e_set_item_name t check_fn lATEST h name)
| OpSetCData (h, v) ->
  wunit (e_set_character_data t tab_en check_fn lATEST h v)
| OpRemoveCData h -> wunit (e_remove_character_data t h)
| OpInsertCItem (h, text, pos) ->
  wunit (e_insert_character_content_item t h text pos)
| OpRemoveCItem (h, pos) -> wunit (e_remove_character_content_item t h pos)
| OpSetRefTarget (h, target) ->
  wunit (e_set_reference_target t tab_el tab_en check_fn lATEST h target)
| OpSetAttr (h, attr, v) -> wunit (e_set_attribute t check_fn lATEST h attr v)
| OpRemoveAttr (h, attr) ->
  wbind (e_remove_attribute t h attr) (fun b -> wret (VBool b))
| OpSetComment (h, c) -> wunit (e_set_comment h c)
| OpGetOrCreate (h, name) ->
  welem (e_get_or_create_sub_element t lATEST h name)
| OpGetOrCreateNamed (h, name, item) ->
  welem (e_get_or_create_named_sub_element t check_fn lATEST h name item)
| OpNewModel -> wbind (new_model t root_attrs) (fun m0 -> wret (VModel m0))
| OpCreateFile (m0, name, version) ->
  wbind (m_create_file t m0 name version) (fun f -> wret (VFile f))
| OpRemoveFile (m0, f) -> wunit (m_remove_file t m0 f)
| OpAddToFile (h, f) -> wunit (e_add_to_file t h f)
| OpRemoveFromFile (h, f) -> wunit (e_remove_from_file t h f)

(** val mem_id : id -> id list -> bool **)

let mem_id i l =
  existsb (N.eqb i) l

(** val walk : nat -> world -> id -> id list **)

let rec walk fuel w0 i =
  match fuel with
  | O -> []
  | S f ->
    (match w0.w_nodes i with
     | Some n0 ->
       i :: (flat_map (fun it ->
              match it with
              | CElem c -> walk f w0 c
              | CData _ -> []) n0.n_content)
     | None -> [])

(** val add_new : id list -> id list -> id list **)

let add_new handles ids =
  fold_left (fun hs i -> if mem_id i hs then hs else app hs (i :: [])) ids
    handles

(** val discover : world -> id list -> id option -> id list **)

let discover w0 handles result =
  let fuel = S (N.to_nat w0.w_next) in
  let from_result = match result with
                    | Some r -> walk fuel w0 r
                    | None -> [] in
  let from_roots = flat_map (fun m0 -> walk fuel w0 m0.m_root) w0.w_models in
  add_new (add_new handles from_result) from_roots

(** val q_parent : id -> id option w **)

let q_parent i =
  wbind (get_node i) parent_of

(** val q_position : id -> n option w **)

let q_position i =
  wbind (get_node i) (fun n0 ->
    wbind (wtry (parent_of n0)) (fun p ->
      match p with
      | Some o ->
        (match o with
         | Some pi ->
           wbind (get_node pi) (fun pn ->
             wret (option_map N.of_nat (index_of (citem_is i) pn.n_content)))
         | None -> wret None)
      | None -> wret None))

(** val q_path : tables -> id -> n list w **)

let q_path =
  path_id

(** val q_model : id -> n w **)

let q_model =
  model_of

(** val q_file_membership : id -> (bool * n list) w **)

let q_file_membership =
  file_membership

(** val q_min_version : n -> id -> n w **)

let q_min_version =
  min_version

(** val q_item_name : tables -> id -> n list option w **)

let q_item_name t i =
  wbind (get_node i) (fun n0 -> item_name t n0)

(** val q_is_identifiable : tables -> id -> bool w **)

let q_is_identifiable t i =
  wbind (get_node i) (fun n0 -> is_identifiable t n0)

(** val q_get_by_path : n -> n list -> id option w **)

let q_get_by_path =
  get_element_by_path

(** val q_refs_to : n -> n list -> id list w **)

let q_refs_to m0 p =
  wbind (get_model m0) (fun x ->
    wret (match assoc_get p x.m_origins with
          | Some l -> l
          | None -> []))

(** val q_get_reference_target : tables -> id -> id w **)

let q_get_reference_target =
  e_get_reference_target

(** val q_character_data : tables -> id -> cdata option w **)

let q_character_data t i =
  wbind (get_node i) (fun n0 -> wlift (character_data t n0))

(** val q_insert_range : tables -> id -> n -> n -> (n * n) w **)

let q_insert_range t i name version =
  wbind (get_node i) (fun n0 -> calc_element_insert_range t n0 name version)

(** val q_check_references : tables -> n -> id list w **)

let q_check_references t m0 =
  wbind (get_model m0) (fun x ->
    let rec each = function
    | [] -> wret []
    | p :: rest ->
      let (path, refs) = p in
      wbind (each rest) (fun r ->
        match assoc_get path x.m_idents with
        | Some target ->
          wbind (get_node target) (fun tn ->
            wbind
              (let rec chk = function
               | [] -> wret []
               | re :: rr ->
                 wbind (get_node re) (fun rn ->
                   wbind (chk rr) (fun b ->
                     match attr_value rn t.attr_dest with
                     | Some c ->
                       (match c with
                        | DEnum d ->
                          wbind (wlift (verify_reference_dest t tn.n_type d))
                            (fun ok -> wret (if ok then b else re :: b))
                        | _ -> wret (re :: b))
                     | None -> wret (re :: b)))
               in chk refs) (fun bad -> wret (app bad r)))
        | None -> wret (app refs r))
    in each x.m_origins)

(** val digit_val : n -> n -> n option **)

let digit_val radix c =
  let d =
    if (&&) (N.leb (Npos (XO (XO (XO (XO (XI XH)))))) c)
         (N.leb c (Npos (XI (XO (XO (XI (XI XH)))))))
    then Some (N.sub c (Npos (XO (XO (XO (XO (XI XH)))))))
    else if (&&) (N.leb (Npos (XI (XO (XO (XO (XO (XI XH))))))) c)
              (N.leb c (Npos (XO (XI (XO (XI (XI (XI XH))))))))
         then Some
                (N.add (N.sub c (Npos (XI (XO (XO (XO (XO (XI XH))))))))
                  (Npos (XO (XI (XO XH)))))
         else if (&&) (N.leb (Npos (XI (XO (XO (XO (XO (XO XH))))))) c)
                   (N.leb c (Npos (XO (XI (XO (XI (XI (XO XH))))))))
              then Some
                     (N.add (N.sub c (Npos (XI (XO (XO (XO (XO (XO XH))))))))
                       (Npos (XO (XI (XO XH)))))
              else None
  in
  (match d with
   | Some v -> if N.ltb v radix then Some v else None
   | None -> None)

(** val digits_val : n -> n -> n -> n list -> n option **)

let rec digits_val radix limit acc = function
| [] -> Some acc
| c :: s' ->
  (match digit_val radix c with
   | Some d ->
     let acc' = N.add (N.mul acc radix) d in
     if N.ltb limit acc' then None else digits_val radix limit acc' s'
   | None -> None)

(** val from_str_radix_u : n -> n -> n list -> n option **)

let from_str_radix_u bits radix s = match s with
| [] -> None
| n0 :: ds ->
  (match n0 with
   | N0 -> digits_val radix (N.sub (N.pow (Npos (XO XH)) bits) (Npos XH)) N0 s
   | Npos p ->
     (match p with
      | XI p0 ->
        (match p0 with
         | XI p1 ->
           (match p1 with
            | XO p2 ->
              (match p2 with
               | XI p3 ->
                 (match p3 with
                  | XO p4 ->
                    (match p4 with
                     | XH ->
                       (match ds with
                        | [] -> None
                        | _ :: _ ->
                          digits_val radix
                            (N.sub (N.pow (Npos (XO XH)) bits) (Npos XH)) N0
                            ds)
                     | _ ->
                       digits_val radix
                         (N.sub (N.pow (Npos (XO XH)) bits) (Npos XH)) N0 s)
                  | _ ->
                    digits_val radix
                      (N.sub (N.pow (Npos (XO XH)) bits) (Npos XH)) N0 s)
               | _ ->
                 digits_val radix
                   (N.sub (N.pow (Npos (XO XH)) bits) (Npos XH)) N0 s)
            | _ ->
              digits_val radix (N.sub (N.pow (Npos (XO XH)) bits) (Npos XH))
                N0 s)
         | XO p1 ->
           (match p1 with
            | XI p2 ->
              (match p2 with
               | XI p3 ->
                 (match p3 with
                  | XO p4 ->
                    (match p4 with
                     | XH ->
                       (match ds with
                        | [] -> None
                        | _ :: _ ->
                          digits_val radix
                            (N.sub (N.pow (Npos (XO XH)) bits) (Npos XH)) N0 s)
                     | _ ->
                       digits_val radix
                         (N.sub (N.pow (Npos (XO XH)) bits) (Npos XH)) N0 s)
                  | _ ->
                    digits_val radix
                      (N.sub (N.pow (Npos (XO XH)) bits) (Npos XH)) N0 s)
               | _ ->
                 digits_val radix
                   (N.sub (N.pow (Npos (XO XH)) bits) (Npos XH)) N0 s)
            | _ ->
              digits_val radix (N.sub (N.pow (Npos (XO XH)) bits) (Npos XH))
                N0 s)
         | XH ->
           digits_val radix (N.sub (N.pow (Npos (XO XH)) bits) (Npos XH)) N0 s)
      | _ ->
        digits_val radix (N.sub (N.pow (Npos (XO XH)) bits) (Npos XH)) N0 s))

(** val cthen : comparison -> comparison -> comparison **)

let cthen a b =
  match a with
  | Eq -> b
  | _ -> a

(** val parse_integer_u64 : cdata -> n option **)

let parse_integer_u64 = function
| DString text ->
  if bytes_eqb text ((Npos (XO (XO (XO (XO (XI XH)))))) :: [])
  then Some N0
  else (match strip_prefix ((Npos (XO (XO (XO (XO (XI XH)))))) :: ((Npos (XO
                (XO (XO (XI (XI (XI XH))))))) :: [])) text with
        | Some h ->
          from_str_radix_u (Npos (XO (XO (XO (XO (XO (XO XH))))))) (Npos (XO
            (XO (XO (XO XH))))) h
        | None ->
          (match strip_prefix ((Npos (XO (XO (XO (XO (XI XH)))))) :: ((Npos
                   (XO (XO (XO (XI (XI (XO XH))))))) :: [])) text with
           | Some h ->
             from_str_radix_u (Npos (XO (XO (XO (XO (XO (XO XH))))))) (Npos
               (XO (XO (XO (XO XH))))) h
           | None ->
             (match strip_prefix ((Npos (XO (XO (XO (XO (XI
                      XH)))))) :: ((Npos (XO (XI (XO (XO (XO (XI
                      XH))))))) :: [])) text with
              | Some b ->
                from_str_radix_u (Npos (XO (XO (XO (XO (XO (XO XH)))))))
                  (Npos (XO XH)) b
              | None ->
                (match strip_prefix ((Npos (XO (XO (XO (XO (XI
                         XH)))))) :: ((Npos (XO (XI (XO (XO (XO (XO
                         XH))))))) :: [])) text with
                 | Some b ->
                   from_str_radix_u (Npos (XO (XO (XO (XO (XO (XO XH)))))))
                     (Npos (XO XH)) b
                 | None ->
                   (match strip_prefix ((Npos (XO (XO (XO (XO (XI
                            XH)))))) :: []) text with
                    | Some o ->
                      from_str_radix_u (Npos (XO (XO (XO (XO (XO (XO
                        XH))))))) (Npos (XO (XO (XO XH)))) o
                    | None ->
                      from_str_radix_u (Npos (XO (XO (XO (XO (XO (XO
                        XH))))))) (Npos (XO (XI (XO XH)))) text)))))
| DUInt v -> Some v
| _ -> None

(** val p63 : n **)

let p63 =
  Npos (XO (XO (XO (XO (XO (XO (XO (XO (XO (XO (XO (XO (XO (XO (XO (XO (XO
    (XO (XO (XO (XO (XO (XO (XO (XO (XO (XO (XO (XO (XO (XO (XO (XO (XO (XO
    (XO (XO (XO (XO (XO (XO (XO (XO (XO (XO (XO (XO (XO (XO (XO (XO (XO (XO
    (XO (XO (XO (XO (XO (XO (XO (XO (XO (XO
    XH)))))))))))))))))))))))))))))))))))))))))))))))))))))))))))))))

(** val f64_mag : n -> n **)

let f64_mag b =
  N.modulo b p63

(** val f64_total_key : n -> n **)

let f64_total_key b =
  if N.ltb b p63 then N.add p63 b else N.sub (N.sub p63 (Npos XH)) (f64_mag b)

(** val f64_total_cmp : n -> n -> comparison **)

let f64_total_cmp a b =
  N.compare (f64_total_key a) (f64_total_key b)

(** val is_digit : n -> bool **)

let is_digit c =
  (&&) (N.leb (Npos (XO (XO (XO (XO (XI XH)))))) c)
    (N.leb c (Npos (XI (XO (XO (XI (XI XH)))))))

(** val split_digits : n list -> n list * n list **)

let rec split_digits = function
| [] -> ([], [])
| c :: r ->
  let (b, d) = split_digits r in
  (match b with
   | [] -> if is_digit c then ([], (c :: d)) else ((c :: []), d)
   | _ :: _ -> ((c :: b), d))

(** val decompose : n list -> (n list * n) option **)

let decompose name =
  let (b, d) = split_digits name in
  (match from_str_radix_u (Npos (XO (XO (XO (XO (XO (XO XH))))))) (Npos (XO
           (XI (XO XH)))) d with
   | Some i -> Some (b, i)
   | None -> None)

(** val name_key : n list -> n list * n option **)

let name_key n0 =
  match decompose n0 with
  | Some p -> let (b, i) = p in (b, (Some i))
  | None -> (n0, None)

(** val opt_cmp :
    ('a1 -> 'a1 -> comparison) -> 'a1 option -> 'a1 option -> comparison **)

let opt_cmp kc a b =
  match a with
  | Some x -> (match b with
               | Some y -> kc x y
               | None -> Gt)
  | None -> (match b with
             | Some _ -> Lt
             | None -> Eq)

(** val name_cmp : n list -> n list -> comparison **)

let name_cmp n1 n2 =
  let (b1, i1) = name_key n1 in
  let (b2, i2) = name_key n2 in
  cthen (lex_cmp b1 b2) (cthen (opt_cmp N.compare i1 i2) (lex_cmp n1 n2))

(** val ins_left :
    ('a1 -> 'a1 -> comparison) -> 'a1 -> 'a1 list -> 'a1 list **)

let rec ins_left c x racc = match racc with
| [] -> x :: []
| y :: r -> (match c x y with
             | Lt -> y :: (ins_left c x r)
             | _ -> x :: racc)

(** val isort : ('a1 -> 'a1 -> comparison) -> 'a1 list -> 'a1 list **)

let isort c l =
  rev (fold_left (fun racc x -> ins_left c x racc) l [])

(** val isort_poly : ('a1 -> 'a1 -> comparison) -> 'a1 list -> 'a1 list **)

let isort_poly =
  isort

type policy = { p_name : (n list -> n list -> comparison);
                p_both_only : bool; p_float : (n -> n -> comparison) }

(** val policy_cur : policy **)

let policy_cur =
  { p_name = name_cmp; p_both_only = false; p_float = f64_total_cmp }

(** val decided : comparison -> comparison option **)

let decided c = match c with
| Eq -> None
| _ -> Some c

(** val stage_present :
    ('a1 -> 'a1 -> comparison) -> 'a1 option -> 'a1 option -> comparison
    option **)

let stage_present kc a b =
  match a with
  | Some x -> (match b with
               | Some y -> decided (kc x y)
               | None -> Some Lt)
  | None -> (match b with
             | Some _ -> Some Gt
             | None -> None)

(** val stage_both :
    ('a1 -> 'a1 -> comparison) -> 'a1 option -> 'a1 option -> comparison
    option **)

let stage_both kc a b =
  match a with
  | Some x -> (match b with
               | Some y -> decided (kc x y)
               | None -> None)
  | None -> None

(** val stage_opt :
    bool -> ('a1 -> 'a1 -> comparison) -> 'a1 option -> 'a1 option ->
    comparison option **)

let stage_opt both_only kc a b =
  if both_only then stage_both kc a b else stage_present kc a b

(** val orelse :
    comparison option -> comparison option -> comparison option **)

let orelse a b =
  match a with
  | Some _ -> a
  | None -> b

(** val slice_cmp :
    ('a1 -> 'a1 -> comparison res) -> 'a1 list -> 'a1 list -> comparison res **)

let rec slice_cmp ec x y =
  match x with
  | [] -> (match y with
           | [] -> Val Eq
           | _ :: _ -> Val Lt)
  | i :: x' ->
    (match y with
     | [] -> Val Gt
     | j :: y' ->
       bind (ec i j) (fun c ->
         match c with
         | Eq -> slice_cmp ec x' y'
         | _ -> Val c))

type nkeys = { k_name : n list; k_index : n option; k_iname : n list option;
               k_defref : n list option; k_dest : n list option }

(** val head_stages : policy -> nkeys -> nkeys -> comparison option **)

let head_stages pol a b =
  orelse (decided (lex_cmp a.k_name b.k_name))
    (orelse (stage_present N.compare a.k_index b.k_index)
      (orelse (stage_opt pol.p_both_only pol.p_name a.k_iname b.k_iname)
        (orelse (stage_opt pol.p_both_only lex_cmp a.k_defref b.k_defref)
          (stage_present lex_cmp a.k_dest b.k_dest))))

(** val cdata_cmp : nametab -> policy -> cdata -> cdata -> comparison res **)

let cdata_cmp tab_en pol a b =
  match a with
  | DEnum x ->
    (match b with
     | DEnum y ->
       bind
         (unwrap (String ((Ascii (true, false, true, false, false, false,
           true, false)), (String ((Ascii (false, true, true, true, false,
           true, true, false)), (String ((Ascii (true, false, true, false,
           true, true, true, false)), (String ((Ascii (true, false, true,
           true, false, true, true, false)), (String ((Ascii (true, false,
           false, true, false, false, true, false)), (String ((Ascii (false,
           false, true, false, true, true, true, false)), (String ((Ascii
           (true, false, true, false, false, true, true, false)), (String
           ((Ascii (true, false, true, true, false, true, true, false)),
           (String ((Ascii (false, true, false, true, true, true, false,
           false)), (String ((Ascii (false, true, false, true, true, true,
           false, false)), (String ((Ascii (false, false, true, false, true,
           true, true, false)), (String ((Ascii (true, true, true, true,
           false, true, true, false)), (String ((Ascii (true, true, true,
           true, true, false, true, false)), (String ((Ascii (true, true,
           false, false, true, true, true, false)), (String ((Ascii (false,
           false, true, false, true, true, true, false)), (String ((Ascii
           (false, true, false, false, true, true, true, false)),
           EmptyString)))))))))))))))))))))))))))))))) (to_str tab_en x))
         (fun sx ->
         bind
           (unwrap (String ((Ascii (true, false, true, false, false, false,
             true, false)), (String ((Ascii (false, true, true, true, false,
             true, true, false)), (String ((Ascii (true, false, true, false,
             true, true, true, false)), (String ((Ascii (true, false, true,
             true, false, true, true, false)), (String ((Ascii (true, false,
             false, true, false, false, true, false)), (String ((Ascii
             (false, false, true, false, true, true, true, false)), (String
             ((Ascii (true, false, true, false, false, true, true, false)),
             (String ((Ascii (true, false, true, true, false, true, true,
             false)), (String ((Ascii (false, true, false, true, true, true,
             false, false)), (String ((Ascii (false, true, false, true, true,
             true, false, false)), (String ((Ascii (false, false, true,
             false, true, true, true, false)), (String ((Ascii (true, true,
             true, true, false, true, true, false)), (String ((Ascii (true,
             true, true, true, true, false, true, false)), (String ((Ascii
             (true, true, false, false, true, true, true, false)), (String
             ((Ascii (false, false, true, false, true, true, true, false)),
             (String ((Ascii (false, true, false, false, true, true, true,
             false)), EmptyString))))))))))))))))))))))))))))))))
             (to_str tab_en y)) (fun sy -> Val (lex_cmp sx sy)))
     | _ -> Val Lt)
  | DString x ->
    (match b with
     | DEnum _ -> Val Gt
     | DString y -> Val (lex_cmp x y)
     | _ -> Val Lt)
  | DUInt x ->
    (match b with
     | DUInt y -> Val (N.compare x y)
     | DFloat _ -> Val Lt
     | _ -> Val Gt)
  | DFloat x -> (match b with
                 | DFloat y -> Val (pol.p_float x y)
                 | _ -> Val Gt)

(** val attr_cmp :
    nametab -> nametab -> policy -> (n * cdata) -> (n * cdata) -> comparison
    res **)

let attr_cmp tab_at tab_en pol a b =
  bind
    (unwrap (String ((Ascii (true, false, false, false, false, false, true,
      false)), (String ((Ascii (false, false, true, false, true, true, true,
      false)), (String ((Ascii (false, false, true, false, true, true, true,
      false)), (String ((Ascii (false, true, false, false, true, true, true,
      false)), (String ((Ascii (true, false, false, true, false, true, true,
      false)), (String ((Ascii (false, true, false, false, false, true, true,
      false)), (String ((Ascii (true, false, true, false, true, true, true,
      false)), (String ((Ascii (false, false, true, false, true, true, true,
      false)), (String ((Ascii (true, false, true, false, false, true, true,
      false)), (String ((Ascii (false, true, true, true, false, false, true,
      false)), (String ((Ascii (true, false, false, false, false, true, true,
      false)), (String ((Ascii (true, false, true, true, false, true, true,
      false)), (String ((Ascii (true, false, true, false, false, true, true,
      false)), (String ((Ascii (false, true, false, true, true, true, false,
      false)), (String ((Ascii (false, true, false, true, true, true, false,
      false)), (String ((Ascii (false, false, true, false, true, true, true,
      false)), (String ((Ascii (true, true, true, true, false, true, true,
      false)), (String ((Ascii (true, true, true, true, true, false, true,
      false)), (String ((Ascii (true, true, false, false, true, true, true,
      false)), (String ((Ascii (false, false, true, false, true, true, true,
      false)), (String ((Ascii (false, true, false, false, true, true, true,
      false)), EmptyString))))))))))))))))))))))))))))))))))))))))))
      (to_str tab_at (fst a))) (fun sa ->
    bind
      (unwrap (String ((Ascii (true, false, false, false, false, false, true,
        false)), (String ((Ascii (false, false, true, false, true, true,
        true, false)), (String ((Ascii (false, false, true, false, true,
        true, true, false)), (String ((Ascii (false, true, false, false,
        true, true, true, false)), (String ((Ascii (true, false, false, true,
        false, true, true, false)), (String ((Ascii (false, true, false,
        false, false, true, true, false)), (String ((Ascii (true, false,
        true, false, true, true, true, false)), (String ((Ascii (false,
        false, true, false, true, true, true, false)), (String ((Ascii (true,
        false, true, false, false, true, true, false)), (String ((Ascii
        (false, true, true, true, false, false, true, false)), (String
        ((Ascii (true, false, false, false, false, true, true, false)),
        (String ((Ascii (true, false, true, true, false, true, true, false)),
        (String ((Ascii (true, false, true, false, false, true, true,
        false)), (String ((Ascii (false, true, false, true, true, true,
        false, false)), (String ((Ascii (false, true, false, true, true,
        true, false, false)), (String ((Ascii (false, false, true, false,
        true, true, true, false)), (String ((Ascii (true, true, true, true,
        false, true, true, false)), (String ((Ascii (true, true, true, true,
        true, false, true, false)), (String ((Ascii (true, true, false,
        false, true, true, true, false)), (String ((Ascii (false, false,
        true, false, true, true, true, false)), (String ((Ascii (false, true,
        false, false, true, true, true, false)),
        EmptyString))))))))))))))))))))))))))))))))))))))))))
        (to_str tab_at (fst b))) (fun sb ->
      bind (cdata_cmp tab_en pol (snd a) (snd b)) (fun vc -> Val
        (cthen (lex_cmp sa sb) vc))))

(** val item_cmp :
    nametab -> policy -> (id -> id -> comparison res) -> citem -> citem ->
    comparison res **)

let item_cmp tab_en pol ce i j =
  match i with
  | CElem a -> (match j with
                | CElem b -> ce a b
                | CData _ -> Val Lt)
  | CData d ->
    (match j with
     | CElem _ -> Val Gt
     | CData e -> cdata_cmp tab_en pol d e)

(** val nd : world -> id -> node res **)

let nd w0 i =
  unwrap (String ((Ascii (false, false, true, false, false, true, true,
    false)), (String ((Ascii (true, false, false, false, false, true, true,
    false)), (String ((Ascii (false, true, true, true, false, true, true,
    false)), (String ((Ascii (true, true, true, false, false, true, true,
    false)), (String ((Ascii (false, false, true, true, false, true, true,
    false)), (String ((Ascii (true, false, false, true, false, true, true,
    false)), (String ((Ascii (false, true, true, true, false, true, true,
    false)), (String ((Ascii (true, true, true, false, false, true, true,
    false)), (String ((Ascii (false, false, false, false, false, true, false,
    false)), (String ((Ascii (false, true, true, true, false, true, true,
    false)), (String ((Ascii (true, true, true, true, false, true, true,
    false)), (String ((Ascii (false, false, true, false, false, true, true,
    false)), (String ((Ascii (true, false, true, false, false, true, true,
    false)), (String ((Ascii (false, false, false, false, false, true, false,
    false)), (String ((Ascii (true, false, false, true, false, true, true,
    false)), (String ((Ascii (false, false, true, false, false, true, true,
    false)), EmptyString)))))))))))))))))))))))))))))))) (w0.w_nodes i)

(** val first_named_p : world -> n -> citem list -> id option res **)

let rec first_named_p w0 name = function
| [] -> Val None
| c0 :: rest ->
  (match c0 with
   | CElem c ->
     bind (nd w0 c) (fun cn ->
       if N.eqb cn.n_name name
       then Val (Some c)
       else first_named_p w0 name rest)
   | CData _ -> first_named_p w0 name rest)

(** val sub_cdata : tables -> world -> node -> n -> cdata option res **)

let sub_cdata t w0 n0 name =
  bind (first_named_p w0 name n0.n_content) (fun s ->
    match s with
    | Some c -> bind (nd w0 c) (fun cn -> character_data t cn)
    | None -> Val None)

(** val item_name_p : tables -> world -> node -> n list option res **)

let item_name_p t w0 n0 =
  bind (is_named t n0.n_type) (fun named ->
    if negb named
    then Val None
    else (match n0.n_content with
          | [] -> Val None
          | c :: _ ->
            (match c with
             | CElem s ->
               bind (nd w0 s) (fun sn ->
                 if N.eqb sn.n_name t.name_short_name
                 then bind (character_data t sn) (fun cd -> Val
                        (match cd with
                         | Some c0 ->
                           (match c0 with
                            | DString nm -> Some nm
                            | _ -> None)
                         | None -> None))
                 else Val None)
             | CData _ -> Val None)))

(** val index_key : tables -> n -> world -> node -> n option res **)

let index_key t name_index w0 n0 =
  bind (sub_cdata t w0 n0 name_index) (fun cd -> Val
    (match cd with
     | Some d -> parse_integer_u64 d
     | None -> None))

(** val defref_key : tables -> n -> world -> node -> n list option res **)

let defref_key t name_definition_ref w0 n0 =
  bind (sub_cdata t w0 n0 name_definition_ref) (fun cd -> Val
    (match cd with
     | Some c -> (match c with
                  | DString s -> Some s
                  | _ -> None)
     | None -> None))

(** val dest_key : tables -> nametab -> node -> n list option res **)

let dest_key t tab_en n0 =
  match attr_value n0 t.attr_dest with
  | Some c ->
    (match c with
     | DEnum e ->
       bind
         (unwrap (String ((Ascii (true, false, true, false, false, false,
           true, false)), (String ((Ascii (false, true, true, true, false,
           true, true, false)), (String ((Ascii (true, false, true, false,
           true, true, true, false)), (String ((Ascii (true, false, true,
           true, false, true, true, false)), (String ((Ascii (true, false,
           false, true, false, false, true, false)), (String ((Ascii (false,
           false, true, false, true, true, true, false)), (String ((Ascii
           (true, false, true, false, false, true, true, false)), (String
           ((Ascii (true, false, true, true, false, true, true, false)),
           (String ((Ascii (false, true, false, true, true, true, false,
           false)), (String ((Ascii (false, true, false, true, true, true,
           false, false)), (String ((Ascii (false, false, true, false, true,
           true, true, false)), (String ((Ascii (true, true, true, true,
           false, true, true, false)), (String ((Ascii (true, true, true,
           true, true, false, true, false)), (String ((Ascii (true, true,
           false, false, true, true, true, false)), (String ((Ascii (false,
           false, true, false, true, true, true, false)), (String ((Ascii
           (false, true, false, false, true, true, true, false)),
           EmptyString)))))))))))))))))))))))))))))))) (to_str tab_en e))
         (fun s -> Val (Some s))
     | _ -> Val None)
  | None -> Val None

(** val node_keys :
    tables -> nametab -> nametab -> n -> n -> world -> node -> nkeys res **)

let node_keys t tab_el tab_en name_index name_definition_ref w0 n0 =
  bind
    (unwrap (String ((Ascii (true, false, true, false, false, false, true,
      false)), (String ((Ascii (false, false, true, true, false, true, true,
      false)), (String ((Ascii (true, false, true, false, false, true, true,
      false)), (String ((Ascii (true, false, true, true, false, true, true,
      false)), (String ((Ascii (true, false, true, false, false, true, true,
      false)), (String ((Ascii (false, true, true, true, false, true, true,
      false)), (String ((Ascii (false, false, true, false, true, true, true,
      false)), (String ((Ascii (false, true, true, true, false, false, true,
      false)), (String ((Ascii (true, false, false, false, false, true, true,
      false)), (String ((Ascii (true, false, true, true, false, true, true,
      false)), (String ((Ascii (true, false, true, false, false, true, true,
      false)), (String ((Ascii (false, true, false, true, true, true, false,
      false)), (String ((Ascii (false, true, false, true, true, true, false,
      false)), (String ((Ascii (false, false, true, false, true, true, true,
      false)), (String ((Ascii (true, true, true, true, false, true, true,
      false)), (String ((Ascii (true, true, true, true, true, false, true,
      false)), (String ((Ascii (true, true, false, false, true, true, true,
      false)), (String ((Ascii (false, false, true, false, true, true, true,
      false)), (String ((Ascii (false, true, false, false, true, true, true,
      false)), EmptyString))))))))))))))))))))))))))))))))))))))
      (to_str tab_el n0.n_name)) (fun s ->
    bind (index_key t name_index w0 n0) (fun i ->
      bind (item_name_p t w0 n0) (fun m0 ->
        bind (defref_key t name_definition_ref w0 n0) (fun d ->
          bind (dest_key t tab_en n0) (fun t0 -> Val { k_name = s; k_index =
            i; k_iname = m0; k_defref = d; k_dest = t0 })))))

(** val cmp_f :
    tables -> nametab -> nametab -> nametab -> n -> n -> policy -> world ->
    nat -> id -> id -> comparison res **)

let rec cmp_f t tab_el tab_at tab_en name_index name_definition_ref pol w0 fuel a b =
  match fuel with
  | O -> Fuel
  | S f ->
    bind (nd w0 a) (fun na ->
      bind (nd w0 b) (fun nb ->
        bind (node_keys t tab_el tab_en name_index name_definition_ref w0 na)
          (fun ka ->
          bind
            (node_keys t tab_el tab_en name_index name_definition_ref w0 nb)
            (fun kb ->
            match head_stages pol ka kb with
            | Some c -> Val c
            | None ->
              bind
                (slice_cmp
                  (item_cmp tab_en pol
                    (cmp_f t tab_el tab_at tab_en name_index
                      name_definition_ref pol w0 f)) na.n_content
                  nb.n_content) (fun cc ->
                bind
                  (slice_cmp (attr_cmp tab_at tab_en pol) na.n_attrs
                    nb.n_attrs) (fun ac -> Val (cthen cc ac)))))))

(** val cmp_p :
    tables -> nametab -> nametab -> nametab -> n -> n -> policy -> world ->
    id -> id -> comparison res **)

let cmp_p t tab_el tab_at tab_en name_index name_definition_ref pol w0 a b =
  cmp_f t tab_el tab_at tab_en name_index name_definition_ref pol w0 (S
    (N.to_nat w0.w_next)) a b

(** val wpure : (world -> 'a1 res) -> 'a1 w **)

let wpure f w0 =
  match f w0 with
  | Val a -> Val ((OK a), w0)
  | Pan s -> Pan s
  | Fuel -> Fuel

(** val elem_cmp :
    tables -> nametab -> nametab -> nametab -> n -> n -> id -> id ->
    comparison w **)

let elem_cmp t tab_el tab_at tab_en name_index name_definition_ref a b =
  wpure (fun w0 ->
    cmp_p t tab_el tab_at tab_en name_index name_definition_ref policy_cur w0
      a b)

(** val key_cmp :
    (id -> id -> comparison) -> (n list * id) -> (n list * id) -> comparison **)

let key_cmp ce x y =
  cthen (lex_cmp (fst x) (fst y)) (ce (snd x) (snd y))

(** val row_val :
    tables -> nametab -> nametab -> nametab -> n -> n -> world -> id -> id
    list -> unit res **)

let rec row_val t tab_el tab_at tab_en name_index name_definition_ref w0 x = function
| [] -> Val ()
| y :: l' ->
  bind
    (cmp_p t tab_el tab_at tab_en name_index name_definition_ref policy_cur
      w0 x y) (fun _ ->
    row_val t tab_el tab_at tab_en name_index name_definition_ref w0 x l')

(** val all_pairs_val :
    tables -> nametab -> nametab -> nametab -> n -> n -> world -> id list ->
    id list -> unit res **)

let rec all_pairs_val t tab_el tab_at tab_en name_index name_definition_ref w0 xs ys =
  match xs with
  | [] -> Val ()
  | x :: xs' ->
    bind
      (row_val t tab_el tab_at tab_en name_index name_definition_ref w0 x ys)
      (fun _ ->
      all_pairs_val t tab_el tab_at tab_en name_index name_definition_ref w0
        xs' ys)

(** val cmp_total :
    tables -> nametab -> nametab -> nametab -> n -> n -> world -> id -> id ->
    comparison **)

let cmp_total t tab_el tab_at tab_en name_index name_definition_ref w0 a b =
  match cmp_p t tab_el tab_at tab_en name_index name_definition_ref
          policy_cur w0 a b with
  | Val c -> c
  | _ -> Eq

(** val keyed_loop :
    tables -> (id -> unit w) -> (n * n) -> citem list -> (n list * id) list w **)

let rec keyed_loop t rec0 ty = function
| [] -> wret []
| c0 :: rest ->
  (match c0 with
   | CElem c ->
     wbind (rec0 c) (fun _ ->
       wbind (get_node c) (fun cn ->
         wbind
           (wl
             (find_sub_element t ty cn.n_name (Npos (XI (XI (XI (XI (XI (XI
               (XI (XI (XI (XI (XI (XI (XI (XI (XI (XI (XI (XI (XI (XI (XI
               (XI (XI (XI (XI (XI (XI (XI (XI (XI (XI
               XH)))))))))))))))))))))))))))))))))) (fun fs ->
           match fs with
           | Some p ->
             let (_, idx) = p in
             wbind (keyed_loop t rec0 ty rest) (fun more ->
               wret ((idx, c) :: more))
           | None ->
             wpanic (String ((Ascii (true, false, true, false, false, true,
               true, false)), (String ((Ascii (false, false, true, true,
               false, true, true, false)), (String ((Ascii (true, false,
               true, false, false, true, true, false)), (String ((Ascii
               (true, false, true, true, false, true, true, false)), (String
               ((Ascii (true, false, true, false, false, true, true, false)),
               (String ((Ascii (false, true, true, true, false, true, true,
               false)), (String ((Ascii (false, false, true, false, true,
               true, true, false)), (String ((Ascii (false, true, false,
               false, true, true, true, false)), (String ((Ascii (true,
               false, false, false, false, true, true, false)), (String
               ((Ascii (true, true, true, false, true, true, true, false)),
               (String ((Ascii (false, true, true, true, false, true, false,
               false)), (String ((Ascii (false, true, false, false, true,
               true, true, false)), (String ((Ascii (true, true, false,
               false, true, true, true, false)), (String ((Ascii (false,
               false, false, false, false, true, false, false)), (String
               ((Ascii (true, true, false, false, true, true, true, false)),
               (String ((Ascii (true, true, true, true, false, true, true,
               false)), (String ((Ascii (false, true, false, false, true,
               true, true, false)), (String ((Ascii (false, false, true,
               false, true, true, true, false)), (String ((Ascii (false,
               true, false, true, true, true, false, false)), (String ((Ascii
               (false, false, false, false, false, true, false, false)),
               (String ((Ascii (false, true, true, false, false, true, true,
               false)), (String ((Ascii (true, false, false, true, false,
               true, true, false)), (String ((Ascii (false, true, true, true,
               false, true, true, false)), (String ((Ascii (false, false,
               true, false, false, true, true, false)), (String ((Ascii
               (true, true, true, true, true, false, true, false)), (String
               ((Ascii (true, true, false, false, true, true, true, false)),
               (String ((Ascii (true, false, true, false, true, true, true,
               false)), (String ((Ascii (false, true, false, false, false,
               true, true, false)), (String ((Ascii (true, true, true, true,
               true, false, true, false)), (String ((Ascii (true, false,
               true, false, false, true, true, false)), (String ((Ascii
               (false, false, true, true, false, true, true, false)), (String
               ((Ascii (true, false, true, false, false, true, true, false)),
               (String ((Ascii (true, false, true, true, false, true, true,
               false)), (String ((Ascii (true, false, true, false, false,
               true, true, false)), (String ((Ascii (false, true, true, true,
               false, true, true, false)), (String ((Ascii (false, false,
               true, false, true, true, true, false)), (String ((Ascii
               (false, false, false, true, false, true, false, false)),
               (String ((Ascii (true, false, true, false, false, true, true,
               false)), (String ((Ascii (false, false, true, true, false,
               true, true, false)), (String ((Ascii (true, false, true,
               false, false, true, true, false)), (String ((Ascii (true,
               false, true, true, false, true, true, false)), (String ((Ascii
               (false, true, true, true, false, true, false, false)), (String
               ((Ascii (true, false, true, false, false, true, true, false)),
               (String ((Ascii (false, false, true, true, false, true, true,
               false)), (String ((Ascii (true, false, true, false, false,
               true, true, false)), (String ((Ascii (true, false, true, true,
               false, true, true, false)), (String ((Ascii (true, false,
               true, false, false, true, true, false)), (String ((Ascii
               (false, true, true, true, false, true, true, false)), (String
               ((Ascii (false, false, true, false, true, true, true, false)),
               (String ((Ascii (true, true, true, true, true, false, true,
               false)), (String ((Ascii (false, true, true, true, false,
               true, true, false)), (String ((Ascii (true, false, false,
               false, false, true, true, false)), (String ((Ascii (true,
               false, true, true, false, true, true, false)), (String ((Ascii
               (true, false, true, false, false, true, true, false)), (String
               ((Ascii (false, false, false, true, false, true, false,
               false)), (String ((Ascii (true, false, false, true, false,
               true, false, false)), (String ((Ascii (false, false, true,
               true, false, true, false, false)), (String ((Ascii (false,
               false, false, false, false, true, false, false)), (String
               ((Ascii (true, false, true, false, true, true, true, false)),
               (String ((Ascii (true, true, false, false, true, true, false,
               false)), (String ((Ascii (false, true, false, false, true,
               true, false, false)), (String ((Ascii (false, true, false,
               true, true, true, false, false)), (String ((Ascii (false,
               true, false, true, true, true, false, false)), (String ((Ascii
               (true, false, true, true, false, false, true, false)), (String
               ((Ascii (true, false, false, false, false, false, true,
               false)), (String ((Ascii (false, false, false, true, true,
               false, true, false)), (String ((Ascii (true, false, false,
               true, false, true, false, false)), (String ((Ascii (false,
               true, true, true, false, true, false, false)), (String ((Ascii
               (true, false, true, false, true, true, true, false)), (String
               ((Ascii (false, true, true, true, false, true, true, false)),
               (String ((Ascii (true, true, true, false, true, true, true,
               false)), (String ((Ascii (false, true, false, false, true,
               true, true, false)), (String ((Ascii (true, false, false,
               false, false, true, true, false)), (String ((Ascii (false,
               false, false, false, true, true, true, false)), (String
               ((Ascii (false, false, false, true, false, true, false,
               false)), (String ((Ascii (true, false, false, true, false,
               true, false, false)),
               EmptyString)))))))))))))))))))))))))))))))))))))))))))))))))))))))))))))))))))))))))))))))))))))))))))))))))))))))))))))))))))))))))))))))))))))))))))))))))))))))))))
   | CData _ -> keyed_loop t rec0 ty rest)

(** val iter_loop : (id -> unit w) -> citem list -> unit w **)

let rec iter_loop rec0 = function
| [] -> wret ()
| c0 :: rest ->
  (match c0 with
   | CElem c -> wbind (rec0 c) (fun _ -> iter_loop rec0 rest)
   | CData _ -> iter_loop rec0 rest)

(** val sort_f :
    tables -> nametab -> nametab -> nametab -> n -> n -> (__ -> (__ -> __ ->
    comparison) -> __ list -> __ list) -> nat -> id -> unit w **)

let rec sort_f t tab_el tab_at tab_en name_index name_definition_ref srt fuel i =
  match fuel with
  | O -> wfuel
  | S f ->
    wbind (get_node i) (fun n0 ->
      wbind (wl (content_mode t n0.n_type)) (fun mode ->
        if (||) (N.eqb mode mCharacters) (N.eqb mode mMixed)
        then wret ()
        else wbind (wl (is_ordered t n0.n_type)) (fun ordered ->
               if (&&) (negb ordered)
                    (N.ltb (Npos XH) (N.of_nat (length n0.n_content)))
               then wbind
                      (keyed_loop t
                        (sort_f t tab_el tab_at tab_en name_index
                          name_definition_ref srt f) n0.n_type n0.n_content)
                      (fun keyed ->
                      wbind wget (fun w0 ->
                        wbind
                          (wl
                            (all_pairs_val t tab_el tab_at tab_en name_index
                              name_definition_ref w0 (map snd keyed)
                              (map snd keyed))) (fun _ ->
                          let sorted =
                            Obj.magic srt __
                              (key_cmp
                                (cmp_total t tab_el tab_at tab_en name_index
                                  name_definition_ref w0)) keyed
                          in
                          modify_node i (fun n' ->
                            set_content n'
                              (map (fun k -> CElem (snd k)) sorted)))))
               else iter_loop
                      (sort_f t tab_el tab_at tab_en name_index
                        name_definition_ref srt f) n0.n_content)))

(** val e_sort_with :
    tables -> nametab -> nametab -> nametab -> n -> n -> (__ -> (__ -> __ ->
    comparison) -> __ list -> __ list) -> id -> unit w **)

let e_sort_with t tab_el tab_at tab_en name_index name_definition_ref srt i =
  wbind wget (fun w0 ->
    sort_f t tab_el tab_at tab_en name_index name_definition_ref srt
      (fuel_of w0) i)

(** val m_sort_with :
    tables -> nametab -> nametab -> nametab -> n -> n -> (__ -> (__ -> __ ->
    comparison) -> __ list -> __ list) -> n -> unit w **)

let m_sort_with t tab_el tab_at tab_en name_index name_definition_ref srt m0 =
  wbind (get_model m0) (fun x ->
    e_sort_with t tab_el tab_at tab_en name_index name_definition_ref srt
      x.m_root)

(** val e_sort :
    tables -> nametab -> nametab -> nametab -> n -> n -> id -> unit w **)

let e_sort t tab_el tab_at tab_en name_index name_definition_ref i =
  e_sort_with t tab_el tab_at tab_en name_index name_definition_ref (fun _ ->
    isort_poly) i

(** val m_sort :
    tables -> nametab -> nametab -> nametab -> n -> n -> n -> unit w **)

let m_sort t tab_el tab_at tab_en name_index name_definition_ref m0 =
  m_sort_with t tab_el tab_at tab_en name_index name_definition_ref (fun _ ->
    isort_poly) m0

(** val set_standalone : file -> bool option -> file **)

let set_standalone f s =
  { f_model = f.f_model; f_name = f.f_name; f_version = f.f_version;
    f_standalone = s }

(** val dup_files :
    tables -> n -> n list -> (n list * n) list -> (n list * n) list w **)

let rec dup_files t c files filemap =
  match files with
  | [] -> wret filemap
  | f :: rest ->
    wbind (get_file f) (fun fl ->
      wbind (m_create_file t c fl.f_name fl.f_version) (fun nf ->
        wbind (get_file nf) (fun nfl ->
          wbind (set_file nf (set_standalone nfl fl.f_standalone)) (fun _ ->
            dup_files t c rest (assoc_insert fl.f_name nf filemap)))))

(** val dup_children : tables -> n -> id -> citem list -> unit w **)

let rec dup_children t lATEST croot = function
| [] -> wret ()
| c :: rest ->
  (match c with
   | CElem e ->
     wbind (e_create_copied_sub_element t lATEST croot e) (fun _ ->
       dup_children t lATEST croot rest)
   | CData _ -> dup_children t lATEST croot rest)

(** val translate_files : world -> (n list * n) list -> n list -> n list **)

let rec translate_files w0 filemap = function
| [] -> []
| f :: rest ->
  (match nth_opt w0.w_files (N.to_nat f) with
   | Some fl ->
     (match assoc_get fl.f_name filemap with
      | Some nf -> set_add nf (translate_files w0 filemap rest)
      | None -> translate_files w0 filemap rest)
   | None -> translate_files w0 filemap rest)

(** val dup_membership : (n list * n) list -> id list -> id list -> unit w **)

let rec dup_membership filemap oids cids =
  match oids with
  | [] -> wret ()
  | o :: orest ->
    (match cids with
     | [] -> wret ()
     | c :: crest ->
       wbind (get_node o) (fun on ->
         wbind wget (fun w0 ->
           wbind
             (modify_node c (fun x ->
               set_files x (translate_files w0 filemap on.n_files)))
             (fun _ -> dup_membership filemap orest crest))))

(** val m_duplicate_body : tables -> n -> (n * cdata) list -> n -> n w **)

let m_duplicate_body t lATEST root_attrs m0 =
  wbind (get_model m0) (fun x ->
    wbind (new_model t root_attrs) (fun c ->
      wbind (get_node x.m_root) (fun rn ->
        wbind (get_model c) (fun cx ->
          wbind
            (modify_node cx.m_root (fun r ->
              set_comment (set_attrs r rn.n_attrs) rn.n_comment)) (fun _ ->
            wbind (dup_files t c x.m_files []) (fun filemap ->
              wbind (dup_children t lATEST cx.m_root rn.n_content) (fun _ ->
                wbind wget (fun w0 ->
                  wbind (dfs_ids (fuel_of w0) x.m_root) (fun oids ->
                    wbind (dfs_ids (fuel_of w0) cx.m_root) (fun cids ->
                      wbind (dup_membership filemap oids cids) (fun _ ->
                        wret c)))))))))))

(** val drop_models_files : nat -> nat -> world -> world **)

let drop_models_files nm nf w0 =
  { w_nodes = w0.w_nodes; w_next = w0.w_next; w_files =
    (firstn nf w0.w_files); w_models = (firstn nm w0.w_models) }

(** val m_duplicate :
    tables -> nametab -> nametab -> (n -> n list -> bool res) -> n ->
    (n * cdata) list -> n -> n w **)

let m_duplicate t _ _ _ lATEST root_attrs m0 w0 =
  match m_duplicate_body t lATEST root_attrs m0 w0 with
  | Val a ->
    let (o, w') = a in
    (match o with
     | OK c -> Val ((OK c), w')
     | ER e ->
       Val ((ER e),
         (drop_models_files (length w0.w_models) (length w0.w_files) w')))
  | x -> x

(** val in_rng : n -> n -> n -> bool **)

let in_rng lo hi c =
  (&&) (N.leb lo c) (N.leb c hi)

(** val is_cont : n -> bool **)

let is_cont c =
  in_rng (Npos (XO (XO (XO (XO (XO (XO (XO XH)))))))) (Npos (XI (XI (XI (XI
    (XI (XI (XO XH)))))))) c

(** val utf8_chunk : n list -> bool * nat **)

let utf8_chunk = function
| [] -> (true, O)
| b0 :: r ->
  if N.ltb b0 (Npos (XO (XO (XO (XO (XO (XO (XO XH))))))))
  then (true, (S O))
  else if in_rng (Npos (XO (XI (XO (XO (XO (XO (XI XH)))))))) (Npos (XI (XI
            (XI (XI (XI (XO (XI XH)))))))) b0
       then (match r with
             | [] -> (false, (S O))
             | b1 :: _ ->
               if is_cont b1 then (true, (S (S O))) else (false, (S O)))
       else if in_rng (Npos (XO (XO (XO (XO (XO (XI (XI XH)))))))) (Npos (XI
                 (XI (XI (XI (XO (XI (XI XH)))))))) b0
            then let lo =
                   if N.eqb b0 (Npos (XO (XO (XO (XO (XO (XI (XI XH))))))))
                   then Npos (XO (XO (XO (XO (XO (XI (XO XH)))))))
                   else Npos (XO (XO (XO (XO (XO (XO (XO XH)))))))
                 in
                 let hi =
                   if N.eqb b0 (Npos (XI (XO (XI (XI (XO (XI (XI XH))))))))
                   then Npos (XI (XI (XI (XI (XI (XO (XO XH)))))))
                   else Npos (XI (XI (XI (XI (XI (XI (XO XH)))))))
                 in
                 (match r with
                  | [] -> (false, (S O))
                  | b1 :: r1 ->
                    if in_rng lo hi b1
                    then (match r1 with
                          | [] -> (false, (S (S O)))
                          | b2 :: _ ->
                            if is_cont b2
                            then (true, (S (S (S O))))
                            else (false, (S (S O))))
                    else (false, (S O)))
            else if in_rng (Npos (XO (XO (XO (XO (XI (XI (XI XH)))))))) (Npos
                      (XO (XO (XI (XO (XI (XI (XI XH)))))))) b0
                 then let lo =
                        if N.eqb b0 (Npos (XO (XO (XO (XO (XI (XI (XI
                             XH))))))))
                        then Npos (XO (XO (XO (XO (XI (XO (XO XH)))))))
                        else Npos (XO (XO (XO (XO (XO (XO (XO XH)))))))
                      in
                      let hi =
                        if N.eqb b0 (Npos (XO (XO (XI (XO (XI (XI (XI
                             XH))))))))
                        then Npos (XI (XI (XI (XI (XO (XO (XO XH)))))))
                        else Npos (XI (XI (XI (XI (XI (XI (XO XH)))))))
                      in
                      (match r with
                       | [] -> (false, (S O))
                       | b1 :: r1 ->
                         if in_rng lo hi b1
                         then (match r1 with
                               | [] -> (false, (S (S O)))
                               | b2 :: r2 ->
                                 if is_cont b2
                                 then (match r2 with
                                       | [] -> (false, (S (S (S O))))
                                       | b3 :: _ ->
                                         if is_cont b3
                                         then (true, (S (S (S (S O)))))
                                         else (false, (S (S (S O)))))
                                 else (false, (S (S O))))
                         else (false, (S O)))
                 else (false, (S O))

(** val utf8_valid_fuel : nat -> n list -> bool **)

let rec utf8_valid_fuel fuel s =
  match fuel with
  | O -> true
  | S f ->
    (match s with
     | [] -> true
     | _ :: _ ->
       let (ok, n0) = utf8_chunk s in
       if ok then utf8_valid_fuel f (skipn n0 s) else false)

(** val utf8_valid : n list -> bool **)

let utf8_valid s =
  utf8_valid_fuel (S (length s)) s

(** val rEPLACEMENT : n list **)

let rEPLACEMENT =
  (Npos (XI (XI (XI (XI (XO (XI (XI XH)))))))) :: ((Npos (XI (XI (XI (XI (XI
    (XI (XO XH)))))))) :: ((Npos (XI (XO (XI (XI (XI (XI (XO
    XH)))))))) :: []))

(** val utf8_lossy_fuel : nat -> n list -> n list **)

let rec utf8_lossy_fuel fuel s =
  match fuel with
  | O -> []
  | S f ->
    (match s with
     | [] -> []
     | _ :: _ ->
       let (ok, n0) = utf8_chunk s in
       app (if ok then firstn n0 s else rEPLACEMENT)
         (utf8_lossy_fuel f (skipn n0 s)))

(** val utf8_lossy : n list -> n list **)

let utf8_lossy s =
  utf8_lossy_fuel (S (length s)) s

(** val is_char : n -> bool **)

let is_char v =
  (&&)
    (N.leb v (Npos (XI (XI (XI (XI (XI (XI (XI (XI (XI (XI (XI (XI (XI (XI
      (XI (XI (XO (XO (XO (XO XH))))))))))))))))))))))
    (negb
      (in_rng (Npos (XO (XO (XO (XO (XO (XO (XO (XO (XO (XO (XO (XI (XI (XO
        (XI XH)))))))))))))))) (Npos (XI (XI (XI (XI (XI (XI (XI (XI (XI (XI
        (XI (XI (XI (XO (XI XH)))))))))))))))) v))

(** val utf8_encode : n -> n list **)

let utf8_encode v =
  if N.ltb v (Npos (XO (XO (XO (XO (XO (XO (XO XH))))))))
  then v :: []
  else if N.ltb v (Npos (XO (XO (XO (XO (XO (XO (XO (XO (XO (XO (XO
            XH))))))))))))
       then (N.add (Npos (XO (XO (XO (XO (XO (XO (XI XH))))))))
              (N.div v (Npos (XO (XO (XO (XO (XO (XO XH))))))))) :: (
              (N.add (Npos (XO (XO (XO (XO (XO (XO (XO XH))))))))
                (N.modulo v (Npos (XO (XO (XO (XO (XO (XO XH))))))))) :: [])
       else if N.ltb v (Npos (XO (XO (XO (XO (XO (XO (XO (XO (XO (XO (XO (XO
                 (XO (XO (XO (XO XH)))))))))))))))))
            then (N.add (Npos (XO (XO (XO (XO (XO (XI (XI XH))))))))
                   (N.div v (Npos (XO (XO (XO (XO (XO (XO (XO (XO (XO (XO (XO
                     (XO XH))))))))))))))) :: ((N.add (Npos (XO (XO (XO (XO
                                                 (XO (XO (XO XH))))))))
                                                 (N.modulo
                                                   (N.div v (Npos (XO (XO (XO
                                                     (XO (XO (XO XH))))))))
                                                   (Npos (XO (XO (XO (XO (XO
                                                   (XO XH))))))))) :: (
                   (N.add (Npos (XO (XO (XO (XO (XO (XO (XO XH))))))))
                     (N.modulo v (Npos (XO (XO (XO (XO (XO (XO XH))))))))) :: []))
            else (N.add (Npos (XO (XO (XO (XO (XI (XI (XI XH))))))))
                   (N.div v (Npos (XO (XO (XO (XO (XO (XO (XO (XO (XO (XO (XO
                     (XO (XO (XO (XO (XO (XO (XO XH))))))))))))))))))))) :: (
                   (N.add (Npos (XO (XO (XO (XO (XO (XO (XO XH))))))))
                     (N.modulo
                       (N.div v (Npos (XO (XO (XO (XO (XO (XO (XO (XO (XO (XO
                         (XO (XO XH)))))))))))))) (Npos (XO (XO (XO (XO (XO
                       (XO XH))))))))) :: ((N.add (Npos (XO (XO (XO (XO (XO
                                             (XO (XO XH))))))))
                                             (N.modulo
                                               (N.div v (Npos (XO (XO (XO (XO
                                                 (XO (XO XH)))))))) (Npos (XO
                                               (XO (XO (XO (XO (XO XH))))))))) :: (
                   (N.add (Npos (XO (XO (XO (XO (XO (XO (XO XH))))))))
                     (N.modulo v (Npos (XO (XO (XO (XO (XO (XO XH))))))))) :: [])))

(** val is_ws : n -> bool **)

let is_ws c =
  (||)
    ((||)
      ((||)
        ((||) (N.eqb c (Npos (XO (XO (XO (XO (XO XH)))))))
          (N.eqb c (Npos (XI (XO (XO XH))))))
        (N.eqb c (Npos (XO (XI (XO XH))))))
      (N.eqb c (Npos (XO (XO (XI XH)))))) (N.eqb c (Npos (XI (XO (XI XH)))))

type event =
| EvHeader of bool option
| EvBegin of n list * n list
| EvEnd of n list
| EvChars of n list
| EvComment of n list
| EvEOF

type lexerr =
| IncompleteData
| InvalidElement
| InvalidProcessingInstruction
| InvalidXmlHeader
| InvalidComment

type lstate = { l_rest : n list; l_line : n; l_deferred : n list option }

type lexout =
| LOk of n * event * lstate
| LErr of n * lexerr

(** val position : (n -> bool) -> n list -> nat option **)

let rec position p = function
| [] -> None
| x :: l' ->
  if p x then Some O else option_map (fun x0 -> S x0) (position p l')

(** val count_lines : n list -> n **)

let count_lines l =
  N.of_nat (length (filter (N.eqb (Npos (XO (XI (XO XH))))) l))

(** val starts_with : n list -> n list -> bool **)

let rec starts_with pre l =
  match pre with
  | [] -> true
  | p :: pre' ->
    (match l with
     | [] -> false
     | x :: l' -> (&&) (N.eqb p x) (starts_with pre' l'))

(** val split_ws_aux : n list -> n list -> n list list **)

let rec split_ws_aux cur = function
| [] -> (rev cur) :: []
| x :: l' ->
  if is_ws x
  then (rev cur) :: (split_ws_aux [] l')
  else split_ws_aux (x :: cur) l'

(** val split_ws : n list -> n list list **)

let split_ws l =
  split_ws_aux [] l

(** val lexer_new : n list -> lstate **)

let lexer_new buffer =
  let rest =
    match buffer with
    | [] -> buffer
    | n0 :: l ->
      (match n0 with
       | N0 -> buffer
       | Npos p ->
         (match p with
          | XI p0 ->
            (match p0 with
             | XI p1 ->
               (match p1 with
                | XI p2 ->
                  (match p2 with
                   | XI p3 ->
                     (match p3 with
                      | XO p4 ->
                        (match p4 with
                         | XI p5 ->
                           (match p5 with
                            | XI p6 ->
                              (match p6 with
                               | XH ->
                                 (match l with
                                  | [] -> buffer
                                  | n1 :: l0 ->
                                    (match n1 with
                                     | N0 -> buffer
                                     | Npos p7 ->
                                       (match p7 with
                                        | XI p8 ->
                                          (match p8 with
                                           | XI p9 ->
                                             (match p9 with
                                              | XO p10 ->
                                                (match p10 with
                                                 | XI p11 ->
                                                   (match p11 with
                                                    | XI p12 ->
                                                      (match p12 with
                                                       | XI p13 ->
                                                         (match p13 with
                                                          | XO p14 ->
                                                            (match p14 with
                                                             | XH ->
                                                               (match l0 with
                                                                | [] -> buffer
                                                                | n2 :: r ->
                                                                  (match n2 with
                                                                   | N0 ->
                                                                    buffer
                                                                   | Npos p15 ->
                                                                    (match p15 with
                                                                    | XI p16 ->
                                                                    (match p16 with
                                                                    | XI p17 ->
                                                                    (match p17 with
                                                                    | XI p18 ->
                                                                    (match p18 with
                                                                    | XI p19 ->
                                                                    (match p19 with
                                                                    | XI p20 ->
                                                                    (match p20 with
                                                                    | XI p21 ->
                                                                    (match p21 with
                                                                    | XO p22 ->
                                                                    (match p22 with
                                                                    | XH ->
                                                                    (match r with
                                                                    | [] ->
                                                                    buffer
                                                                    | _ :: _ ->
                                                                    r)
                                                                    | _ ->
                                                                    buffer)
                                                                    | _ ->
                                                                    buffer)
                                                                    | _ ->
                                                                    buffer)
                                                                    | _ ->
                                                                    buffer)
                                                                    | _ ->
                                                                    buffer)
                                                                    | _ ->
                                                                    buffer)
                                                                    | _ ->
                                                                    buffer)
                                                                    | _ ->
                                                                    buffer)))
                                                             | _ -> buffer)
                                                          | _ -> buffer)
                                                       | _ -> buffer)
                                                    | _ -> buffer)
                                                 | _ -> buffer)
                                              | _ -> buffer)
                                           | _ -> buffer)
                                        | _ -> buffer)))
                               | _ -> buffer)
                            | _ -> buffer)
                         | _ -> buffer)
                      | _ -> buffer)
                   | _ -> buffer)
                | _ -> buffer)
             | _ -> buffer)
          | _ -> buffer))
  in
  { l_rest = rest; l_line = (Npos XH); l_deferred = None }

(** val header_attr : n list -> (n list * n list) res **)

let header_attr attr_text =
  match position (N.eqb (Npos (XI (XO (XI (XI (XI XH))))))) attr_text with
  | Some pos ->
    let len = length attr_text in
    if Nat.eqb len O
    then Pan (String ((Ascii (false, false, true, true, false, true, true,
           false)), (String ((Ascii (true, false, true, false, false, true,
           true, false)), (String ((Ascii (false, false, false, true, true,
           true, true, false)), (String ((Ascii (true, false, true, false,
           false, true, true, false)), (String ((Ascii (false, true, false,
           false, true, true, true, false)), (String ((Ascii (false, true,
           true, true, false, true, false, false)), (String ((Ascii (false,
           true, false, false, true, true, true, false)), (String ((Ascii
           (true, true, false, false, true, true, true, false)), (String
           ((Ascii (false, true, false, true, true, true, false, false)),
           (String ((Ascii (false, false, false, false, false, true, false,
           false)), (String ((Ascii (true, false, false, false, false, true,
           true, false)), (String ((Ascii (false, false, true, false, true,
           true, true, false)), (String ((Ascii (false, false, true, false,
           true, true, true, false)), (String ((Ascii (false, true, false,
           false, true, true, true, false)), (String ((Ascii (true, true,
           true, true, true, false, true, false)), (String ((Ascii (false,
           false, true, false, true, true, true, false)), (String ((Ascii
           (true, false, true, false, false, true, true, false)), (String
           ((Ascii (false, false, false, true, true, true, true, false)),
           (String ((Ascii (false, false, true, false, true, true, true,
           false)), (String ((Ascii (false, true, true, true, false, true,
           false, false)), (String ((Ascii (false, false, true, true, false,
           true, true, false)), (String ((Ascii (true, false, true, false,
           false, true, true, false)), (String ((Ascii (false, true, true,
           true, false, true, true, false)), (String ((Ascii (false, false,
           false, true, false, true, false, false)), (String ((Ascii (true,
           false, false, true, false, true, false, false)), (String ((Ascii
           (false, false, false, false, false, true, false, false)), (String
           ((Ascii (true, false, true, true, false, true, false, false)),
           (String ((Ascii (false, false, false, false, false, true, false,
           false)), (String ((Ascii (true, false, false, false, true, true,
           false, false)),
           EmptyString))))))))))))))))))))))))))))))))))))))))))))))))))))))))))
    else let value0 =
           if Nat.ltb (sub len (S O)) (add pos (S (S O)))
           then []
           else firstn (sub (sub len (S O)) (add pos (S (S O))))
                  (skipn (add pos (S (S O))) attr_text)
         in
         Val ((firstn pos attr_text), value0)
  | None -> Val (attr_text, [])

(** val header_attrs :
    n list list -> n list -> n list -> bool option -> ((n list * n
    list) * bool option) res **)

let rec header_attrs pieces ver enc sa =
  match pieces with
  | [] -> Val ((ver, enc), sa)
  | a :: rest ->
    (match header_attr a with
     | Val a0 ->
       let (nme, val0) = a0 in
       if bytes_eqb nme
            (bS (String ((Ascii (false, true, true, false, true, true, true,
              false)), (String ((Ascii (true, false, true, false, false,
              true, true, false)), (String ((Ascii (false, true, false,
              false, true, true, true, false)), (String ((Ascii (true, true,
              false, false, true, true, true, false)), (String ((Ascii (true,
              false, false, true, false, true, true, false)), (String ((Ascii
              (true, true, true, true, false, true, true, false)), (String
              ((Ascii (false, true, true, true, false, true, true, false)),
              EmptyString)))))))))))))))
       then header_attrs rest val0 enc sa
       else if bytes_eqb nme
                 (bS (String ((Ascii (true, false, true, false, false, true,
                   true, false)), (String ((Ascii (false, true, true, true,
                   false, true, true, false)), (String ((Ascii (true, true,
                   false, false, false, true, true, false)), (String ((Ascii
                   (true, true, true, true, false, true, true, false)),
                   (String ((Ascii (false, false, true, false, false, true,
                   true, false)), (String ((Ascii (true, false, false, true,
                   false, true, true, false)), (String ((Ascii (false, true,
                   true, true, false, true, true, false)), (String ((Ascii
                   (true, true, true, false, false, true, true, false)),
                   EmptyString)))))))))))))))))
            then header_attrs rest ver val0 sa
            else if bytes_eqb nme
                      (bS (String ((Ascii (true, true, false, false, true,
                        true, true, false)), (String ((Ascii (false, false,
                        true, false, true, true, true, false)), (String
                        ((Ascii (true, false, false, false, false, true,
                        true, false)), (String ((Ascii (false, true, true,
                        true, false, true, true, false)), (String ((Ascii
                        (false, false, true, false, false, true, true,
                        false)), (String ((Ascii (true, false, false, false,
                        false, true, true, false)), (String ((Ascii (false,
                        false, true, true, false, true, true, false)),
                        (String ((Ascii (true, true, true, true, false, true,
                        true, false)), (String ((Ascii (false, true, true,
                        true, false, true, true, false)), (String ((Ascii
                        (true, false, true, false, false, true, true,
                        false)), EmptyString)))))))))))))))))))))
                 then header_attrs rest ver enc (Some
                        (bytes_eqb val0
                          (bS (String ((Ascii (true, false, false, true,
                            true, true, true, false)), (String ((Ascii (true,
                            false, true, false, false, true, true, false)),
                            (String ((Ascii (true, true, false, false, true,
                            true, true, false)), EmptyString)))))))))
                 else header_attrs rest ver enc sa
     | Pan s -> Pan s
     | Fuel -> Fuel)

(** val encoding_ok : n list -> bool **)

let encoding_ok e =
  (||)
    ((||)
      ((||)
        (bytes_eqb e
          (bS (String ((Ascii (true, false, true, false, true, true, true,
            false)), (String ((Ascii (false, false, true, false, true, true,
            true, false)), (String ((Ascii (false, true, true, false, false,
            true, true, false)), (String ((Ascii (true, false, true, true,
            false, true, false, false)), (String ((Ascii (false, false,
            false, true, true, true, false, false)), EmptyString))))))))))))
        (bytes_eqb e
          (bS (String ((Ascii (true, false, true, false, true, false, true,
            false)), (String ((Ascii (false, false, true, false, true, false,
            true, false)), (String ((Ascii (false, true, true, false, false,
            false, true, false)), (String ((Ascii (true, false, true, true,
            false, true, false, false)), (String ((Ascii (false, false,
            false, true, true, true, false, false)), EmptyString)))))))))))))
      (bytes_eqb e
        (bS (String ((Ascii (true, false, true, false, true, true, true,
          false)), (String ((Ascii (false, false, true, false, true, true,
          true, false)), (String ((Ascii (false, true, true, false, false,
          true, true, false)), (String ((Ascii (false, false, false, true,
          true, true, false, false)), EmptyString)))))))))))
    (bytes_eqb e
      (bS (String ((Ascii (true, false, true, false, true, false, true,
        false)), (String ((Ascii (false, false, true, false, true, false,
        true, false)), (String ((Ascii (false, true, true, false, false,
        false, true, false)), (String ((Ascii (false, false, false, true,
        true, true, false, false)), EmptyString))))))))))

(** val comment_end : nat -> n list -> nat -> nat option **)

let rec comment_end fuel rest k =
  match fuel with
  | O -> None
  | S f ->
    if Nat.ltb k (length rest)
    then if starts_with ((Npos (XI (XO (XI (XI (XO XH)))))) :: ((Npos (XI (XO
              (XI (XI (XO XH)))))) :: ((Npos (XO (XI (XI (XI (XI
              XH)))))) :: []))) (skipn (sub k (S (S O))) rest)
         then Some k
         else comment_end f rest (S k)
    else None

(** val ends_with : n list -> n list -> bool **)

let ends_with suf l =
  starts_with (rev suf) (rev l)

(** val lex_next : nat -> lstate -> lexout res **)

let rec lex_next fuel st =
  match st.l_deferred with
  | Some name ->
    Val (LOk (st.l_line, (EvEnd name), { l_rest = st.l_rest; l_line =
      st.l_line; l_deferred = None }))
  | None ->
    (match fuel with
     | O -> Fuel
     | S fuel' ->
       (match st.l_rest with
        | [] -> Val (LOk (st.l_line, EvEOF, st))
        | n0 :: tail ->
          (match n0 with
           | N0 ->
             let n1 =
               match position (N.eqb (Npos (XO (XO (XI (XI (XI XH)))))))
                       st.l_rest with
               | Some n1 -> n1
               | None -> length st.l_rest
             in
             let text = firstn n1 st.l_rest in
             let line' = N.add st.l_line (count_lines text) in
             let st' = { l_rest = (skipn n1 st.l_rest); l_line = line';
               l_deferred = None }
             in
             if forallb is_ws text
             then lex_next fuel' st'
             else Val (LOk (line', (EvChars text), st'))
           | Npos p ->
             (match p with
              | XO p0 ->
                (match p0 with
                 | XO p1 ->
                   (match p1 with
                    | XI p2 ->
                      (match p2 with
                       | XI p3 ->
                         (match p3 with
                          | XI p4 ->
                            (match p4 with
                             | XH ->
                               (match position
                                        (N.eqb (Npos (XO (XI (XI (XI (XI
                                          XH))))))) tail with
                                | Some findpos ->
                                  (match findpos with
                                   | O ->
                                     Val (LErr (st.l_line, InvalidElement))
                                   | S _ ->
                                     let inner = firstn findpos tail in
                                     let after = skipn (S findpos) tail in
                                     (match tail with
                                      | [] ->
                                        let is_end =
                                          N.eqb (last inner N0) (Npos (XI (XI
                                            (XI (XI (XO XH))))))
                                        in
                                        let text =
                                          if is_end
                                          then removelast inner
                                          else inner
                                        in
                                        (match position is_ws text with
                                         | Some sp ->
                                           let elemname = firstn sp text in
                                           let attributes = skipn (S sp) text
                                           in
                                           Val (LOk (st.l_line, (EvBegin
                                           (elemname, attributes)),
                                           { l_rest = after; l_line =
                                           (N.add st.l_line
                                             (count_lines text));
                                           l_deferred =
                                           (if is_end
                                            then Some elemname
                                            else None) }))
                                         | None ->
                                           let attributes = [] in
                                           Val (LOk (st.l_line, (EvBegin
                                           (text, attributes)), { l_rest =
                                           after; l_line =
                                           (N.add st.l_line
                                             (count_lines text));
                                           l_deferred =
                                           (if is_end then Some text else None) })))
                                      | n1 :: _ ->
                                        (match n1 with
                                         | N0 ->
                                           let is_end =
                                             N.eqb (last inner N0) (Npos (XI
                                               (XI (XI (XI (XO XH))))))
                                           in
                                           let text =
                                             if is_end
                                             then removelast inner
                                             else inner
                                           in
                                           (match position is_ws text with
                                            | Some sp ->
                                              let elemname = firstn sp text in
                                              let attributes =
                                                skipn (S sp) text
                                              in
                                              Val (LOk (st.l_line, (EvBegin
                                              (elemname, attributes)),
                                              { l_rest = after; l_line =
                                              (N.add st.l_line
                                                (count_lines text));
                                              l_deferred =
                                              (if is_end
                                               then Some elemname
                                               else None) }))
                                            | None ->
                                              let attributes = [] in
                                              Val (LOk (st.l_line, (EvBegin
                                              (text, attributes)), { l_rest =
                                              after; l_line =
                                              (N.add st.l_line
                                                (count_lines text));
                                              l_deferred =
                                              (if is_end
                                               then Some text
                                               else None) })))
                                         | Npos p5 ->
                                           (match p5 with
                                            | XI p6 ->
                                              (match p6 with
                                               | XI p7 ->
                                                 (match p7 with
                                                  | XI p8 ->
                                                    (match p8 with
                                                     | XI p9 ->
                                                       (match p9 with
                                                        | XI p10 ->
                                                          (match p10 with
                                                           | XH ->
                                                             if (||)
                                                                  (Nat.ltb
                                                                    findpos
                                                                    (S (S O)))
                                                                  (negb
                                                                    (N.eqb
                                                                    (last
                                                                    inner N0)
                                                                    (Npos (XI
                                                                    (XI (XI
                                                                    (XI (XI
                                                                    XH))))))))
                                                             then Val (LErr
                                                                    (st.l_line,
                                                                    InvalidProcessingInstruction))
                                                             else if 
                                                                    Nat.ltb
                                                                    findpos
                                                                    (S (S O))
                                                                  then 
                                                                    Pan
                                                                    (String
                                                                    ((Ascii
                                                                    (false,
                                                                    false,
                                                                    true,
                                                                    true,
                                                                    false,
                                                                    true,
                                                                    true,
                                                                    false)),
                                                                    (String
                                                                    ((Ascii
                                                                    (true,
                                                                    false,
                                                                    true,
                                                                    false,
                                                                    false,
                                                                    true,
                                                                    true,
                                                                    false)),
                                                                    (String
                                                                    ((Ascii
                                                                    (false,
                                                                    false,
                                                                    false,
                                                                    true,
                                                                    true,
                                                                    true,
                                                                    true,
                                                                    false)),
                                                                    (String
                                                                    ((Ascii
                                                                    (true,
                                                                    false,
                                                                    true,
                                                                    false,
                                                                    false,
                                                                    true,
                                                                    true,
                                                                    false)),
                                                                    (String
                                                                    ((Ascii
                                                                    (false,
                                                                    true,
                                                                    false,
                                                                    false,
                                                                    true,
                                                                    true,
                                                                    true,
                                                                    false)),
                                                                    (String
                                                                    ((Ascii
                                                                    (false,
                                                                    true,
                                                                    true,
                                                                    true,
                                                                    false,
                                                                    true,
                                                                    false,
                                                                    false)),
                                                                    (String
                                                                    ((Ascii
                                                                    (false,
                                                                    true,
                                                                    false,
                                                                    false,
                                                                    true,
                                                                    true,
                                                                    true,
                                                                    false)),
                                                                    (String
                                                                    ((Ascii
                                                                    (true,
                                                                    true,
                                                                    false,
                                                                    false,
                                                                    true,
                                                                    true,
                                                                    true,
                                                                    false)),
                                                                    (String
                                                                    ((Ascii
                                                                    (false,
                                                                    true,
                                                                    false,
                                                                    true,
                                                                    true,
                                                                    true,
                                                                    false,
                                                                    false)),
                                                                    (String
                                                                    ((Ascii
                                                                    (false,
                                                                    false,
                                                                    false,
                                                                    false,
                                                                    false,
                                                                    true,
                                                                    false,
                                                                    false)),
                                                                    (String
                                                                    ((Ascii
                                                                    (false,
                                                                    true,
                                                                    false,
                                                                    false,
                                                                    true,
                                                                    true,
                                                                    true,
                                                                    false)),
                                                                    (String
                                                                    ((Ascii
                                                                    (true,
                                                                    false,
                                                                    true,
                                                                    false,
                                                                    false,
                                                                    true,
                                                                    true,
                                                                    false)),
                                                                    (String
                                                                    ((Ascii
                                                                    (true,
                                                                    false,
                                                                    false,
                                                                    false,
                                                                    false,
                                                                    true,
                                                                    true,
                                                                    false)),
                                                                    (String
                                                                    ((Ascii
                                                                    (false,
                                                                    false,
                                                                    true,
                                                                    false,
                                                                    false,
                                                                    true,
                                                                    true,
                                                                    false)),
                                                                    (String
                                                                    ((Ascii
                                                                    (true,
                                                                    true,
                                                                    true,
                                                                    true,
                                                                    true,
                                                                    false,
                                                                    true,
                                                                    false)),
                                                                    (String
                                                                    ((Ascii
                                                                    (false,
                                                                    false,
                                                                    false,
                                                                    true,
                                                                    true,
                                                                    true,
                                                                    true,
                                                                    false)),
                                                                    (String
                                                                    ((Ascii
                                                                    (true,
                                                                    false,
                                                                    true,
                                                                    true,
                                                                    false,
                                                                    true,
                                                                    true,
                                                                    false)),
                                                                    (String
                                                                    ((Ascii
                                                                    (false,
                                                                    false,
                                                                    true,
                                                                    true,
                                                                    false,
                                                                    true,
                                                                    true,
                                                                    false)),
                                                                    (String
                                                                    ((Ascii
                                                                    (true,
                                                                    true,
                                                                    true,
                                                                    true,
                                                                    true,
                                                                    false,
                                                                    true,
                                                                    false)),
                                                                    (String
                                                                    ((Ascii
                                                                    (false,
                                                                    false,
                                                                    false,
                                                                    true,
                                                                    false,
                                                                    true,
                                                                    true,
                                                                    false)),
                                                                    (String
                                                                    ((Ascii
                                                                    (true,
                                                                    false,
                                                                    true,
                                                                    false,
                                                                    false,
                                                                    true,
                                                                    true,
                                                                    false)),
                                                                    (String
                                                                    ((Ascii
                                                                    (true,
                                                                    false,
                                                                    false,
                                                                    false,
                                                                    false,
                                                                    true,
                                                                    true,
                                                                    false)),
                                                                    (String
                                                                    ((Ascii
                                                                    (false,
                                                                    false,
                                                                    true,
                                                                    false,
                                                                    false,
                                                                    true,
                                                                    true,
                                                                    false)),
                                                                    (String
                                                                    ((Ascii
                                                                    (true,
                                                                    false,
                                                                    true,
                                                                    false,
                                                                    false,
                                                                    true,
                                                                    true,
                                                                    false)),
                                                                    (String
                                                                    ((Ascii
                                                                    (false,
                                                                    true,
                                                                    false,
                                                                    false,
                                                                    true,
                                                                    true,
                                                                    true,
                                                                    false)),
                                                                    (String
                                                                    ((Ascii
                                                                    (false,
                                                                    false,
                                                                    false,
                                                                    false,
                                                                    false,
                                                                    true,
                                                                    false,
                                                                    false)),
                                                                    (String
                                                                    ((Ascii
                                                                    (false,
                                                                    true,
                                                                    false,
                                                                    false,
                                                                    false,
                                                                    true,
                                                                    true,
                                                                    false)),
                                                                    (String
                                                                    ((Ascii
                                                                    (true,
                                                                    false,
                                                                    true,
                                                                    false,
                                                                    true,
                                                                    true,
                                                                    true,
                                                                    false)),
                                                                    (String
                                                                    ((Ascii
                                                                    (false,
                                                                    true,
                                                                    true,
                                                                    false,
                                                                    false,
                                                                    true,
                                                                    true,
                                                                    false)),
                                                                    (String
                                                                    ((Ascii
                                                                    (false,
                                                                    true,
                                                                    true,
                                                                    false,
                                                                    false,
                                                                    true,
                                                                    true,
                                                                    false)),
                                                                    (String
                                                                    ((Ascii
                                                                    (true,
                                                                    false,
                                                                    true,
                                                                    false,
                                                                    false,
                                                                    true,
                                                                    true,
                                                                    false)),
                                                                    (String
                                                                    ((Ascii
                                                                    (false,
                                                                    true,
                                                                    false,
                                                                    false,
                                                                    true,
                                                                    true,
                                                                    true,
                                                                    false)),
                                                                    (String
                                                                    ((Ascii
                                                                    (true,
                                                                    true,
                                                                    false,
                                                                    true,
                                                                    true,
                                                                    false,
                                                                    true,
                                                                    false)),
                                                                    (String
                                                                    ((Ascii
                                                                    (false,
                                                                    true,
                                                                    false,
                                                                    false,
                                                                    false,
                                                                    true,
                                                                    true,
                                                                    false)),
                                                                    (String
                                                                    ((Ascii
                                                                    (true,
                                                                    false,
                                                                    true,
                                                                    false,
                                                                    true,
                                                                    true,
                                                                    true,
                                                                    false)),
                                                                    (String
                                                                    ((Ascii
                                                                    (false,
                                                                    true,
                                                                    true,
                                                                    false,
                                                                    false,
                                                                    true,
                                                                    true,
                                                                    false)),
                                                                    (String
                                                                    ((Ascii
                                                                    (false,
                                                                    false,
                                                                    false,
                                                                    false,
                                                                    true,
                                                                    true,
                                                                    true,
                                                                    false)),
                                                                    (String
                                                                    ((Ascii
                                                                    (true,
                                                                    true,
                                                                    true,
                                                                    true,
                                                                    false,
                                                                    true,
                                                                    true,
                                                                    false)),
                                                                    (String
                                                                    ((Ascii
                                                                    (true,
                                                                    true,
                                                                    false,
                                                                    false,
                                                                    true,
                                                                    true,
                                                                    true,
                                                                    false)),
                                                                    (String
                                                                    ((Ascii
                                                                    (true,
                                                                    true,
                                                                    false,
                                                                    true,
                                                                    false,
                                                                    true,
                                                                    false,
                                                                    false)),
                                                                    (String
                                                                    ((Ascii
                                                                    (false,
                                                                    true,
                                                                    false,
                                                                    false,
                                                                    true,
                                                                    true,
                                                                    false,
                                                                    false)),
                                                                    (String
                                                                    ((Ascii
                                                                    (false,
                                                                    true,
                                                                    true,
                                                                    true,
                                                                    false,
                                                                    true,
                                                                    false,
                                                                    false)),
                                                                    (String
                                                                    ((Ascii
                                                                    (false,
                                                                    true,
                                                                    true,
                                                                    true,
                                                                    false,
                                                                    true,
                                                                    false,
                                                                    false)),
                                                                    (String
                                                                    ((Ascii
                                                                    (true,
                                                                    false,
                                                                    true,
                                                                    false,
                                                                    false,
                                                                    true,
                                                                    true,
                                                                    false)),
                                                                    (String
                                                                    ((Ascii
                                                                    (false,
                                                                    true,
                                                                    true,
                                                                    true,
                                                                    false,
                                                                    true,
                                                                    true,
                                                                    false)),
                                                                    (String
                                                                    ((Ascii
                                                                    (false,
                                                                    false,
                                                                    true,
                                                                    false,
                                                                    false,
                                                                    true,
                                                                    true,
                                                                    false)),
                                                                    (String
                                                                    ((Ascii
                                                                    (false,
                                                                    false,
                                                                    false,
                                                                    false,
                                                                    true,
                                                                    true,
                                                                    true,
                                                                    false)),
                                                                    (String
                                                                    ((Ascii
                                                                    (true,
                                                                    true,
                                                                    true,
                                                                    true,
                                                                    false,
                                                                    true,
                                                                    true,
                                                                    false)),
                                                                    (String
                                                                    ((Ascii
                                                                    (true,
                                                                    true,
                                                                    false,
                                                                    false,
                                                                    true,
                                                                    true,
                                                                    true,
                                                                    false)),
                                                                    (String
                                                                    ((Ascii
                                                                    (true,
                                                                    false,
                                                                    true,
                                                                    true,
                                                                    false,
                                                                    true,
                                                                    false,
                                                                    false)),
                                                                    (String
                                                                    ((Ascii
                                                                    (true,
                                                                    false,
                                                                    false,
                                                                    false,
                                                                    true,
                                                                    true,
                                                                    false,
                                                                    false)),
                                                                    (String
                                                                    ((Ascii
                                                                    (true,
                                                                    false,
                                                                    true,
                                                                    true,
                                                                    true,
                                                                    false,
                                                                    true,
                                                                    false)),
                                                                    EmptyString))))))))))))))))))))))))))))))))))))))))))))))))))))))))))))))))))))))))))))))))))))))))))))))))))))))))
                                                                  else 
                                                                    let text =
                                                                    firstn
                                                                    (sub
                                                                    findpos
                                                                    (S (S O)))
                                                                    (skipn (S
                                                                    O) inner)
                                                                    in
                                                                    let pieces =
                                                                    split_ws
                                                                    text
                                                                    in
                                                                    let elemname =
                                                                    hd []
                                                                    pieces
                                                                    in
                                                                    let line' =
                                                                    N.add
                                                                    st.l_line
                                                                    (count_lines
                                                                    text)
                                                                    in
                                                                    if 
                                                                    bytes_eqb
                                                                    elemname
                                                                    (bS
                                                                    (String
                                                                    ((Ascii
                                                                    (false,
                                                                    false,
                                                                    false,
                                                                    true,
                                                                    true,
                                                                    true,
                                                                    true,
                                                                    false)),
                                                                    (String
                                                                    ((Ascii
                                                                    (true,
                                                                    false,
                                                                    true,
                                                                    true,
                                                                    false,
                                                                    true,
                                                                    true,
                                                                    false)),
                                                                    (String
                                                                    ((Ascii
                                                                    (false,
                                                                    false,
                                                                    true,
                                                                    true,
                                                                    false,
                                                                    true,
                                                                    true,
                                                                    false)),
                                                                    EmptyString)))))))
                                                                    then 
                                                                    (match 
                                                                    header_attrs
                                                                    (tl
                                                                    pieces)
                                                                    [] [] None with
                                                                    | Val a ->
                                                                    let (
                                                                    p11, sa) =
                                                                    a
                                                                    in
                                                                    let (
                                                                    ver, enc) =
                                                                    p11
                                                                    in
                                                                    if 
                                                                    (||)
                                                                    (negb
                                                                    (bytes_eqb
                                                                    ver
                                                                    (bS
                                                                    (String
                                                                    ((Ascii
                                                                    (true,
                                                                    false,
                                                                    false,
                                                                    false,
                                                                    true,
                                                                    true,
                                                                    false,
                                                                    false)),
                                                                    (String
                                                                    ((Ascii
                                                                    (false,
                                                                    true,
                                                                    true,
                                                                    true,
                                                                    false,
                                                                    true,
                                                                    false,
                                                                    false)),
                                                                    (String
                                                                    ((Ascii
                                                                    (false,
                                                                    false,
                                                                    false,
                                                                    false,
                                                                    true,
                                                                    true,
                                                                    false,
                                                                    false)),
                                                                    EmptyString)))))))))
                                                                    (negb
                                                                    (encoding_ok
                                                                    enc))
                                                                    then 
                                                                    Val (LErr
                                                                    (st.l_line,
                                                                    InvalidXmlHeader))
                                                                    else 
                                                                    Val (LOk
                                                                    (line',
                                                                    (EvHeader
                                                                    sa),
                                                                    { l_rest =
                                                                    after;
                                                                    l_line =
                                                                    line';
                                                                    l_deferred =
                                                                    None }))
                                                                    | Pan s ->
                                                                    Pan s
                                                                    | Fuel ->
                                                                    Fuel)
                                                                    else 
                                                                    lex_next
                                                                    fuel'
                                                                    { l_rest =
                                                                    after;
                                                                    l_line =
                                                                    line';
                                                                    l_deferred =
                                                                    None }
                                                           | _ ->
                                                             let is_end =
                                                               N.eqb
                                                                 (last inner
                                                                   N0) (Npos
                                                                 (XI (XI (XI
                                                                 (XI (XO
                                                                 XH))))))
                                                             in
                                                             let text =
                                                               if is_end
                                                               then removelast
                                                                    inner
                                                               else inner
                                                             in
                                                             (match position
                                                                    is_ws text with
                                                              | Some sp ->
                                                                let elemname =
                                                                  firstn sp
                                                                    text
                                                                in
                                                                let attributes =
                                                                  skipn (S
                                                                    sp) text
                                                                in
                                                                Val (LOk
                                                                (st.l_line,
                                                                (EvBegin
                                                                (elemname,
                                                                attributes)),
                                                                { l_rest =
                                                                after;
                                                                l_line =
                                                                (N.add
                                                                  st.l_line
                                                                  (count_lines
                                                                    text));
                                                                l_deferred =
                                                                (if is_end
                                                                 then 
                                                                   Some
                                                                    elemname
                                                                 else None) }))
                                                              | None ->
                                                                let attributes =
                                                                  []
                                                                in
                                                                Val (LOk
                                                                (st.l_line,
                                                                (EvBegin
                                                                (text,
                                                                attributes)),
                                                                { l_rest =
                                                                after;
                                                                l_line =
                                                                (N.add
                                                                  st.l_line
                                                                  (count_lines
                                                                    text));
                                                                l_deferred =
                                                                (if is_end
                                                                 then 
                                                                   Some text
                                                                 else None) }))))
                                                        | XO p10 ->
                                                          (match p10 with
                                                           | XH ->
                                                             Val (LOk
                                                               (st.l_line,
                                                               (EvEnd
                                                               (skipn (S O)
                                                                 inner)),
                                                               { l_rest =
                                                               after;
                                                               l_line =
                                                               st.l_line;
                                                               l_deferred =
                                                               None }))
                                                           | _ ->
                                                             let is_end =
                                                               N.eqb
                                                                 (last inner
                                                                   N0) (Npos
                                                                 (XI (XI (XI
                                                                 (XI (XO
                                                                 XH))))))
                                                             in
                                                             let text =
                                                               if is_end
                                                               then removelast
                                                                    inner
                                                               else inner
                                                             in
                                                             (match position
                                                                    is_ws text with
                                                              | Some sp ->
                                                                let elemname =
                                                                  firstn sp
                                                                    text
                                                                in
                                                                let attributes =
                                                                  skipn (S
                                                                    sp) text
                                                                in
                                                                Val (LOk
                                                                (st.l_line,
                                                                (EvBegin
                                                                (elemname,
                                                                attributes)),
                                                                { l_rest =
                                                                after;
                                                                l_line =
                                                                (N.add
                                                                  st.l_line
                                                                  (count_lines
                                                                    text));
                                                                l_deferred =
                                                                (if is_end
                                                                 then 
                                                                   Some
                                                                    elemname
                                                                 else None) }))
                                                              | None ->
                                                                let attributes =
                                                                  []
                                                                in
                                                                Val (LOk
                                                                (st.l_line,
                                                                (EvBegin
                                                                (text,
                                                                attributes)),
                                                                { l_rest =
                                                                after;
                                                                l_line =
                                                                (N.add
                                                                  st.l_line
                                                                  (count_lines
                                                                    text));
                                                                l_deferred =
                                                                (if is_end
                                                                 then 
                                                                   Some text
                                                                 else None) }))))
                                                        | XH ->
                                                          let is_end =
                                                            N.eqb
                                                              (last inner N0)
                                                              (Npos (XI (XI
                                                              (XI (XI (XO
                                                              XH))))))
                                                          in
                                                          let text =
                                                            if is_end
                                                            then removelast
                                                                   inner
                                                            else inner
                                                          in
                                                          (match position
                                                                   is_ws text with
                                                           | Some sp ->
                                                             let elemname =
                                                               firstn sp text
                                                             in
                                                             let attributes =
                                                               skipn (S sp)
                                                                 text
                                                             in
                                                             Val (LOk
                                                             (st.l_line,
                                                             (EvBegin
                                                             (elemname,
                                                             attributes)),
                                                             { l_rest =
                                                             after; l_line =
                                                             (N.add st.l_line
                                                               (count_lines
                                                                 text));
                                                             l_deferred =
                                                             (if is_end
                                                              then Some
                                                                    elemname
                                                              else None) }))
                                                           | None ->
                                                             let attributes =
                                                               []
                                                             in
                                                             Val (LOk
                                                             (st.l_line,
                                                             (EvBegin (text,
                                                             attributes)),
                                                             { l_rest =
                                                             after; l_line =
                                                             (N.add st.l_line
                                                               (count_lines
                                                                 text));
                                                             l_deferred =
                                                             (if is_end
                                                              then Some text
                                                              else None) }))))
                                                     | _ ->
                                                       let is_end =
                                                         N.eqb
                                                           (last inner N0)
                                                           (Npos (XI (XI (XI
                                                           (XI (XO XH))))))
                                                       in
                                                       let text =
                                                         if is_end
                                                         then removelast inner
                                                         else inner
                                                       in
                                                       (match position is_ws
                                                                text with
                                                        | Some sp ->
                                                          let elemname =
                                                            firstn sp text
                                                          in
                                                          let attributes =
                                                            skipn (S sp) text
                                                          in
                                                          Val (LOk
                                                          (st.l_line,
                                                          (EvBegin (elemname,
                                                          attributes)),
                                                          { l_rest = after;
                                                          l_line =
                                                          (N.add st.l_line
                                                            (count_lines text));
                                                          l_deferred =
                                                          (if is_end
                                                           then Some elemname
                                                           else None) }))
                                                        | None ->
                                                          let attributes = []
                                                          in
                                                          Val (LOk
                                                          (st.l_line,
                                                          (EvBegin (text,
                                                          attributes)),
                                                          { l_rest = after;
                                                          l_line =
                                                          (N.add st.l_line
                                                            (count_lines text));
                                                          l_deferred =
                                                          (if is_end
                                                           then Some text
                                                           else None) }))))
                                                  | _ ->
                                                    let is_end =
                                                      N.eqb (last inner N0)
                                                        (Npos (XI (XI (XI (XI
                                                        (XO XH))))))
                                                    in
                                                    let text =
                                                      if is_end
                                                      then removelast inner
                                                      else inner
                                                    in
                                                    (match position is_ws text with
                                                     | Some sp ->
                                                       let elemname =
                                                         firstn sp text
                                                       in
                                                       let attributes =
                                                         skipn (S sp) text
                                                       in
                                                       Val (LOk (st.l_line,
                                                       (EvBegin (elemname,
                                                       attributes)),
                                                       { l_rest = after;
                                                       l_line =
                                                       (N.add st.l_line
                                                         (count_lines text));
                                                       l_deferred =
                                                       (if is_end
                                                        then Some elemname
                                                        else None) }))
                                                     | None ->
                                                       let attributes = [] in
                                                       Val (LOk (st.l_line,
                                                       (EvBegin (text,
                                                       attributes)),
                                                       { l_rest = after;
                                                       l_line =
                                                       (N.add st.l_line
                                                         (count_lines text));
                                                       l_deferred =
                                                       (if is_end
                                                        then Some text
                                                        else None) }))))
                                               | XO p7 ->
                                                 (match p7 with
                                                  | XO p8 ->
                                                    (match p8 with
                                                     | XO p9 ->
                                                       (match p9 with
                                                        | XO p10 ->
                                                          (match p10 with
                                                           | XH ->
                                                             let rest =
                                                               st.l_rest
                                                             in
                                                             (match comment_end
                                                                    (S
                                                                    (length
                                                                    rest))
                                                                    rest (S
                                                                    findpos) with
                                                              | Some k ->
                                                                let text =
                                                                  firstn k
                                                                    rest
                                                                in
                                                                if (||)
                                                                    ((||)
                                                                    (Nat.ltb
                                                                    k (S (S
                                                                    (S (S (S
                                                                    (S
                                                                    O)))))))
                                                                    (negb
                                                                    (starts_with
                                                                    ((Npos
                                                                    (XO (XO
                                                                    (XI (XI
                                                                    (XI
                                                                    XH)))))) :: ((Npos
                                                                    (XI (XO
                                                                    (XO (XO
                                                                    (XO
                                                                    XH)))))) :: ((Npos
                                                                    (XI (XO
                                                                    (XI (XI
                                                                    (XO
                                                                    XH)))))) :: ((Npos
                                                                    (XI (XO
                                                                    (XI (XI
                                                                    (XO
                                                                    XH)))))) :: []))))
                                                                    text)))
                                                                    (negb
                                                                    (ends_with
                                                                    ((Npos
                                                                    (XI (XO
                                                                    (XI (XI
                                                                    (XO
                                                                    XH)))))) :: ((Npos
                                                                    (XI (XO
                                                                    (XI (XI
                                                                    (XO
                                                                    XH)))))) :: []))
                                                                    text))
                                                                then 
                                                                  Val (LErr
                                                                    (st.l_line,
                                                                    InvalidComment))
                                                                else 
                                                                  let line' =
                                                                    N.add
                                                                    st.l_line
                                                                    (count_lines
                                                                    text)
                                                                  in
                                                                  Val (LOk
                                                                  (line',
                                                                  (EvComment
                                                                  (firstn
                                                                    (sub
                                                                    (sub k (S
                                                                    (S O)))
                                                                    (S (S (S
                                                                    (S O)))))
                                                                    (skipn (S
                                                                    (S (S (S
                                                                    O))))
                                                                    rest))),
                                                                  { l_rest =
                                                                  (skipn (S
                                                                    k) rest);
                                                                  l_line =
                                                                  line';
                                                                  l_deferred =
                                                                  None }))
                                                              | None ->
                                                                Val (LErr
                                                                  (st.l_line,
                                                                  InvalidComment)))
                                                           | _ ->
                                                             let is_end =
                                                               N.eqb
                                                                 (last inner
                                                                   N0) (Npos
                                                                 (XI (XI (XI
                                                                 (XI (XO
                                                                 XH))))))
                                                             in
                                                             let text =
                                                               if is_end
                                                               then removelast
                                                                    inner
                                                               else inner
                                                             in
                                                             (match position
                                                                    is_ws text with
                                                              | Some sp ->
                                                                let elemname =
                                                                  firstn sp
                                                                    text
                                                                in
                                                                let attributes =
                                                                  skipn (S
                                                                    sp) text
                                                                in
                                                                Val (LOk
                                                                (st.l_line,
                                                                (EvBegin
                                                                (elemname,
                                                                attributes)),
                                                                { l_rest =
                                                                after;
                                                                l_line =
                                                                (N.add
                                                                  st.l_line
                                                                  (count_lines
                                                                    text));
                                                                l_deferred =
                                                                (if is_end
                                                                 then 
                                                                   Some
                                                                    elemname
                                                                 else None) }))
                                                              | None ->
                                                                let attributes =
                                                                  []
                                                                in
                                                                Val (LOk
                                                                (st.l_line,
                                                                (EvBegin
                                                                (text,
                                                                attributes)),
                                                                { l_rest =
                                                                after;
                                                                l_line =
                                                                (N.add
                                                                  st.l_line
                                                                  (count_lines
                                                                    text));
                                                                l_deferred =
                                                                (if is_end
                                                                 then 
                                                                   Some text
                                                                 else None) }))))
                                                        | _ ->
                                                          let is_end =
                                                            N.eqb
                                                              (last inner N0)
                                                              (Npos (XI (XI
                                                              (XI (XI (XO
                                                              XH))))))
                                                          in
                                                          let text =
                                                            if is_end
                                                            then removelast
                                                                   inner
                                                            else inner
                                                          in
                                                          (match position
                                                                   is_ws text with
                                                           | Some sp ->
                                                             let elemname =
                                                               firstn sp text
                                                             in
                                                             let attributes =
                                                               skipn (S sp)
                                                                 text
                                                             in
                                                             Val (LOk
                                                             (st.l_line,
                                                             (EvBegin
                                                             (elemname,
                                                             attributes)),
                                                             { l_rest =
                                                             after; l_line =
                                                             (N.add st.l_line
                                                               (count_lines
                                                                 text));
                                                             l_deferred =
                                                             (if is_end
                                                              then Some
                                                                    elemname
                                                              else None) }))
                                                           | None ->
                                                             let attributes =
                                                               []
                                                             in
                                                             Val (LOk
                                                             (st.l_line,
                                                             (EvBegin (text,
                                                             attributes)),
                                                             { l_rest =
                                                             after; l_line =
                                                             (N.add st.l_line
                                                               (count_lines
                                                                 text));
                                                             l_deferred =
                                                             (if is_end
                                                              then Some text
                                                              else None) }))))
                                                     | _ ->
                                                       let is_end =
                                                         N.eqb
                                                           (last inner N0)
                                                           (Npos (XI (XI (XI
                                                           (XI (XO XH))))))
                                                       in
                                                       let text =
                                                         if is_end
                                                         then removelast inner
                                                         else inner
                                                       in
                                                       (match position is_ws
                                                                text with
                                                        | Some sp ->
                                                          let elemname =
                                                            firstn sp text
                                                          in
                                                          let attributes =
                                                            skipn (S sp) text
                                                          in
                                                          Val (LOk
                                                          (st.l_line,
                                                          (EvBegin (elemname,
                                                          attributes)),
                                                          { l_rest = after;
                                                          l_line =
                                                          (N.add st.l_line
                                                            (count_lines text));
                                                          l_deferred =
                                                          (if is_end
                                                           then Some elemname
                                                           else None) }))
                                                        | None ->
                                                          let attributes = []
                                                          in
                                                          Val (LOk
                                                          (st.l_line,
                                                          (EvBegin (text,
                                                          attributes)),
                                                          { l_rest = after;
                                                          l_line =
                                                          (N.add st.l_line
                                                            (count_lines text));
                                                          l_deferred =
                                                          (if is_end
                                                           then Some text
                                                           else None) }))))
                                                  | _ ->
                                                    let is_end =
                                                      N.eqb (last inner N0)
                                                        (Npos (XI (XI (XI (XI
                                                        (XO XH))))))
                                                    in
                                                    let text =
                                                      if is_end
                                                      then removelast inner
                                                      else inner
                                                    in
                                                    (match position is_ws text with
                                                     | Some sp ->
                                                       let elemname =
                                                         firstn sp text
                                                       in
                                                       let attributes =
                                                         skipn (S sp) text
                                                       in
                                                       Val (LOk (st.l_line,
                                                       (EvBegin (elemname,
                                                       attributes)),
                                                       { l_rest = after;
                                                       l_line =
                                                       (N.add st.l_line
                                                         (count_lines text));
                                                       l_deferred =
                                                       (if is_end
                                                        then Some elemname
                                                        else None) }))
                                                     | None ->
                                                       let attributes = [] in
                                                       Val (LOk (st.l_line,
                                                       (EvBegin (text,
                                                       attributes)),
                                                       { l_rest = after;
                                                       l_line =
                                                       (N.add st.l_line
                                                         (count_lines text));
                                                       l_deferred =
                                                       (if is_end
                                                        then Some text
                                                        else None) }))))
                                               | XH ->
                                                 let is_end =
                                                   N.eqb (last inner N0)
                                                     (Npos (XI (XI (XI (XI
                                                     (XO XH))))))
                                                 in
                                                 let text =
                                                   if is_end
                                                   then removelast inner
                                                   else inner
                                                 in
                                                 (match position is_ws text with
                                                  | Some sp ->
                                                    let elemname =
                                                      firstn sp text
                                                    in
                                                    let attributes =
                                                      skipn (S sp) text
                                                    in
                                                    Val (LOk (st.l_line,
                                                    (EvBegin (elemname,
                                                    attributes)), { l_rest =
                                                    after; l_line =
                                                    (N.add st.l_line
                                                      (count_lines text));
                                                    l_deferred =
                                                    (if is_end
                                                     then Some elemname
                                                     else None) }))
                                                  | None ->
                                                    let attributes = [] in
                                                    Val (LOk (st.l_line,
                                                    (EvBegin (text,
                                                    attributes)), { l_rest =
                                                    after; l_line =
                                                    (N.add st.l_line
                                                      (count_lines text));
                                                    l_deferred =
                                                    (if is_end
                                                     then Some text
                                                     else None) }))))
                                            | _ ->
                                              let is_end =
                                                N.eqb (last inner N0) (Npos
                                                  (XI (XI (XI (XI (XO XH))))))
                                              in
                                              let text =
                                                if is_end
                                                then removelast inner
                                                else inner
                                              in
                                              (match position is_ws text with
                                               | Some sp ->
                                                 let elemname = firstn sp text
                                                 in
                                                 let attributes =
                                                   skipn (S sp) text
                                                 in
                                                 Val (LOk (st.l_line,
                                                 (EvBegin (elemname,
                                                 attributes)), { l_rest =
                                                 after; l_line =
                                                 (N.add st.l_line
                                                   (count_lines text));
                                                 l_deferred =
                                                 (if is_end
                                                  then Some elemname
                                                  else None) }))
                                               | None ->
                                                 let attributes = [] in
                                                 Val (LOk (st.l_line,
                                                 (EvBegin (text,
                                                 attributes)), { l_rest =
                                                 after; l_line =
                                                 (N.add st.l_line
                                                   (count_lines text));
                                                 l_deferred =
                                                 (if is_end
                                                  then Some text
                                                  else None) })))))))
                                | None ->
                                  Val (LErr (st.l_line, IncompleteData)))
                             | _ ->
                               let n1 =
                                 match position
                                         (N.eqb (Npos (XO (XO (XI (XI (XI
                                           XH))))))) st.l_rest with
                                 | Some n1 -> n1
                                 | None -> length st.l_rest
                               in
                               let text = firstn n1 st.l_rest in
                               let line' = N.add st.l_line (count_lines text)
                               in
                               let st' = { l_rest = (skipn n1 st.l_rest);
                                 l_line = line'; l_deferred = None }
                               in
                               if forallb is_ws text
                               then lex_next fuel' st'
                               else Val (LOk (line', (EvChars text), st')))
                          | _ ->
                            let n1 =
                              match position
                                      (N.eqb (Npos (XO (XO (XI (XI (XI
                                        XH))))))) st.l_rest with
                              | Some n1 -> n1
                              | None -> length st.l_rest
                            in
                            let text = firstn n1 st.l_rest in
                            let line' = N.add st.l_line (count_lines text) in
                            let st' = { l_rest = (skipn n1 st.l_rest);
                              l_line = line'; l_deferred = None }
                            in
                            if forallb is_ws text
                            then lex_next fuel' st'
                            else Val (LOk (line', (EvChars text), st')))
                       | _ ->
                         let n1 =
                           match position
                                   (N.eqb (Npos (XO (XO (XI (XI (XI XH)))))))
                                   st.l_rest with
                           | Some n1 -> n1
                           | None -> length st.l_rest
                         in
                         let text = firstn n1 st.l_rest in
                         let line' = N.add st.l_line (count_lines text) in
                         let st' = { l_rest = (skipn n1 st.l_rest); l_line =
                           line'; l_deferred = None }
                         in
                         if forallb is_ws text
                         then lex_next fuel' st'
                         else Val (LOk (line', (EvChars text), st')))
                    | _ ->
                      let n1 =
                        match position
                                (N.eqb (Npos (XO (XO (XI (XI (XI XH)))))))
                                st.l_rest with
                        | Some n1 -> n1
                        | None -> length st.l_rest
                      in
                      let text = firstn n1 st.l_rest in
                      let line' = N.add st.l_line (count_lines text) in
                      let st' = { l_rest = (skipn n1 st.l_rest); l_line =
                        line'; l_deferred = None }
                      in
                      if forallb is_ws text
                      then lex_next fuel' st'
                      else Val (LOk (line', (EvChars text), st')))
                 | _ ->
                   let n1 =
                     match position
                             (N.eqb (Npos (XO (XO (XI (XI (XI XH)))))))
                             st.l_rest with
                     | Some n1 -> n1
                     | None -> length st.l_rest
                   in
                   let text = firstn n1 st.l_rest in
                   let line' = N.add st.l_line (count_lines text) in
                   let st' = { l_rest = (skipn n1 st.l_rest); l_line = line';
                     l_deferred = None }
                   in
                   if forallb is_ws text
                   then lex_next fuel' st'
                   else Val (LOk (line', (EvChars text), st')))
              | _ ->
                let n1 =
                  match position (N.eqb (Npos (XO (XO (XI (XI (XI XH)))))))
                          st.l_rest with
                  | Some n1 -> n1
                  | None -> length st.l_rest
                in
                let text = firstn n1 st.l_rest in
                let line' = N.add st.l_line (count_lines text) in
                let st' = { l_rest = (skipn n1 st.l_rest); l_line = line';
                  l_deferred = None }
                in
                if forallb is_ws text
                then lex_next fuel' st'
                else Val (LOk (line', (EvChars text), st'))))))

(** val lex_fuel : lstate -> nat **)

let lex_fuel st =
  S (length st.l_rest)

(** val next : lstate -> lexout res **)

let next st =
  lex_next (lex_fuel st) st

(** val ver_enum : (string * n) list **)

let ver_enum =
  ((String ((Ascii (true, false, false, false, false, false, true, false)),
    (String ((Ascii (true, false, true, false, true, true, true, false)),
    (String ((Ascii (false, false, true, false, true, true, true, false)),
    (String ((Ascii (true, true, true, true, false, true, true, false)),
    (String ((Ascii (true, true, false, false, true, true, true, false)),
    (String ((Ascii (true, false, false, false, false, true, true, false)),
    (String ((Ascii (false, true, false, false, true, true, true, false)),
    (String ((Ascii (true, true, true, true, true, false, true, false)),
    (String ((Ascii (false, false, true, false, true, true, false, false)),
    (String ((Ascii (true, true, true, true, true, false, true, false)),
    (String ((Ascii (false, false, false, false, true, true, false, false)),
    (String ((Ascii (true, true, true, true, true, false, true, false)),
    (String ((Ascii (true, false, false, false, true, true, false, false)),
    EmptyString)))))))))))))))))))))))))), (Npos XH)) :: (((String ((Ascii
    (true, false, false, false, false, false, true, false)), (String ((Ascii
    (true, false, true, false, true, true, true, false)), (String ((Ascii
    (false, false, true, false, true, true, true, false)), (String ((Ascii
    (true, true, true, true, false, true, true, false)), (String ((Ascii
    (true, true, false, false, true, true, true, false)), (String ((Ascii
    (true, false, false, false, false, true, true, false)), (String ((Ascii
    (false, true, false, false, true, true, true, false)), (String ((Ascii
    (true, true, true, true, true, false, true, false)), (String ((Ascii
    (false, false, true, false, true, true, false, false)), (String ((Ascii
    (true, true, true, true, true, false, true, false)), (String ((Ascii
    (false, false, false, false, true, true, false, false)), (String ((Ascii
    (true, true, true, true, true, false, true, false)), (String ((Ascii
    (false, true, false, false, true, true, false, false)),
    EmptyString)))))))))))))))))))))))))), (Npos (XO XH))) :: (((String
    ((Ascii (true, false, false, false, false, false, true, false)), (String
    ((Ascii (true, false, true, false, true, true, true, false)), (String
    ((Ascii (false, false, true, false, true, true, true, false)), (String
    ((Ascii (true, true, true, true, false, true, true, false)), (String
    ((Ascii (true, true, false, false, true, true, true, false)), (String
    ((Ascii (true, false, false, false, false, true, true, false)), (String
    ((Ascii (false, true, false, false, true, true, true, false)), (String
    ((Ascii (true, true, true, true, true, false, true, false)), (String
    ((Ascii (false, false, true, false, true, true, false, false)), (String
    ((Ascii (true, true, true, true, true, false, true, false)), (String
    ((Ascii (false, false, false, false, true, true, false, false)), (String
    ((Ascii (true, true, true, true, true, false, true, false)), (String
    ((Ascii (true, true, false, false, true, true, false, false)),
    EmptyString)))))))))))))))))))))))))), (Npos (XO (XO XH)))) :: (((String
    ((Ascii (true, false, false, false, false, false, true, false)), (String
    ((Ascii (true, false, true, false, true, true, true, false)), (String
    ((Ascii (false, false, true, false, true, true, true, false)), (String
    ((Ascii (true, true, true, true, false, true, true, false)), (String
    ((Ascii (true, true, false, false, true, true, true, false)), (String
    ((Ascii (true, false, false, false, false, true, true, false)), (String
    ((Ascii (false, true, false, false, true, true, true, false)), (String
    ((Ascii (true, true, true, true, true, false, true, false)), (String
    ((Ascii (false, false, true, false, true, true, false, false)), (String
    ((Ascii (true, true, true, true, true, false, true, false)), (String
    ((Ascii (true, false, false, false, true, true, false, false)), (String
    ((Ascii (true, true, true, true, true, false, true, false)), (String
    ((Ascii (true, false, false, false, true, true, false, false)),
    EmptyString)))))))))))))))))))))))))), (Npos (XO (XO (XO
    XH))))) :: (((String ((Ascii (true, false, false, false, false, false,
    true, false)), (String ((Ascii (true, false, true, false, true, true,
    true, false)), (String ((Ascii (false, false, true, false, true, true,
    true, false)), (String ((Ascii (true, true, true, true, false, true,
    true, false)), (String ((Ascii (true, true, false, false, true, true,
    true, false)), (String ((Ascii (true, false, false, false, false, true,
    true, false)), (String ((Ascii (false, true, false, false, true, true,
    true, false)), (String ((Ascii (true, true, true, true, true, false,
    true, false)), (String ((Ascii (false, false, true, false, true, true,
    false, false)), (String ((Ascii (true, true, true, true, true, false,
    true, false)), (String ((Ascii (true, false, false, false, true, true,
    false, false)), (String ((Ascii (true, true, true, true, true, false,
    true, false)), (String ((Ascii (false, true, false, false, true, true,
    false, false)), EmptyString)))))))))))))))))))))))))), (Npos (XO (XO (XO
    (XO XH)))))) :: (((String ((Ascii (true, false, false, false, false,
    false, true, false)), (String ((Ascii (true, false, true, false, true,
    true, true, false)), (String ((Ascii (false, false, true, false, true,
    true, true, false)), (String ((Ascii (true, true, true, true, false,
    true, true, false)), (String ((Ascii (true, true, false, false, true,
    true, true, false)), (String ((Ascii (true, false, false, false, false,
    true, true, false)), (String ((Ascii (false, true, false, false, true,
    true, true, false)), (String ((Ascii (true, true, true, true, true,
    false, true, false)), (String ((Ascii (false, false, true, false, true,
    true, false, false)), (String ((Ascii (true, true, true, true, true,
    false, true, false)), (String ((Ascii (true, false, false, false, true,
    true, false, false)), (String ((Ascii (true, true, true, true, true,
    false, true, false)), (String ((Ascii (true, true, false, false, true,
    true, false, false)), EmptyString)))))))))))))))))))))))))), (Npos (XO
    (XO (XO (XO (XO XH))))))) :: (((String ((Ascii (true, false, false,
    false, false, false, true, false)), (String ((Ascii (true, false, true,
    false, true, true, true, false)), (String ((Ascii (false, false, true,
    false, true, true, true, false)), (String ((Ascii (true, true, true,
    true, false, true, true, false)), (String ((Ascii (true, true, false,
    false, true, true, true, false)), (String ((Ascii (true, false, false,
    false, false, true, true, false)), (String ((Ascii (false, true, false,
    false, true, true, true, false)), (String ((Ascii (true, true, true,
    true, true, false, true, false)), (String ((Ascii (false, false, true,
    false, true, true, false, false)), (String ((Ascii (true, true, true,
    true, true, false, true, false)), (String ((Ascii (false, true, false,
    false, true, true, false, false)), (String ((Ascii (true, true, true,
    true, true, false, true, false)), (String ((Ascii (true, false, false,
    false, true, true, false, false)), EmptyString)))))))))))))))))))))))))),
    (Npos (XO (XO (XO (XO (XO (XO XH)))))))) :: (((String ((Ascii (true,
    false, false, false, false, false, true, false)), (String ((Ascii (true,
    false, true, false, true, true, true, false)), (String ((Ascii (false,
    false, true, false, true, true, true, false)), (String ((Ascii (true,
    true, true, true, false, true, true, false)), (String ((Ascii (true,
    true, false, false, true, true, true, false)), (String ((Ascii (true,
    false, false, false, false, true, true, false)), (String ((Ascii (false,
    true, false, false, true, true, true, false)), (String ((Ascii (true,
    true, true, true, true, false, true, false)), (String ((Ascii (false,
    false, true, false, true, true, false, false)), (String ((Ascii (true,
    true, true, true, true, false, true, false)), (String ((Ascii (false,
    true, false, false, true, true, false, false)), (String ((Ascii (true,
    true, true, true, true, false, true, false)), (String ((Ascii (false,
    true, false, false, true, true, false, false)),
    EmptyString)))))))))))))))))))))))))), (Npos (XO (XO (XO (XO (XO (XO (XO
    XH))))))))) :: (((String ((Ascii (true, false, false, false, false,
    false, true, false)), (String ((Ascii (true, false, true, false, true,
    true, true, false)), (String ((Ascii (false, false, true, false, true,
    true, true, false)), (String ((Ascii (true, true, true, true, false,
    true, true, false)), (String ((Ascii (true, true, false, false, true,
    true, true, false)), (String ((Ascii (true, false, false, false, false,
    true, true, false)), (String ((Ascii (false, true, false, false, true,
    true, true, false)), (String ((Ascii (true, true, true, true, true,
    false, true, false)), (String ((Ascii (false, false, true, false, true,
    true, false, false)), (String ((Ascii (true, true, true, true, true,
    false, true, false)), (String ((Ascii (true, true, false, false, true,
    true, false, false)), (String ((Ascii (true, true, true, true, true,
    false, true, false)), (String ((Ascii (false, false, false, false, true,
    true, false, false)), EmptyString)))))))))))))))))))))))))), (Npos (XO
    (XO (XO (XO (XO (XO (XO (XO XH)))))))))) :: (((String ((Ascii (true,
    false, false, false, false, false, true, false)), (String ((Ascii (true,
    false, true, false, true, true, true, false)), (String ((Ascii (false,
    false, true, false, true, true, true, false)), (String ((Ascii (true,
    true, true, true, false, true, true, false)), (String ((Ascii (true,
    true, false, false, true, true, true, false)), (String ((Ascii (true,
    false, false, false, false, true, true, false)), (String ((Ascii (false,
    true, false, false, true, true, true, false)), (String ((Ascii (true,
    true, true, true, true, false, true, false)), (String ((Ascii (false,
    false, false, false, true, true, false, false)), (String ((Ascii (false,
    false, false, false, true, true, false, false)), (String ((Ascii (false,
    false, false, false, true, true, false, false)), (String ((Ascii (false,
    false, true, false, true, true, false, false)), (String ((Ascii (false,
    true, false, false, true, true, false, false)),
    EmptyString)))))))))))))))))))))))))), (Npos (XO (XO (XO (XO (XO (XO (XO
    (XO (XO XH))))))))))) :: (((String ((Ascii (true, false, false, false,
    false, false, true, false)), (String ((Ascii (true, false, true, false,
    true, true, true, false)), (String ((Ascii (false, false, true, false,
    true, true, true, false)), (String ((Ascii (true, true, true, true,
    false, true, true, false)), (String ((Ascii (true, true, false, false,
    true, true, true, false)), (String ((Ascii (true, false, false, false,
    false, true, true, false)), (String ((Ascii (false, true, false, false,
    true, true, true, false)), (String ((Ascii (true, true, true, true, true,
    false, true, false)), (String ((Ascii (false, false, false, false, true,
    true, false, false)), (String ((Ascii (false, false, false, false, true,
    true, false, false)), (String ((Ascii (false, false, false, false, true,
    true, false, false)), (String ((Ascii (false, false, true, false, true,
    true, false, false)), (String ((Ascii (true, true, false, false, true,
    true, false, false)), EmptyString)))))))))))))))))))))))))), (Npos (XO
    (XO (XO (XO (XO (XO (XO (XO (XO (XO XH)))))))))))) :: (((String ((Ascii
    (true, false, false, false, false, false, true, false)), (String ((Ascii
    (true, false, true, false, true, true, true, false)), (String ((Ascii
    (false, false, true, false, true, true, true, false)), (String ((Ascii
    (true, true, true, true, false, true, true, false)), (String ((Ascii
    (true, true, false, false, true, true, true, false)), (String ((Ascii
    (true, false, false, false, false, true, true, false)), (String ((Ascii
    (false, true, false, false, true, true, true, false)), (String ((Ascii
    (true, true, true, true, true, false, true, false)), (String ((Ascii
    (false, false, false, false, true, true, false, false)), (String ((Ascii
    (false, false, false, false, true, true, false, false)), (String ((Ascii
    (false, false, false, false, true, true, false, false)), (String ((Ascii
    (false, false, true, false, true, true, false, false)), (String ((Ascii
    (false, false, true, false, true, true, false, false)),
    EmptyString)))))))))))))))))))))))))), (Npos (XO (XO (XO (XO (XO (XO (XO
    (XO (XO (XO (XO XH))))))))))))) :: (((String ((Ascii (true, false, false,
    false, false, false, true, false)), (String ((Ascii (true, false, true,
    false, true, true, true, false)), (String ((Ascii (false, false, true,
    false, true, true, true, false)), (String ((Ascii (true, true, true,
    true, false, true, true, false)), (String ((Ascii (true, true, false,
    false, true, true, true, false)), (String ((Ascii (true, false, false,
    false, false, true, true, false)), (String ((Ascii (false, true, false,
    false, true, true, true, false)), (String ((Ascii (true, true, true,
    true, true, false, true, false)), (String ((Ascii (false, false, false,
    false, true, true, false, false)), (String ((Ascii (false, false, false,
    false, true, true, false, false)), (String ((Ascii (false, false, false,
    false, true, true, false, false)), (String ((Ascii (false, false, true,
    false, true, true, false, false)), (String ((Ascii (true, false, true,
    false, true, true, false, false)), EmptyString)))))))))))))))))))))))))),
    (Npos (XO (XO (XO (XO (XO (XO (XO (XO (XO (XO (XO (XO
    XH)))))))))))))) :: (((String ((Ascii (true, false, false, false, false,
    false, true, false)), (String ((Ascii (true, false, true, false, true,
    true, true, false)), (String ((Ascii (false, false, true, false, true,
    true, true, false)), (String ((Ascii (true, true, true, true, false,
    true, true, false)), (String ((Ascii (true, true, false, false, true,
    true, true, false)), (String ((Ascii (true, false, false, false, false,
    true, true, false)), (String ((Ascii (false, true, false, false, true,
    true, true, false)), (String ((Ascii (true, true, true, true, true,
    false, true, false)), (String ((Ascii (false, false, false, false, true,
    true, false, false)), (String ((Ascii (false, false, false, false, true,
    true, false, false)), (String ((Ascii (false, false, false, false, true,
    true, false, false)), (String ((Ascii (false, false, true, false, true,
    true, false, false)), (String ((Ascii (false, true, true, false, true,
    true, false, false)), EmptyString)))))))))))))))))))))))))), (Npos (XO
    (XO (XO (XO (XO (XO (XO (XO (XO (XO (XO (XO (XO
    XH))))))))))))))) :: (((String ((Ascii (true, false, false, false, false,
    false, true, false)), (String ((Ascii (true, false, true, false, true,
    true, true, false)), (String ((Ascii (false, false, true, false, true,
    true, true, false)), (String ((Ascii (true, true, true, true, false,
    true, true, false)), (String ((Ascii (true, true, false, false, true,
    true, true, false)), (String ((Ascii (true, false, false, false, false,
    true, true, false)), (String ((Ascii (false, true, false, false, true,
    true, true, false)), (String ((Ascii (true, true, true, true, true,
    false, true, false)), (String ((Ascii (false, false, false, false, true,
    true, false, false)), (String ((Ascii (false, false, false, false, true,
    true, false, false)), (String ((Ascii (false, false, false, false, true,
    true, false, false)), (String ((Ascii (false, false, true, false, true,
    true, false, false)), (String ((Ascii (true, true, true, false, true,
    true, false, false)), EmptyString)))))))))))))))))))))))))), (Npos (XO
    (XO (XO (XO (XO (XO (XO (XO (XO (XO (XO (XO (XO (XO
    XH)))))))))))))))) :: (((String ((Ascii (true, false, false, false,
    false, false, true, false)), (String ((Ascii (true, false, true, false,
    true, true, true, false)), (String ((Ascii (false, false, true, false,
    true, true, true, false)), (String ((Ascii (true, true, true, true,
    false, true, true, false)), (String ((Ascii (true, true, false, false,
    true, true, true, false)), (String ((Ascii (true, false, false, false,
    false, true, true, false)), (String ((Ascii (false, true, false, false,
    true, true, true, false)), (String ((Ascii (true, true, true, true, true,
    false, true, false)), (String ((Ascii (false, false, false, false, true,
    true, false, false)), (String ((Ascii (false, false, false, false, true,
    true, false, false)), (String ((Ascii (false, false, false, false, true,
    true, false, false)), (String ((Ascii (false, false, true, false, true,
    true, false, false)), (String ((Ascii (false, false, false, true, true,
    true, false, false)), EmptyString)))))))))))))))))))))))))), (Npos (XO
    (XO (XO (XO (XO (XO (XO (XO (XO (XO (XO (XO (XO (XO (XO
    XH))))))))))))))))) :: (((String ((Ascii (true, false, false, false,
    false, false, true, false)), (String ((Ascii (true, false, true, false,
    true, true, true, false)), (String ((Ascii (false, false, true, false,
    true, true, true, false)), (String ((Ascii (true, true, true, true,
    false, true, true, false)), (String ((Ascii (true, true, false, false,
    true, true, true, false)), (String ((Ascii (true, false, false, false,
    false, true, true, false)), (String ((Ascii (false, true, false, false,
    true, true, true, false)), (String ((Ascii (true, true, true, true, true,
    false, true, false)), (String ((Ascii (false, false, false, false, true,
    true, false, false)), (String ((Ascii (false, false, false, false, true,
    true, false, false)), (String ((Ascii (false, false, false, false, true,
    true, false, false)), (String ((Ascii (false, false, true, false, true,
    true, false, false)), (String ((Ascii (true, false, false, true, true,
    true, false, false)), EmptyString)))))))))))))))))))))))))), (Npos (XO
    (XO (XO (XO (XO (XO (XO (XO (XO (XO (XO (XO (XO (XO (XO (XO
    XH)))))))))))))))))) :: (((String ((Ascii (true, false, false, false,
    false, false, true, false)), (String ((Ascii (true, false, true, false,
    true, true, true, false)), (String ((Ascii (false, false, true, false,
    true, true, true, false)), (String ((Ascii (true, true, true, true,
    false, true, true, false)), (String ((Ascii (true, true, false, false,
    true, true, true, false)), (String ((Ascii (true, false, false, false,
    false, true, true, false)), (String ((Ascii (false, true, false, false,
    true, true, true, false)), (String ((Ascii (true, true, true, true, true,
    false, true, false)), (String ((Ascii (false, false, false, false, true,
    true, false, false)), (String ((Ascii (false, false, false, false, true,
    true, false, false)), (String ((Ascii (false, false, false, false, true,
    true, false, false)), (String ((Ascii (true, false, true, false, true,
    true, false, false)), (String ((Ascii (false, false, false, false, true,
    true, false, false)), EmptyString)))))))))))))))))))))))))), (Npos (XO
    (XO (XO (XO (XO (XO (XO (XO (XO (XO (XO (XO (XO (XO (XO (XO (XO
    XH))))))))))))))))))) :: (((String ((Ascii (true, false, false, false,
    false, false, true, false)), (String ((Ascii (true, false, true, false,
    true, true, true, false)), (String ((Ascii (false, false, true, false,
    true, true, true, false)), (String ((Ascii (true, true, true, true,
    false, true, true, false)), (String ((Ascii (true, true, false, false,
    true, true, true, false)), (String ((Ascii (true, false, false, false,
    false, true, true, false)), (String ((Ascii (false, true, false, false,
    true, true, true, false)), (String ((Ascii (true, true, true, true, true,
    false, true, false)), (String ((Ascii (false, false, false, false, true,
    true, false, false)), (String ((Ascii (false, false, false, false, true,
    true, false, false)), (String ((Ascii (false, false, false, false, true,
    true, false, false)), (String ((Ascii (true, false, true, false, true,
    true, false, false)), (String ((Ascii (true, false, false, false, true,
    true, false, false)), EmptyString)))))))))))))))))))))))))), (Npos (XO
    (XO (XO (XO (XO (XO (XO (XO (XO (XO (XO (XO (XO (XO (XO (XO (XO (XO
    XH)))))))))))))))))))) :: (((String ((Ascii (true, false, false, false,
    false, false, true, false)), (String ((Ascii (true, false, true, false,
    true, true, true, false)), (String ((Ascii (false, false, true, false,
    true, true, true, false)), (String ((Ascii (true, true, true, true,
    false, true, true, false)), (String ((Ascii (true, true, false, false,
    true, true, true, false)), (String ((Ascii (true, false, false, false,
    false, true, true, false)), (String ((Ascii (false, true, false, false,
    true, true, true, false)), (String ((Ascii (true, true, true, true, true,
    false, true, false)), (String ((Ascii (false, false, false, false, true,
    true, false, false)), (String ((Ascii (false, false, false, false, true,
    true, false, false)), (String ((Ascii (false, false, false, false, true,
    true, false, false)), (String ((Ascii (true, false, true, false, true,
    true, false, false)), (String ((Ascii (false, true, false, false, true,
    true, false, false)), EmptyString)))))))))))))))))))))))))), (Npos (XO
    (XO (XO (XO (XO (XO (XO (XO (XO (XO (XO (XO (XO (XO (XO (XO (XO (XO (XO
    XH))))))))))))))))))))) :: (((String ((Ascii (true, false, false, false,
    false, false, true, false)), (String ((Ascii (true, false, true, false,
    true, true, true, false)), (String ((Ascii (false, false, true, false,
    true, true, true, false)), (String ((Ascii (true, true, true, true,
    false, true, true, false)), (String ((Ascii (true, true, false, false,
    true, true, true, false)), (String ((Ascii (true, false, false, false,
    false, true, true, false)), (String ((Ascii (false, true, false, false,
    true, true, true, false)), (String ((Ascii (true, true, true, true, true,
    false, true, false)), (String ((Ascii (false, false, false, false, true,
    true, false, false)), (String ((Ascii (false, false, false, false, true,
    true, false, false)), (String ((Ascii (false, false, false, false, true,
    true, false, false)), (String ((Ascii (true, false, true, false, true,
    true, false, false)), (String ((Ascii (true, true, false, false, true,
    true, false, false)), EmptyString)))))))))))))))))))))))))), (Npos (XO
    (XO (XO (XO (XO (XO (XO (XO (XO (XO (XO (XO (XO (XO (XO (XO (XO (XO (XO
    (XO XH)))))))))))))))))))))) :: []))))))))))))))))))))

(** val ver_filename : (n * string) list **)

let ver_filename =
  (N0, (String ((Ascii (true, false, false, false, false, false, true,
    false)), (String ((Ascii (true, false, true, false, true, false, true,
    false)), (String ((Ascii (false, false, true, false, true, false, true,
    false)), (String ((Ascii (true, true, true, true, false, false, true,
    false)), (String ((Ascii (true, true, false, false, true, false, true,
    false)), (String ((Ascii (true, false, false, false, false, false, true,
    false)), (String ((Ascii (false, true, false, false, true, false, true,
    false)), (String ((Ascii (true, true, true, true, true, false, true,
    false)), (String ((Ascii (false, false, true, false, true, true, false,
    false)), (String ((Ascii (true, false, true, true, false, true, false,
    false)), (String ((Ascii (false, false, false, false, true, true, false,
    false)), (String ((Ascii (true, false, true, true, false, true, false,
    false)), (String ((Ascii (true, false, false, false, true, true, false,
    false)), (String ((Ascii (false, true, true, true, false, true, false,
    false)), (String ((Ascii (false, false, false, true, true, true, true,
    false)), (String ((Ascii (true, true, false, false, true, true, true,
    false)), (String ((Ascii (false, false, true, false, false, true, true,
    false)), EmptyString))))))))))))))))))))))))))))))))))) :: (((Npos XH),
    (String ((Ascii (true, false, false, false, false, false, true, false)),
    (String ((Ascii (true, false, true, false, true, false, true, false)),
    (String ((Ascii (false, false, true, false, true, false, true, false)),
    (String ((Ascii (true, true, true, true, false, false, true, false)),
    (String ((Ascii (true, true, false, false, true, false, true, false)),
    (String ((Ascii (true, false, false, false, false, false, true, false)),
    (String ((Ascii (false, true, false, false, true, false, true, false)),
    (String ((Ascii (true, true, true, true, true, false, true, false)),
    (String ((Ascii (false, false, true, false, true, true, false, false)),
    (String ((Ascii (true, false, true, true, false, true, false, false)),
    (String ((Ascii (false, false, false, false, true, true, false, false)),
    (String ((Ascii (true, false, true, true, false, true, false, false)),
    (String ((Ascii (false, true, false, false, true, true, false, false)),
    (String ((Ascii (false, true, true, true, false, true, false, false)),
    (String ((Ascii (false, false, false, true, true, true, true, false)),
    (String ((Ascii (true, true, false, false, true, true, true, false)),
    (String ((Ascii (false, false, true, false, false, true, true, false)),
    EmptyString))))))))))))))))))))))))))))))))))) :: (((Npos (XO XH)),
    (String ((Ascii (true, false, false, false, false, false, true, false)),
    (String ((Ascii (true, false, true, false, true, false, true, false)),
    (String ((Ascii (false, false, true, false, true, false, true, false)),
    (String ((Ascii (true, true, true, true, false, false, true, false)),
    (String ((Ascii (true, true, false, false, true, false, true, false)),
    (String ((Ascii (true, false, false, false, false, false, true, false)),
    (String ((Ascii (false, true, false, false, true, false, true, false)),
    (String ((Ascii (true, true, true, true, true, false, true, false)),
    (String ((Ascii (false, false, true, false, true, true, false, false)),
    (String ((Ascii (true, false, true, true, false, true, false, false)),
    (String ((Ascii (false, false, false, false, true, true, false, false)),
    (String ((Ascii (true, false, true, true, false, true, false, false)),
    (String ((Ascii (true, true, false, false, true, true, false, false)),
    (String ((Ascii (false, true, true, true, false, true, false, false)),
    (String ((Ascii (false, false, false, true, true, true, true, false)),
    (String ((Ascii (true, true, false, false, true, true, true, false)),
    (String ((Ascii (false, false, true, false, false, true, true, false)),
    EmptyString))))))))))))))))))))))))))))))))))) :: (((Npos (XI XH)),
    (String ((Ascii (true, false, false, false, false, false, true, false)),
    (String ((Ascii (true, false, true, false, true, false, true, false)),
    (String ((Ascii (false, false, true, false, true, false, true, false)),
    (String ((Ascii (true, true, true, true, false, false, true, false)),
    (String ((Ascii (true, true, false, false, true, false, true, false)),
    (String ((Ascii (true, false, false, false, false, false, true, false)),
    (String ((Ascii (false, true, false, false, true, false, true, false)),
    (String ((Ascii (true, true, true, true, true, false, true, false)),
    (String ((Ascii (false, false, true, false, true, true, false, false)),
    (String ((Ascii (true, false, true, true, false, true, false, false)),
    (String ((Ascii (true, false, false, false, true, true, false, false)),
    (String ((Ascii (true, false, true, true, false, true, false, false)),
    (String ((Ascii (true, false, false, false, true, true, false, false)),
    (String ((Ascii (false, true, true, true, false, true, false, false)),
    (String ((Ascii (false, false, false, true, true, true, true, false)),
    (String ((Ascii (true, true, false, false, true, true, true, false)),
    (String ((Ascii (false, false, true, false, false, true, true, false)),
    EmptyString))))))))))))))))))))))))))))))))))) :: (((Npos (XO (XO XH))),
    (String ((Ascii (true, false, false, false, false, false, true, false)),
    (String ((Ascii (true, false, true, false, true, false, true, false)),
    (String ((Ascii (false, false, true, false, true, false, true, false)),
    (String ((Ascii (true, true, true, true, false, false, true, false)),
    (String ((Ascii (true, true, false, false, true, false, true, false)),
    (String ((Ascii (true, false, false, false, false, false, true, false)),
    (String ((Ascii (false, true, false, false, true, false, true, false)),
    (String ((Ascii (true, true, true, true, true, false, true, false)),
    (String ((Ascii (false, false, true, false, true, true, false, false)),
    (String ((Ascii (true, false, true, true, false, true, false, false)),
    (String ((Ascii (true, false, false, false, true, true, false, false)),
    (String ((Ascii (true, false, true, true, false, true, false, false)),
    (String ((Ascii (false, true, false, false, true, true, false, false)),
    (String ((Ascii (false, true, true, true, false, true, false, false)),
    (String ((Ascii (false, false, false, true, true, true, true, false)),
    (String ((Ascii (true, true, false, false, true, true, true, false)),
    (String ((Ascii (false, false, true, false, false, true, true, false)),
    EmptyString))))))))))))))))))))))))))))))))))) :: (((Npos (XI (XO XH))),
    (String ((Ascii (true, false, false, false, false, false, true, false)),
    (String ((Ascii (true, false, true, false, true, false, true, false)),
    (String ((Ascii (false, false, true, false, true, false, true, false)),
    (String ((Ascii (true, true, true, true, false, false, true, false)),
    (String ((Ascii (true, true, false, false, true, false, true, false)),
    (String ((Ascii (true, false, false, false, false, false, true, false)),
    (String ((Ascii (false, true, false, false, true, false, true, false)),
    (String ((Ascii (true, true, true, true, true, false, true, false)),
    (String ((Ascii (false, false, true, false, true, true, false, false)),
    (String ((Ascii (true, false, true, true, false, true, false, false)),
    (String ((Ascii (true, false, false, false, true, true, false, false)),
    (String ((Ascii (true, false, true, true, false, true, false, false)),
    (String ((Ascii (true, true, false, false, true, true, false, false)),
    (String ((Ascii (false, true, true, true, false, true, false, false)),
    (String ((Ascii (false, false, false, true, true, true, true, false)),
    (String ((Ascii (true, true, false, false, true, true, true, false)),
    (String ((Ascii (false, false, true, false, false, true, true, false)),
    EmptyString))))))))))))))))))))))))))))))))))) :: (((Npos (XO (XI XH))),
    (String ((Ascii (true, false, false, false, false, false, true, false)),
    (String ((Ascii (true, false, true, false, true, false, true, false)),
    (String ((Ascii (false, false, true, false, true, false, true, false)),
    (String ((Ascii (true, true, true, true, false, false, true, false)),
    (String ((Ascii (true, true, false, false, true, false, true, false)),
    (String ((Ascii (true, false, false, false, false, false, true, false)),
    (String ((Ascii (false, true, false, false, true, false, true, false)),
    (String ((Ascii (true, true, true, true, true, false, true, false)),
    (String ((Ascii (false, false, true, false, true, true, false, false)),
    (String ((Ascii (true, false, true, true, false, true, false, false)),
    (String ((Ascii (false, true, false, false, true, true, false, false)),
    (String ((Ascii (true, false, true, true, false, true, false, false)),
    (String ((Ascii (true, false, false, false, true, true, false, false)),
    (String ((Ascii (false, true, true, true, false, true, false, false)),
    (String ((Ascii (false, false, false, true, true, true, true, false)),
    (String ((Ascii (true, true, false, false, true, true, true, false)),
    (String ((Ascii (false, false, true, false, false, true, true, false)),
    EmptyString))))))))))))))))))))))))))))))))))) :: (((Npos (XI (XI XH))),
    (String ((Ascii (true, false, false, false, false, false, true, false)),
    (String ((Ascii (true, false, true, false, true, false, true, false)),
    (String ((Ascii (false, false, true, false, true, false, true, false)),
    (String ((Ascii (true, true, true, true, false, false, true, false)),
    (String ((Ascii (true, true, false, false, true, false, true, false)),
    (String ((Ascii (true, false, false, false, false, false, true, false)),
    (String ((Ascii (false, true, false, false, true, false, true, false)),
    (String ((Ascii (true, true, true, true, true, false, true, false)),
    (String ((Ascii (false, false, true, false, true, true, false, false)),
    (String ((Ascii (true, false, true, true, false, true, false, false)),
    (String ((Ascii (false, true, false, false, true, true, false, false)),
    (String ((Ascii (true, false, true, true, false, true, false, false)),
    (String ((Ascii (false, true, false, false, true, true, false, false)),
    (String ((Ascii (false, true, true, true, false, true, false, false)),
    (String ((Ascii (false, false, false, true, true, true, true, false)),
    (String ((Ascii (true, true, false, false, true, true, true, false)),
    (String ((Ascii (false, false, true, false, false, true, true, false)),
    EmptyString))))))))))))))))))))))))))))))))))) :: (((Npos (XO (XO (XO
    XH)))), (String ((Ascii (true, false, false, false, false, false, true,
    false)), (String ((Ascii (true, false, true, false, true, false, true,
    false)), (String ((Ascii (false, false, true, false, true, false, true,
    false)), (String ((Ascii (true, true, true, true, false, false, true,
    false)), (String ((Ascii (true, true, false, false, true, false, true,
    false)), (String ((Ascii (true, false, false, false, false, false, true,
    false)), (String ((Ascii (false, true, false, false, true, false, true,
    false)), (String ((Ascii (true, true, true, true, true, false, true,
    false)), (String ((Ascii (false, false, true, false, true, true, false,
    false)), (String ((Ascii (true, false, true, true, false, true, false,
    false)), (String ((Ascii (true, true, false, false, true, true, false,
    false)), (String ((Ascii (true, false, true, true, false, true, false,
    false)), (String ((Ascii (false, false, false, false, true, true, false,
    false)), (String ((Ascii (false, true, true, true, false, true, false,
    false)), (String ((Ascii (false, false, false, true, true, true, true,
    false)), (String ((Ascii (true, true, false, false, true, true, true,
    false)), (String ((Ascii (false, false, true, false, false, true, true,
    false)), EmptyString))))))))))))))))))))))))))))))))))) :: (((Npos (XI
    (XO (XO XH)))), (String ((Ascii (true, false, false, false, false, false,
    true, false)), (String ((Ascii (true, false, true, false, true, false,
    true, false)), (String ((Ascii (false, false, true, false, true, false,
    true, false)), (String ((Ascii (true, true, true, true, false, false,
    true, false)), (String ((Ascii (true, true, false, false, true, false,
    true, false)), (String ((Ascii (true, false, false, false, false, false,
    true, false)), (String ((Ascii (false, true, false, false, true, false,
    true, false)), (String ((Ascii (true, true, true, true, true, false,
    true, false)), (String ((Ascii (false, false, false, false, true, true,
    false, false)), (String ((Ascii (false, false, false, false, true, true,
    false, false)), (String ((Ascii (false, false, false, false, true, true,
    false, false)), (String ((Ascii (false, false, true, false, true, true,
    false, false)), (String ((Ascii (false, true, false, false, true, true,
    false, false)), (String ((Ascii (false, true, true, true, false, true,
    false, false)), (String ((Ascii (false, false, false, true, true, true,
    true, false)), (String ((Ascii (true, true, false, false, true, true,
    true, false)), (String ((Ascii (false, false, true, false, false, true,
    true, false)), EmptyString))))))))))))))))))))))))))))))))))) :: (((Npos
    (XO (XI (XO XH)))), (String ((Ascii (true, false, false, false, false,
    false, true, false)), (String ((Ascii (true, false, true, false, true,
    false, true, false)), (String ((Ascii (false, false, true, false, true,
    false, true, false)), (String ((Ascii (true, true, true, true, false,
    false, true, false)), (String ((Ascii (true, true, false, false, true,
    false, true, false)), (String ((Ascii (true, false, false, false, false,
    false, true, false)), (String ((Ascii (false, true, false, false, true,
    false, true, false)), (String ((Ascii (true, true, true, true, true,
    false, true, false)), (String ((Ascii (false, false, false, false, true,
    true, false, false)), (String ((Ascii (false, false, false, false, true,
    true, false, false)), (String ((Ascii (false, false, false, false, true,
    true, false, false)), (String ((Ascii (false, false, true, false, true,
    true, false, false)), (String ((Ascii (true, true, false, false, true,
    true, false, false)), (String ((Ascii (false, true, true, true, false,
    true, false, false)), (String ((Ascii (false, false, false, true, true,
    true, true, false)), (String ((Ascii (true, true, false, false, true,
    true, true, false)), (String ((Ascii (false, false, true, false, false,
    true, true, false)),
    EmptyString))))))))))))))))))))))))))))))))))) :: (((Npos (XI (XI (XO
    XH)))), (String ((Ascii (true, false, false, false, false, false, true,
    false)), (String ((Ascii (true, false, true, false, true, false, true,
    false)), (String ((Ascii (false, false, true, false, true, false, true,
    false)), (String ((Ascii (true, true, true, true, false, false, true,
    false)), (String ((Ascii (true, true, false, false, true, false, true,
    false)), (String ((Ascii (true, false, false, false, false, false, true,
    false)), (String ((Ascii (false, true, false, false, true, false, true,
    false)), (String ((Ascii (true, true, true, true, true, false, true,
    false)), (String ((Ascii (false, false, false, false, true, true, false,
    false)), (String ((Ascii (false, false, false, false, true, true, false,
    false)), (String ((Ascii (false, false, false, false, true, true, false,
    false)), (String ((Ascii (false, false, true, false, true, true, false,
    false)), (String ((Ascii (false, false, true, false, true, true, false,
    false)), (String ((Ascii (false, true, true, true, false, true, false,
    false)), (String ((Ascii (false, false, false, true, true, true, true,
    false)), (String ((Ascii (true, true, false, false, true, true, true,
    false)), (String ((Ascii (false, false, true, false, false, true, true,
    false)), EmptyString))))))))))))))))))))))))))))))))))) :: (((Npos (XO
    (XO (XI XH)))), (String ((Ascii (true, false, false, false, false, false,
    true, false)), (String ((Ascii (true, false, true, false, true, false,
    true, false)), (String ((Ascii (false, false, true, false, true, false,
    true, false)), (String ((Ascii (true, true, true, true, false, false,
    true, false)), (String ((Ascii (true, true, false, false, true, false,
    true, false)), (String ((Ascii (true, false, false, false, false, false,
    true, false)), (String ((Ascii (false, true, false, false, true, false,
    true, false)), (String ((Ascii (true, true, true, true, true, false,
    true, false)), (String ((Ascii (false, false, false, false, true, true,
    false, false)), (String ((Ascii (false, false, false, false, true, true,
    false, false)), (String ((Ascii (false, false, false, false, true, true,
    false, false)), (String ((Ascii (false, false, true, false, true, true,
    false, false)), (String ((Ascii (true, false, true, false, true, true,
    false, false)), (String ((Ascii (false, true, true, true, false, true,
    false, false)), (String ((Ascii (false, false, false, true, true, true,
    true, false)), (String ((Ascii (true, true, false, false, true, true,
    true, false)), (String ((Ascii (false, false, true, false, false, true,
    true, false)), EmptyString))))))))))))))))))))))))))))))))))) :: (((Npos
    (XI (XO (XI XH)))), (String ((Ascii (true, false, false, false, false,
    false, true, false)), (String ((Ascii (true, false, true, false, true,
    false, true, false)), (String ((Ascii (false, false, true, false, true,
    false, true, false)), (String ((Ascii (true, true, true, true, false,
    false, true, false)), (String ((Ascii (true, true, false, false, true,
    false, true, false)), (String ((Ascii (true, false, false, false, false,
    false, true, false)), (String ((Ascii (false, true, false, false, true,
    false, true, false)), (String ((Ascii (true, true, true, true, true,
    false, true, false)), (String ((Ascii (false, false, false, false, true,
    true, false, false)), (String ((Ascii (false, false, false, false, true,
    true, false, false)), (String ((Ascii (false, false, false, false, true,
    true, false, false)), (String ((Ascii (false, false, true, false, true,
    true, false, false)), (String ((Ascii (false, true, true, false, true,
    true, false, false)), (String ((Ascii (false, true, true, true, false,
    true, false, false)), (String ((Ascii (false, false, false, true, true,
    true, true, false)), (String ((Ascii (true, true, false, false, true,
    true, true, false)), (String ((Ascii (false, false, true, false, false,
    true, true, false)),
    EmptyString))))))))))))))))))))))))))))))))))) :: (((Npos (XO (XI (XI
    XH)))), (String ((Ascii (true, false, false, false, false, false, true,
    false)), (String ((Ascii (true, false, true, false, true, false, true,
    false)), (String ((Ascii (false, false, true, false, true, false, true,
    false)), (String ((Ascii (true, true, true, true, false, false, true,
    false)), (String ((Ascii (true, true, false, false, true, false, true,
    false)), (String ((Ascii (true, false, false, false, false, false, true,
    false)), (String ((Ascii (false, true, false, false, true, false, true,
    false)), (String ((Ascii (true, true, true, true, true, false, true,
    false)), (String ((Ascii (false, false, false, false, true, true, false,
    false)), (String ((Ascii (false, false, false, false, true, true, false,
    false)), (String ((Ascii (false, false, false, false, true, true, false,
    false)), (String ((Ascii (false, false, true, false, true, true, false,
    false)), (String ((Ascii (true, true, true, false, true, true, false,
    false)), (String ((Ascii (false, true, true, true, false, true, false,
    false)), (String ((Ascii (false, false, false, true, true, true, true,
    false)), (String ((Ascii (true, true, false, false, true, true, true,
    false)), (String ((Ascii (false, false, true, false, false, true, true,
    false)), EmptyString))))))))))))))))))))))))))))))))))) :: (((Npos (XI
    (XI (XI XH)))), (String ((Ascii (true, false, false, false, false, false,
    true, false)), (String ((Ascii (true, false, true, false, true, false,
    true, false)), (String ((Ascii (false, false, true, false, true, false,
    true, false)), (String ((Ascii (true, true, true, true, false, false,
    true, false)), (String ((Ascii (true, true, false, false, true, false,
    true, false)), (String ((Ascii (true, false, false, false, false, false,
    true, false)), (String ((Ascii (false, true, false, false, true, false,
    true, false)), (String ((Ascii (true, true, true, true, true, false,
    true, false)), (String ((Ascii (false, false, false, false, true, true,
    false, false)), (String ((Ascii (false, false, false, false, true, true,
    false, false)), (String ((Ascii (false, false, false, false, true, true,
    false, false)), (String ((Ascii (false, false, true, false, true, true,
    false, false)), (String ((Ascii (false, false, false, true, true, true,
    false, false)), (String ((Ascii (false, true, true, true, false, true,
    false, false)), (String ((Ascii (false, false, false, true, true, true,
    true, false)), (String ((Ascii (true, true, false, false, true, true,
    true, false)), (String ((Ascii (false, false, true, false, false, true,
    true, false)), EmptyString))))))))))))))))))))))))))))))))))) :: (((Npos
    (XO (XO (XO (XO XH))))), (String ((Ascii (true, false, false, false,
    false, false, true, false)), (String ((Ascii (true, false, true, false,
    true, false, true, false)), (String ((Ascii (false, false, true, false,
    true, false, true, false)), (String ((Ascii (true, true, true, true,
    false, false, true, false)), (String ((Ascii (true, true, false, false,
    true, false, true, false)), (String ((Ascii (true, false, false, false,
    false, false, true, false)), (String ((Ascii (false, true, false, false,
    true, false, true, false)), (String ((Ascii (true, true, true, true,
    true, false, true, false)), (String ((Ascii (false, false, false, false,
    true, true, false, false)), (String ((Ascii (false, false, false, false,
    true, true, false, false)), (String ((Ascii (false, false, false, false,
    true, true, false, false)), (String ((Ascii (false, false, true, false,
    true, true, false, false)), (String ((Ascii (true, false, false, true,
    true, true, false, false)), (String ((Ascii (false, true, true, true,
    false, true, false, false)), (String ((Ascii (false, false, false, true,
    true, true, true, false)), (String ((Ascii (true, true, false, false,
    true, true, true, false)), (String ((Ascii (false, false, true, false,
    false, true, true, false)),
    EmptyString))))))))))))))))))))))))))))))))))) :: (((Npos (XI (XO (XO (XO
    XH))))), (String ((Ascii (true, false, false, false, false, false, true,
    false)), (String ((Ascii (true, false, true, false, true, false, true,
    false)), (String ((Ascii (false, false, true, false, true, false, true,
    false)), (String ((Ascii (true, true, true, true, false, false, true,
    false)), (String ((Ascii (true, true, false, false, true, false, true,
    false)), (String ((Ascii (true, false, false, false, false, false, true,
    false)), (String ((Ascii (false, true, false, false, true, false, true,
    false)), (String ((Ascii (true, true, true, true, true, false, true,
    false)), (String ((Ascii (false, false, false, false, true, true, false,
    false)), (String ((Ascii (false, false, false, false, true, true, false,
    false)), (String ((Ascii (false, false, false, false, true, true, false,
    false)), (String ((Ascii (true, false, true, false, true, true, false,
    false)), (String ((Ascii (false, false, false, false, true, true, false,
    false)), (String ((Ascii (false, true, true, true, false, true, false,
    false)), (String ((Ascii (false, false, false, true, true, true, true,
    false)), (String ((Ascii (true, true, false, false, true, true, true,
    false)), (String ((Ascii (false, false, true, false, false, true, true,
    false)), EmptyString))))))))))))))))))))))))))))))))))) :: (((Npos (XO
    (XI (XO (XO XH))))), (String ((Ascii (true, false, false, false, false,
    false, true, false)), (String ((Ascii (true, false, true, false, true,
    false, true, false)), (String ((Ascii (false, false, true, false, true,
    false, true, false)), (String ((Ascii (true, true, true, true, false,
    false, true, false)), (String ((Ascii (true, true, false, false, true,
    false, true, false)), (String ((Ascii (true, false, false, false, false,
    false, true, false)), (String ((Ascii (false, true, false, false, true,
    false, true, false)), (String ((Ascii (true, true, true, true, true,
    false, true, false)), (String ((Ascii (false, false, false, false, true,
    true, false, false)), (String ((Ascii (false, false, false, false, true,
    true, false, false)), (String ((Ascii (false, false, false, false, true,
    true, false, false)), (String ((Ascii (true, false, true, false, true,
    true, false, false)), (String ((Ascii (true, false, false, false, true,
    true, false, false)), (String ((Ascii (false, true, true, true, false,
    true, false, false)), (String ((Ascii (false, false, false, true, true,
    true, true, false)), (String ((Ascii (true, true, false, false, true,
    true, true, false)), (String ((Ascii (false, false, true, false, false,
    true, true, false)),
    EmptyString))))))))))))))))))))))))))))))))))) :: (((Npos (XI (XI (XO (XO
    XH))))), (String ((Ascii (true, false, false, false, false, false, true,
    false)), (String ((Ascii (true, false, true, false, true, false, true,
    false)), (String ((Ascii (false, false, true, false, true, false, true,
    false)), (String ((Ascii (true, true, true, true, false, false, true,
    false)), (String ((Ascii (true, true, false, false, true, false, true,
    false)), (String ((Ascii (true, false, false, false, false, false, true,
    false)), (String ((Ascii (false, true, false, false, true, false, true,
    false)), (String ((Ascii (true, true, true, true, true, false, true,
    false)), (String ((Ascii (false, false, false, false, true, true, false,
    false)), (String ((Ascii (false, false, false, false, true, true, false,
    false)), (String ((Ascii (false, false, false, false, true, true, false,
    false)), (String ((Ascii (true, false, true, false, true, true, false,
    false)), (String ((Ascii (false, true, false, false, true, true, false,
    false)), (String ((Ascii (false, true, true, true, false, true, false,
    false)), (String ((Ascii (false, false, false, true, true, true, true,
    false)), (String ((Ascii (true, true, false, false, true, true, true,
    false)), (String ((Ascii (false, false, true, false, false, true, true,
    false)), EmptyString))))))))))))))))))))))))))))))))))) :: (((Npos (XO
    (XO (XI (XO XH))))), (String ((Ascii (true, false, false, false, false,
    false, true, false)), (String ((Ascii (true, false, true, false, true,
    false, true, false)), (String ((Ascii (false, false, true, false, true,
    false, true, false)), (String ((Ascii (true, true, true, true, false,
    false, true, false)), (String ((Ascii (true, true, false, false, true,
    false, true, false)), (String ((Ascii (true, false, false, false, false,
    false, true, false)), (String ((Ascii (false, true, false, false, true,
    false, true, false)), (String ((Ascii (true, true, true, true, true,
    false, true, false)), (String ((Ascii (false, false, false, false, true,
    true, false, false)), (String ((Ascii (false, false, false, false, true,
    true, false, false)), (String ((Ascii (false, false, false, false, true,
    true, false, false)), (String ((Ascii (true, false, true, false, true,
    true, false, false)), (String ((Ascii (true, true, false, false, true,
    true, false, false)), (String ((Ascii (false, true, true, true, false,
    true, false, false)), (String ((Ascii (false, false, false, true, true,
    true, true, false)), (String ((Ascii (true, true, false, false, true,
    true, true, false)), (String ((Ascii (false, false, true, false, false,
    true, true, false)),
    EmptyString))))))))))))))))))))))))))))))))))) :: []))))))))))))))))))))

(** val ver_from_str : (string * n) list **)

let ver_from_str =
  ((String ((Ascii (true, false, false, false, false, false, true, false)),
    (String ((Ascii (true, false, true, false, true, false, true, false)),
    (String ((Ascii (false, false, true, false, true, false, true, false)),
    (String ((Ascii (true, true, true, true, false, false, true, false)),
    (String ((Ascii (true, true, false, false, true, false, true, false)),
    (String ((Ascii (true, false, false, false, false, false, true, false)),
    (String ((Ascii (false, true, false, false, true, false, true, false)),
    (String ((Ascii (true, true, true, true, true, false, true, false)),
    (String ((Ascii (false, false, true, false, true, true, false, false)),
    (String ((Ascii (true, false, true, true, false, true, false, false)),
    (String ((Ascii (false, false, false, false, true, true, false, false)),
    (String ((Ascii (true, false, true, true, false, true, false, false)),
    (String ((Ascii (true, false, false, false, true, true, false, false)),
    (String ((Ascii (false, true, true, true, false, true, false, false)),
    (String ((Ascii (false, false, false, true, true, true, true, false)),
    (String ((Ascii (true, true, false, false, true, true, true, false)),
    (String ((Ascii (false, false, true, false, false, true, true, false)),
    EmptyString)))))))))))))))))))))))))))))))))), N0) :: (((String ((Ascii
    (true, false, false, false, false, false, true, false)), (String ((Ascii
    (true, false, true, false, true, false, true, false)), (String ((Ascii
    (false, false, true, false, true, false, true, false)), (String ((Ascii
    (true, true, true, true, false, false, true, false)), (String ((Ascii
    (true, true, false, false, true, false, true, false)), (String ((Ascii
    (true, false, false, false, false, false, true, false)), (String ((Ascii
    (false, true, false, false, true, false, true, false)), (String ((Ascii
    (true, true, true, true, true, false, true, false)), (String ((Ascii
    (false, false, true, false, true, true, false, false)), (String ((Ascii
    (true, false, true, true, false, true, false, false)), (String ((Ascii
    (false, false, false, false, true, true, false, false)), (String ((Ascii
    (true, false, true, true, false, true, false, false)), (String ((Ascii
    (false, true, false, false, true, true, false, false)), (String ((Ascii
    (false, true, true, true, false, true, false, false)), (String ((Ascii
    (false, false, false, true, true, true, true, false)), (String ((Ascii
    (true, true, false, false, true, true, true, false)), (String ((Ascii
    (false, false, true, false, false, true, true, false)),
    EmptyString)))))))))))))))))))))))))))))))))), (Npos XH)) :: (((String
    ((Ascii (true, false, false, false, false, false, true, false)), (String
    ((Ascii (true, false, true, false, true, false, true, false)), (String
    ((Ascii (false, false, true, false, true, false, true, false)), (String
    ((Ascii (true, true, true, true, false, false, true, false)), (String
    ((Ascii (true, true, false, false, true, false, true, false)), (String
    ((Ascii (true, false, false, false, false, false, true, false)), (String
    ((Ascii (false, true, false, false, true, false, true, false)), (String
    ((Ascii (true, true, true, true, true, false, true, false)), (String
    ((Ascii (false, false, true, false, true, true, false, false)), (String
    ((Ascii (true, false, true, true, false, true, false, false)), (String
    ((Ascii (false, false, false, false, true, true, false, false)), (String
    ((Ascii (true, false, true, true, false, true, false, false)), (String
    ((Ascii (true, true, false, false, true, true, false, false)), (String
    ((Ascii (false, true, true, true, false, true, false, false)), (String
    ((Ascii (false, false, false, true, true, true, true, false)), (String
    ((Ascii (true, true, false, false, true, true, true, false)), (String
    ((Ascii (false, false, true, false, false, true, true, false)),
    EmptyString)))))))))))))))))))))))))))))))))), (Npos (XO
    XH))) :: (((String ((Ascii (true, false, false, false, false, false,
    true, false)), (String ((Ascii (true, false, true, false, true, false,
    true, false)), (String ((Ascii (false, false, true, false, true, false,
    true, false)), (String ((Ascii (true, true, true, true, false, false,
    true, false)), (String ((Ascii (true, true, false, false, true, false,
    true, false)), (String ((Ascii (true, false, false, false, false, false,
    true, false)), (String ((Ascii (false, true, false, false, true, false,
    true, false)), (String ((Ascii (true, true, true, true, true, false,
    true, false)), (String ((Ascii (false, false, true, false, true, true,
    false, false)), (String ((Ascii (true, false, true, true, false, true,
    false, false)), (String ((Ascii (true, false, false, false, true, true,
    false, false)), (String ((Ascii (true, false, true, true, false, true,
    false, false)), (String ((Ascii (true, false, false, false, true, true,
    false, false)), (String ((Ascii (false, true, true, true, false, true,
    false, false)), (String ((Ascii (false, false, false, true, true, true,
    true, false)), (String ((Ascii (true, true, false, false, true, true,
    true, false)), (String ((Ascii (false, false, true, false, false, true,
    true, false)), EmptyString)))))))))))))))))))))))))))))))))), (Npos (XI
    XH))) :: (((String ((Ascii (true, false, false, false, false, false,
    true, false)), (String ((Ascii (true, false, true, false, true, false,
    true, false)), (String ((Ascii (false, false, true, false, true, false,
    true, false)), (String ((Ascii (true, true, true, true, false, false,
    true, false)), (String ((Ascii (true, true, false, false, true, false,
    true, false)), (String ((Ascii (true, false, false, false, false, false,
    true, false)), (String ((Ascii (false, true, false, false, true, false,
    true, false)), (String ((Ascii (true, true, true, true, true, false,
    true, false)), (String ((Ascii (false, false, true, false, true, true,
    false, false)), (String ((Ascii (true, false, true, true, false, true,
    false, false)), (String ((Ascii (true, false, false, false, true, true,
    false, false)), (String ((Ascii (true, false, true, true, false, true,
    false, false)), (String ((Ascii (false, true, false, false, true, true,
    false, false)), (String ((Ascii (false, true, true, true, false, true,
    false, false)), (String ((Ascii (false, false, false, true, true, true,
    true, false)), (String ((Ascii (true, true, false, false, true, true,
    true, false)), (String ((Ascii (false, false, true, false, false, true,
    true, false)), EmptyString)))))))))))))))))))))))))))))))))), (Npos (XO
    (XO XH)))) :: (((String ((Ascii (true, false, false, false, false, false,
    true, false)), (String ((Ascii (true, false, true, false, true, false,
    true, false)), (String ((Ascii (false, false, true, false, true, false,
    true, false)), (String ((Ascii (true, true, true, true, false, false,
    true, false)), (String ((Ascii (true, true, false, false, true, false,
    true, false)), (String ((Ascii (true, false, false, false, false, false,
    true, false)), (String ((Ascii (false, true, false, false, true, false,
    true, false)), (String ((Ascii (true, true, true, true, true, false,
    true, false)), (String ((Ascii (false, false, true, false, true, true,
    false, false)), (String ((Ascii (true, false, true, true, false, true,
    false, false)), (String ((Ascii (true, false, false, false, true, true,
    false, false)), (String ((Ascii (true, false, true, true, false, true,
    false, false)), (String ((Ascii (true, true, false, false, true, true,
    false, false)), (String ((Ascii (false, true, true, true, false, true,
    false, false)), (String ((Ascii (false, false, false, true, true, true,
    true, false)), (String ((Ascii (true, true, false, false, true, true,
    true, false)), (String ((Ascii (false, false, true, false, false, true,
    true, false)), EmptyString)))))))))))))))))))))))))))))))))), (Npos (XI
    (XO XH)))) :: (((String ((Ascii (true, false, false, false, false, false,
    true, false)), (String ((Ascii (true, false, true, false, true, false,
    true, false)), (String ((Ascii (false, false, true, false, true, false,
    true, false)), (String ((Ascii (true, true, true, true, false, false,
    true, false)), (String ((Ascii (true, true, false, false, true, false,
    true, false)), (String ((Ascii (true, false, false, false, false, false,
    true, false)), (String ((Ascii (false, true, false, false, true, false,
    true, false)), (String ((Ascii (true, true, true, true, true, false,
    true, false)), (String ((Ascii (false, false, true, false, true, true,
    false, false)), (String ((Ascii (true, false, true, true, false, true,
    false, false)), (String ((Ascii (false, true, false, false, true, true,
    false, false)), (String ((Ascii (true, false, true, true, false, true,
    false, false)), (String ((Ascii (true, false, false, false, true, true,
    false, false)), (String ((Ascii (false, true, true, true, false, true,
    false, false)), (String ((Ascii (false, false, false, true, true, true,
    true, false)), (String ((Ascii (true, true, false, false, true, true,
    true, false)), (String ((Ascii (false, false, true, false, false, true,
    true, false)), EmptyString)))))))))))))))))))))))))))))))))), (Npos (XO
    (XI XH)))) :: (((String ((Ascii (true, false, false, false, false, false,
    true, false)), (String ((Ascii (true, false, true, false, true, false,
    true, false)), (String ((Ascii (false, false, true, false, true, false,
    true, false)), (String ((Ascii (true, true, true, true, false, false,
    true, false)), (String ((Ascii (true, true, false, false, true, false,
    true, false)), (String ((Ascii (true, false, false, false, false, false,
    true, false)), (String ((Ascii (false, true, false, false, true, false,
    true, false)), (String ((Ascii (true, true, true, true, true, false,
    true, false)), (String ((Ascii (false, false, true, false, true, true,
    false, false)), (String ((Ascii (true, false, true, true, false, true,
    false, false)), (String ((Ascii (false, true, false, false, true, true,
    false, false)), (String ((Ascii (true, false, true, true, false, true,
    false, false)), (String ((Ascii (false, true, false, false, true, true,
    false, false)), (String ((Ascii (false, true, true, true, false, true,
    false, false)), (String ((Ascii (false, false, false, true, true, true,
    true, false)), (String ((Ascii (true, true, false, false, true, true,
    true, false)), (String ((Ascii (false, false, true, false, false, true,
    true, false)), EmptyString)))))))))))))))))))))))))))))))))), (Npos (XI
    (XI XH)))) :: (((String ((Ascii (true, false, false, false, false, false,
    true, false)), (String ((Ascii (true, false, true, false, true, false,
    true, false)), (String ((Ascii (false, false, true, false, true, false,
    true, false)), (String ((Ascii (true, true, true, true, false, false,
    true, false)), (String ((Ascii (true, true, false, false, true, false,
    true, false)), (String ((Ascii (true, false, false, false, false, false,
    true, false)), (String ((Ascii (false, true, false, false, true, false,
    true, false)), (String ((Ascii (true, true, true, true, true, false,
    true, false)), (String ((Ascii (false, false, true, false, true, true,
    false, false)), (String ((Ascii (true, false, true, true, false, true,
    false, false)), (String ((Ascii (true, true, false, false, true, true,
    false, false)), (String ((Ascii (true, false, true, true, false, true,
    false, false)), (String ((Ascii (false, false, false, false, true, true,
    false, false)), (String ((Ascii (false, true, true, true, false, true,
    false, false)), (String ((Ascii (false, false, false, true, true, true,
    true, false)), (String ((Ascii (true, true, false, false, true, true,
    true, false)), (String ((Ascii (false, false, true, false, false, true,
    true, false)), EmptyString)))))))))))))))))))))))))))))))))), (Npos (XO
    (XO (XO XH))))) :: (((String ((Ascii (true, false, false, false, false,
    false, true, false)), (String ((Ascii (true, false, true, false, true,
    false, true, false)), (String ((Ascii (false, false, true, false, true,
    false, true, false)), (String ((Ascii (true, true, true, true, false,
    false, true, false)), (String ((Ascii (true, true, false, false, true,
    false, true, false)), (String ((Ascii (true, false, false, false, false,
    false, true, false)), (String ((Ascii (false, true, false, false, true,
    false, true, false)), (String ((Ascii (true, true, true, true, true,
    false, true, false)), (String ((Ascii (false, false, false, false, true,
    true, false, false)), (String ((Ascii (false, false, false, false, true,
    true, false, false)), (String ((Ascii (false, false, false, false, true,
    true, false, false)), (String ((Ascii (false, false, true, false, true,
    true, false, false)), (String ((Ascii (false, true, false, false, true,
    true, false, false)), (String ((Ascii (false, true, true, true, false,
    true, false, false)), (String ((Ascii (false, false, false, true, true,
    true, true, false)), (String ((Ascii (true, true, false, false, true,
    true, true, false)), (String ((Ascii (false, false, true, false, false,
    true, true, false)), EmptyString)))))))))))))))))))))))))))))))))), (Npos
    (XI (XO (XO XH))))) :: (((String ((Ascii (true, false, false, false,
    false, false, true, false)), (String ((Ascii (true, false, true, false,
    true, false, true, false)), (String ((Ascii (false, false, true, false,
    true, false, true, false)), (String ((Ascii (true, true, true, true,
    false, false, true, false)), (String ((Ascii (true, true, false, false,
    true, false, true, false)), (String ((Ascii (true, false, false, false,
    false, false, true, false)), (String ((Ascii (false, true, false, false,
    true, false, true, false)), (String ((Ascii (true, true, true, true,
    true, false, true, false)), (String ((Ascii (false, false, false, false,
    true, true, false, false)), (String ((Ascii (false, false, false, false,
    true, true, false, false)), (String ((Ascii (false, false, false, false,
    true, true, false, false)), (String ((Ascii (false, false, true, false,
    true, true, false, false)), (String ((Ascii (true, true, false, false,
    true, true, false, false)), (String ((Ascii (false, true, true, true,
    false, true, false, false)), (String ((Ascii (false, false, false, true,
    true, true, true, false)), (String ((Ascii (true, true, false, false,
    true, true, true, false)), (String ((Ascii (false, false, true, false,
    false, true, true, false)),
    EmptyString)))))))))))))))))))))))))))))))))), (Npos (XO (XI (XO
    XH))))) :: (((String ((Ascii (true, false, false, false, false, false,
    true, false)), (String ((Ascii (true, false, true, false, true, false,
    true, false)), (String ((Ascii (false, false, true, false, true, false,
    true, false)), (String ((Ascii (true, true, true, true, false, false,
    true, false)), (String ((Ascii (true, true, false, false, true, false,
    true, false)), (String ((Ascii (true, false, false, false, false, false,
    true, false)), (String ((Ascii (false, true, false, false, true, false,
    true, false)), (String ((Ascii (true, true, true, true, true, false,
    true, false)), (String ((Ascii (false, false, false, false, true, true,
    false, false)), (String ((Ascii (false, false, false, false, true, true,
    false, false)), (String ((Ascii (false, false, false, false, true, true,
    false, false)), (String ((Ascii (false, false, true, false, true, true,
    false, false)), (String ((Ascii (false, false, true, false, true, true,
    false, false)), (String ((Ascii (false, true, true, true, false, true,
    false, false)), (String ((Ascii (false, false, false, true, true, true,
    true, false)), (String ((Ascii (true, true, false, false, true, true,
    true, false)), (String ((Ascii (false, false, true, false, false, true,
    true, false)), EmptyString)))))))))))))))))))))))))))))))))), (Npos (XI
    (XI (XO XH))))) :: (((String ((Ascii (true, false, false, false, false,
    false, true, false)), (String ((Ascii (true, false, true, false, true,
    false, true, false)), (String ((Ascii (false, false, true, false, true,
    false, true, false)), (String ((Ascii (true, true, true, true, false,
    false, true, false)), (String ((Ascii (true, true, false, false, true,
    false, true, false)), (String ((Ascii (true, false, false, false, false,
    false, true, false)), (String ((Ascii (false, true, false, false, true,
    false, true, false)), (String ((Ascii (true, true, true, true, true,
    false, true, false)), (String ((Ascii (false, false, false, false, true,
    true, false, false)), (String ((Ascii (false, false, false, false, true,
    true, false, false)), (String ((Ascii (false, false, false, false, true,
    true, false, false)), (String ((Ascii (false, false, true, false, true,
    true, false, false)), (String ((Ascii (true, false, true, false, true,
    true, false, false)), (String ((Ascii (false, true, true, true, false,
    true, false, false)), (String ((Ascii (false, false, false, true, true,
    true, true, false)), (String ((Ascii (true, true, false, false, true,
    true, true, false)), (String ((Ascii (false, false, true, false, false,
    true, true, false)), EmptyString)))))))))))))))))))))))))))))))))), (Npos
    (XO (XO (XI XH))))) :: (((String ((Ascii (true, false, false, false,
    false, false, true, false)), (String ((Ascii (true, false, true, false,
    true, false, true, false)), (String ((Ascii (false, false, true, false,
    true, false, true, false)), (String ((Ascii (true, true, true, true,
    false, false, true, false)), (String ((Ascii (true, true, false, false,
    true, false, true, false)), (String ((Ascii (true, false, false, false,
    false, false, true, false)), (String ((Ascii (false, true, false, false,
    true, false, true, false)), (String ((Ascii (true, true, true, true,
    true, false, true, false)), (String ((Ascii (false, false, false, false,
    true, true, false, false)), (String ((Ascii (false, false, false, false,
    true, true, false, false)), (String ((Ascii (false, false, false, false,
    true, true, false, false)), (String ((Ascii (false, false, true, false,
    true, true, false, false)), (String ((Ascii (false, true, true, false,
    true, true, false, false)), (String ((Ascii (false, true, true, true,
    false, true, false, false)), (String ((Ascii (false, false, false, true,
    true, true, true, false)), (String ((Ascii (true, true, false, false,
    true, true, true, false)), (String ((Ascii (false, false, true, false,
    false, true, true, false)),
    EmptyString)))))))))))))))))))))))))))))))))), (Npos (XI (XO (XI
    XH))))) :: (((String ((Ascii (true, false, false, false, false, false,
    true, false)), (String ((Ascii (true, false, true, false, true, false,
    true, false)), (String ((Ascii (false, false, true, false, true, false,
    true, false)), (String ((Ascii (true, true, true, true, false, false,
    true, false)), (String ((Ascii (true, true, false, false, true, false,
    true, false)), (String ((Ascii (true, false, false, false, false, false,
    true, false)), (String ((Ascii (false, true, false, false, true, false,
    true, false)), (String ((Ascii (true, true, true, true, true, false,
    true, false)), (String ((Ascii (false, false, false, false, true, true,
    false, false)), (String ((Ascii (false, false, false, false, true, true,
    false, false)), (String ((Ascii (false, false, false, false, true, true,
    false, false)), (String ((Ascii (false, false, true, false, true, true,
    false, false)), (String ((Ascii (true, true, true, false, true, true,
    false, false)), (String ((Ascii (false, true, true, true, false, true,
    false, false)), (String ((Ascii (false, false, false, true, true, true,
    true, false)), (String ((Ascii (true, true, false, false, true, true,
    true, false)), (String ((Ascii (false, false, true, false, false, true,
    true, false)), EmptyString)))))))))))))))))))))))))))))))))), (Npos (XO
    (XI (XI XH))))) :: (((String ((Ascii (true, false, false, false, false,
    false, true, false)), (String ((Ascii (true, false, true, false, true,
    false, true, false)), (String ((Ascii (false, false, true, false, true,
    false, true, false)), (String ((Ascii (true, true, true, true, false,
    false, true, false)), (String ((Ascii (true, true, false, false, true,
    false, true, false)), (String ((Ascii (true, false, false, false, false,
    false, true, false)), (String ((Ascii (false, true, false, false, true,
    false, true, false)), (String ((Ascii (true, true, true, true, true,
    false, true, false)), (String ((Ascii (false, false, false, false, true,
    true, false, false)), (String ((Ascii (false, false, false, false, true,
    true, false, false)), (String ((Ascii (false, false, false, false, true,
    true, false, false)), (String ((Ascii (false, false, true, false, true,
    true, false, false)), (String ((Ascii (false, false, false, true, true,
    true, false, false)), (String ((Ascii (false, true, true, true, false,
    true, false, false)), (String ((Ascii (false, false, false, true, true,
    true, true, false)), (String ((Ascii (true, true, false, false, true,
    true, true, false)), (String ((Ascii (false, false, true, false, false,
    true, true, false)), EmptyString)))))))))))))))))))))))))))))))))), (Npos
    (XI (XI (XI XH))))) :: (((String ((Ascii (true, false, false, false,
    false, false, true, false)), (String ((Ascii (true, false, true, false,
    true, false, true, false)), (String ((Ascii (false, false, true, false,
    true, false, true, false)), (String ((Ascii (true, true, true, true,
    false, false, true, false)), (String ((Ascii (true, true, false, false,
    true, false, true, false)), (String ((Ascii (true, false, false, false,
    false, false, true, false)), (String ((Ascii (false, true, false, false,
    true, false, true, false)), (String ((Ascii (true, true, true, true,
    true, false, true, false)), (String ((Ascii (false, false, false, false,
    true, true, false, false)), (String ((Ascii (false, false, false, false,
    true, true, false, false)), (String ((Ascii (false, false, false, false,
    true, true, false, false)), (String ((Ascii (false, false, true, false,
    true, true, false, false)), (String ((Ascii (true, false, false, true,
    true, true, false, false)), (String ((Ascii (false, true, true, true,
    false, true, false, false)), (String ((Ascii (false, false, false, true,
    true, true, true, false)), (String ((Ascii (true, true, false, false,
    true, true, true, false)), (String ((Ascii (false, false, true, false,
    false, true, true, false)),
    EmptyString)))))))))))))))))))))))))))))))))), (Npos (XO (XO (XO (XO
    XH)))))) :: (((String ((Ascii (true, false, false, false, false, false,
    true, false)), (String ((Ascii (true, false, true, false, true, false,
    true, false)), (String ((Ascii (false, false, true, false, true, false,
    true, false)), (String ((Ascii (true, true, true, true, false, false,
    true, false)), (String ((Ascii (true, true, false, false, true, false,
    true, false)), (String ((Ascii (true, false, false, false, false, false,
    true, false)), (String ((Ascii (false, true, false, false, true, false,
    true, false)), (String ((Ascii (true, true, true, true, true, false,
    true, false)), (String ((Ascii (false, false, false, false, true, true,
    false, false)), (String ((Ascii (false, false, false, false, true, true,
    false, false)), (String ((Ascii (false, false, false, false, true, true,
    false, false)), (String ((Ascii (true, false, true, false, true, true,
    false, false)), (String ((Ascii (false, false, false, false, true, true,
    false, false)), (String ((Ascii (false, true, true, true, false, true,
    false, false)), (String ((Ascii (false, false, false, true, true, true,
    true, false)), (String ((Ascii (true, true, false, false, true, true,
    true, false)), (String ((Ascii (false, false, true, false, false, true,
    true, false)), EmptyString)))))))))))))))))))))))))))))))))), (Npos (XI
    (XO (XO (XO XH)))))) :: (((String ((Ascii (true, false, false, false,
    false, false, true, false)), (String ((Ascii (true, false, true, false,
    true, false, true, false)), (String ((Ascii (false, false, true, false,
    true, false, true, false)), (String ((Ascii (true, true, true, true,
    false, false, true, false)), (String ((Ascii (true, true, false, false,
    true, false, true, false)), (String ((Ascii (true, false, false, false,
    false, false, true, false)), (String ((Ascii (false, true, false, false,
    true, false, true, false)), (String ((Ascii (true, true, true, true,
    true, false, true, false)), (String ((Ascii (false, false, false, false,
    true, true, false, false)), (String ((Ascii (false, false, false, false,
    true, true, false, false)), (String ((Ascii (false, false, false, false,
    true, true, false, false)), (String ((Ascii (true, false, true, false,
    true, true, false, false)), (String ((Ascii (true, false, false, false,
    true, true, false, false)), (String ((Ascii (false, true, true, true,
    false, true, false, false)), (String ((Ascii (false, false, false, true,
    true, true, true, false)), (String ((Ascii (true, true, false, false,
    true, true, true, false)), (String ((Ascii (false, false, true, false,
    false, true, true, false)),
    EmptyString)))))))))))))))))))))))))))))))))), (Npos (XO (XI (XO (XO
    XH)))))) :: (((String ((Ascii (true, false, false, false, false, false,
    true, false)), (String ((Ascii (true, false, true, false, true, false,
    true, false)), (String ((Ascii (false, false, true, false, true, false,
    true, false)), (String ((Ascii (true, true, true, true, false, false,
    true, false)), (String ((Ascii (true, true, false, false, true, false,
    true, false)), (String ((Ascii (true, false, false, false, false, false,
    true, false)), (String ((Ascii (false, true, false, false, true, false,
    true, false)), (String ((Ascii (true, true, true, true, true, false,
    true, false)), (String ((Ascii (false, false, false, false, true, true,
    false, false)), (String ((Ascii (false, false, false, false, true, true,
    false, false)), (String ((Ascii (false, false, false, false, true, true,
    false, false)), (String ((Ascii (true, false, true, false, true, true,
    false, false)), (String ((Ascii (false, true, false, false, true, true,
    false, false)), (String ((Ascii (false, true, true, true, false, true,
    false, false)), (String ((Ascii (false, false, false, true, true, true,
    true, false)), (String ((Ascii (true, true, false, false, true, true,
    true, false)), (String ((Ascii (false, false, true, false, false, true,
    true, false)), EmptyString)))))))))))))))))))))))))))))))))), (Npos (XI
    (XI (XO (XO XH)))))) :: (((String ((Ascii (true, false, false, false,
    false, false, true, false)), (String ((Ascii (true, false, true, false,
    true, false, true, false)), (String ((Ascii (false, false, true, false,
    true, false, true, false)), (String ((Ascii (true, true, true, true,
    false, false, true, false)), (String ((Ascii (true, true, false, false,
    true, false, true, false)), (String ((Ascii (true, false, false, false,
    false, false, true, false)), (String ((Ascii (false, true, false, false,
    true, false, true, false)), (String ((Ascii (true, true, true, true,
    true, false, true, false)), (String ((Ascii (false, false, false, false,
    true, true, false, false)), (String ((Ascii (false, false, false, false,
    true, true, false, false)), (String ((Ascii (false, false, false, false,
    true, true, false, false)), (String ((Ascii (true, false, true, false,
    true, true, false, false)), (String ((Ascii (true, true, false, false,
    true, true, false, false)), (String ((Ascii (false, true, true, true,
    false, true, false, false)), (String ((Ascii (false, false, false, true,
    true, true, true, false)), (String ((Ascii (true, true, false, false,
    true, true, true, false)), (String ((Ascii (false, false, true, false,
    false, true, true, false)),
    EmptyString)))))))))))))))))))))))))))))))))), (Npos (XO (XO (XI (XO
    XH)))))) :: []))))))))))))))))))))

(** val ver_latest : n **)

let ver_latest =
  Npos (XO (XO (XI (XO XH))))

(** val ver_value : n -> n option **)

let ver_value i =
  option_map snd (nth_opt ver_enum (N.to_nat i))

(** val assocN : n -> (n * 'a1) list -> 'a1 option **)

let rec assocN k = function
| [] -> None
| p :: l' -> let (k', a) = p in if N.eqb k' k then Some a else assocN k l'

(** val assocS : string -> (string * 'a1) list -> 'a1 option **)

let rec assocS k = function
| [] -> None
| p :: l' -> let (k', a) = p in if eqb2 k' k then Some a else assocS k l'

(** val filename : n -> string option **)

let filename i =
  assocN i ver_filename

(** val iotaV : n list **)

let iotaV =
  map N.of_nat (seq O (length ver_enum))

(** val assocB : n list -> (string * 'a1) list -> 'a1 option **)

let rec assocB k = function
| [] -> None
| p :: l' ->
  let (k', a) = p in
  if bytes_eqb (bytes_of_string k') k then Some a else assocB k l'

(** val version_of_filename : n list -> n option **)

let version_of_filename s =
  match assocB s ver_from_str with
  | Some i -> ver_value i
  | None -> None

(** val version_of_ident : string -> n option **)

let version_of_ident ident =
  assocS ident ver_enum

(** val version_latest : n option **)

let version_latest =
  ver_value ver_latest

type cdata0 =
| DEnum0 of n
| DString0 of n list
| DUInt0 of n
| DFloat0 of n

type etree =
| ENode of n * (n * n) * (n * cdata0) list * (etree, cdata0) sum list
   * n list option

(** val e_name : etree -> n **)

let e_name = function
| ENode (n0, _, _, _, _) -> n0

(** val e_content : etree -> (etree, cdata0) sum list **)

let e_content = function
| ENode (_, _, _, c, _) -> c

type pkind =
| InvalidArxmlFileHeader
| UnexpectedXmlFileHeader
| UnknownAutosarVersion
| InvalidAutosarVersion
| IncorrectBeginElement
| InvalidBeginElement
| IncorrectEndElement
| InvalidEndElement
| ElementChoiceConflict
| ElementVersionError
| TooManySubElements
| RequiredSubelementMissing
| AttributeValueError
| UnknownAttributeError
| AttributeVersionError
| RequiredAttributeMissing
| CharacterContentForbidden
| EnumItemVersionError
| UnknownEnumItem
| InvalidEnumItem
| StringValueTooLong
| RegexMatchError
| Utf8Error
| UnexpectedEndOfFile
| InvalidNumber
| AdditionalDataError
| InvalidXmlEntity

type perror =
| ErrLex of n * lexerr
| ErrParse of n * pkind * n * n

type pstate = { p_lex : lstate; p_line : n; p_version : n; p_cur : n;
                p_compat : n; p_warnings : perror list;
                p_standalone : bool option;
                p_idents : (n list * nat list) list;
                p_refs : (n list * nat list) list }

(** val set_lex : pstate -> lstate -> pstate **)

let set_lex st l =
  { p_lex = l; p_line = st.p_line; p_version = st.p_version; p_cur =
    st.p_cur; p_compat = st.p_compat; p_warnings = st.p_warnings;
    p_standalone = st.p_standalone; p_idents = st.p_idents; p_refs =
    st.p_refs }

(** val set_line : pstate -> n -> pstate **)

let set_line st l =
  { p_lex = st.p_lex; p_line = l; p_version = st.p_version; p_cur = st.p_cur;
    p_compat = st.p_compat; p_warnings = st.p_warnings; p_standalone =
    st.p_standalone; p_idents = st.p_idents; p_refs = st.p_refs }

(** val set_version : pstate -> n -> pstate **)

let set_version st v =
  { p_lex = st.p_lex; p_line = st.p_line; p_version = v; p_cur = st.p_cur;
    p_compat = st.p_compat; p_warnings = st.p_warnings; p_standalone =
    st.p_standalone; p_idents = st.p_idents; p_refs = st.p_refs }

(** val set_cur : pstate -> n -> pstate **)

let set_cur st c =
  { p_lex = st.p_lex; p_line = st.p_line; p_version = st.p_version; p_cur =
    c; p_compat = st.p_compat; p_warnings = st.p_warnings; p_standalone =
    st.p_standalone; p_idents = st.p_idents; p_refs = st.p_refs }

(** val set_compat : pstate -> n -> pstate **)

let set_compat st c =
  { p_lex = st.p_lex; p_line = st.p_line; p_version = st.p_version; p_cur =
    st.p_cur; p_compat = c; p_warnings = st.p_warnings; p_standalone =
    st.p_standalone; p_idents = st.p_idents; p_refs = st.p_refs }

(** val add_warning : pstate -> perror -> pstate **)

let add_warning st w0 =
  { p_lex = st.p_lex; p_line = st.p_line; p_version = st.p_version; p_cur =
    st.p_cur; p_compat = st.p_compat; p_warnings = (w0 :: st.p_warnings);
    p_standalone = st.p_standalone; p_idents = st.p_idents; p_refs =
    st.p_refs }

(** val set_standalone0 : pstate -> bool option -> pstate **)

let set_standalone0 st s =
  { p_lex = st.p_lex; p_line = st.p_line; p_version = st.p_version; p_cur =
    st.p_cur; p_compat = st.p_compat; p_warnings = st.p_warnings;
    p_standalone = s; p_idents = st.p_idents; p_refs = st.p_refs }

(** val add_ident : pstate -> (n list * nat list) -> pstate **)

let add_ident st i =
  { p_lex = st.p_lex; p_line = st.p_line; p_version = st.p_version; p_cur =
    st.p_cur; p_compat = st.p_compat; p_warnings = st.p_warnings;
    p_standalone = st.p_standalone; p_idents = (i :: st.p_idents); p_refs =
    st.p_refs }

(** val add_ref : pstate -> (n list * nat list) -> pstate **)

let add_ref st r =
  { p_lex = st.p_lex; p_line = st.p_line; p_version = st.p_version; p_cur =
    st.p_cur; p_compat = st.p_compat; p_warnings = st.p_warnings;
    p_standalone = st.p_standalone; p_idents = st.p_idents; p_refs =
    (r :: st.p_refs) }

type 'a step =
| Ret of 'a * pstate
| Raise of perror * pstate

type 'a m = pstate -> 'a step res

(** val ret : 'a1 -> 'a1 m **)

let ret a st =
  Val (Ret (a, st))

(** val mbind : 'a1 m -> ('a1 -> 'a2 m) -> 'a2 m **)

let mbind m0 f st =
  match m0 st with
  | Val a0 ->
    (match a0 with
     | Ret (a, st') -> f a st'
     | Raise (e, st') -> Val (Raise (e, st')))
  | Pan s -> Pan s
  | Fuel -> Fuel

(** val get : pstate m **)

let get st =
  Val (Ret (st, st))

(** val modify : (pstate -> pstate) -> unit m **)

let modify f st =
  Val (Ret ((), (f st)))

(** val lift : 'a1 res -> 'a1 m **)

let lift r st =
  match r with
  | Val a -> Val (Ret (a, st))
  | Pan s -> Pan s
  | Fuel -> Fuel

(** val mpanic : string -> 'a1 m **)

let mpanic s _ =
  Pan s

(** val mfuel : 'a1 m **)

let mfuel _ =
  Fuel

(** val hard : pkind -> n -> n -> 'a1 m **)

let hard k element item st =
  Val (Raise ((ErrParse (st.p_line, k, element, item)), st))

(** val optional_error : bool -> pkind -> n -> n -> unit m **)

let optional_error strict k element item st =
  let e = ErrParse (st.p_line, k, element, item) in
  if strict then Val (Raise (e, st)) else Val (Ret ((), (add_warning st e)))

(** val check_version : bool -> n -> pkind -> n -> n -> unit m **)

let check_version strict item_version k element item =
  mbind
    (modify (fun st -> set_compat st (N.coq_land st.p_compat item_version)))
    (fun _ ->
    mbind get (fun st ->
      if N.eqb (N.coq_land st.p_version item_version) N0
      then optional_error strict k element item
      else ret ()))

(** val pnext : event m **)

let pnext st =
  match next st.p_lex with
  | Val a ->
    (match a with
     | LOk (line, ev, l') -> Val (Ret (ev, (set_line (set_lex st l') line)))
     | LErr (line, e) -> Val (Raise ((ErrLex (line, e)), st)))
  | Pan s -> Pan s
  | Fuel -> Fuel

(** val name_of : nametab -> n list -> n option res **)

let name_of t s =
  match from_bytes t s with
  | Ok i -> Val (Some i)
  | Err -> Val None
  | Panic ->
    Pan (String ((Ascii (false, true, true, false, false, true, true,
      false)), (String ((Ascii (false, true, false, false, true, true, true,
      false)), (String ((Ascii (true, true, true, true, false, true, true,
      false)), (String ((Ascii (true, false, true, true, false, true, true,
      false)), (String ((Ascii (true, true, true, true, true, false, true,
      false)), (String ((Ascii (false, true, false, false, false, true, true,
      false)), (String ((Ascii (true, false, false, true, true, true, true,
      false)), (String ((Ascii (false, false, true, false, true, true, true,
      false)), (String ((Ascii (true, false, true, false, false, true, true,
      false)), (String ((Ascii (true, true, false, false, true, true, true,
      false)), (String ((Ascii (false, true, false, true, true, true, false,
      false)), (String ((Ascii (false, false, false, false, false, true,
      false, false)), (String ((Ascii (false, false, true, false, true, true,
      true, false)), (String ((Ascii (true, false, false, false, false, true,
      true, false)), (String ((Ascii (false, true, false, false, false, true,
      true, false)), (String ((Ascii (false, false, true, true, false, true,
      true, false)), (String ((Ascii (true, false, true, false, false, true,
      true, false)), (String ((Ascii (false, false, false, false, false,
      true, false, false)), (String ((Ascii (true, false, false, true, false,
      true, true, false)), (String ((Ascii (false, true, true, true, false,
      true, true, false)), (String ((Ascii (false, false, true, false, false,
      true, true, false)), (String ((Ascii (true, false, true, false, false,
      true, true, false)), (String ((Ascii (false, false, false, true, true,
      true, true, false)),
      EmptyString))))))))))))))))))))))))))))))))))))))))))))))

(** val drop_ws : n list -> n list **)

let rec drop_ws l = match l with
| [] -> []
| x :: l' -> if is_ws x then drop_ws l' else l

(** val trim_len : n list -> nat **)

let trim_len input =
  length (drop_ws (rev input))

(** val trim_byte_string : n list -> n list res **)

let trim_byte_string input = match input with
| [] -> Val []
| _ :: _ ->
  let len = trim_len input in
  let start =
    match position (fun c -> negb (is_ws c)) input with
    | Some p -> p
    | None -> len
  in
  if Nat.ltb len start
  then Pan (String ((Ascii (false, false, false, false, true, true, true,
         false)), (String ((Ascii (true, false, false, false, false, true,
         true, false)), (String ((Ascii (false, true, false, false, true,
         true, true, false)), (String ((Ascii (true, true, false, false,
         true, true, true, false)), (String ((Ascii (true, false, true,
         false, false, true, true, false)), (String ((Ascii (false, true,
         false, false, true, true, true, false)), (String ((Ascii (false,
         true, true, true, false, true, false, false)), (String ((Ascii
         (false, true, false, false, true, true, true, false)), (String
         ((Ascii (true, true, false, false, true, true, true, false)),
         (String ((Ascii (false, true, false, true, true, true, false,
         false)), (String ((Ascii (false, false, false, false, false, true,
         false, false)), (String ((Ascii (false, false, true, false, true,
         true, true, false)), (String ((Ascii (false, true, false, false,
         true, true, true, false)), (String ((Ascii (true, false, false,
         true, false, true, true, false)), (String ((Ascii (true, false,
         true, true, false, true, true, false)), (String ((Ascii (true, true,
         true, true, true, false, true, false)), (String ((Ascii (false,
         true, false, false, false, true, true, false)), (String ((Ascii
         (true, false, false, true, true, true, true, false)), (String
         ((Ascii (false, false, true, false, true, true, true, false)),
         (String ((Ascii (true, false, true, false, false, true, true,
         false)), (String ((Ascii (true, true, true, true, true, false, true,
         false)), (String ((Ascii (true, true, false, false, true, true,
         true, false)), (String ((Ascii (false, false, true, false, true,
         true, true, false)), (String ((Ascii (false, true, false, false,
         true, true, true, false)), (String ((Ascii (true, false, false,
         true, false, true, true, false)), (String ((Ascii (false, true,
         true, true, false, true, true, false)), (String ((Ascii (true, true,
         true, false, false, true, true, false)), (String ((Ascii (false,
         false, false, false, false, true, false, false)), (String ((Ascii
         (true, false, false, true, false, true, true, false)), (String
         ((Ascii (false, true, true, true, false, true, true, false)),
         (String ((Ascii (false, false, false, false, true, true, true,
         false)), (String ((Ascii (true, false, true, false, true, true,
         true, false)), (String ((Ascii (false, false, true, false, true,
         true, true, false)), (String ((Ascii (true, true, false, true, true,
         false, true, false)), (String ((Ascii (true, true, false, false,
         true, true, true, false)), (String ((Ascii (false, false, true,
         false, true, true, true, false)), (String ((Ascii (true, false,
         false, false, false, true, true, false)), (String ((Ascii (false,
         true, false, false, true, true, true, false)), (String ((Ascii
         (false, false, true, false, true, true, true, false)), (String
         ((Ascii (false, true, true, true, false, true, false, false)),
         (String ((Ascii (false, true, true, true, false, true, false,
         false)), (String ((Ascii (false, false, true, true, false, true,
         true, false)), (String ((Ascii (true, false, true, false, false,
         true, true, false)), (String ((Ascii (false, true, true, true,
         false, true, true, false)), (String ((Ascii (true, false, true,
         true, true, false, true, false)),
         EmptyString))))))))))))))))))))))))))))))))))))))))))))))))))))))))))))))))))))))))))))))))))))))))))
  else Val (firstn (sub len start) (skipn start input))

(** val find_byte : n -> n list -> nat option **)

let find_byte c l =
  position (N.eqb c) l

(** val unescape_loop : bool -> nat -> n list -> n list -> n list m **)

let rec unescape_loop strict fuel rem acc =
  match fuel with
  | O -> mfuel
  | S f ->
    (match find_byte (Npos (XO (XI (XI (XO (XO XH)))))) rem with
     | Some pos ->
       let acc0 = app acc (firstn pos rem) in
       let rem0 = skipn pos rem in
       let invalid =
         mbind (optional_error strict InvalidXmlEntity N0 N0) (fun _ ->
           unescape_loop strict f (skipn (S O) rem0)
             (app acc0 ((Npos (XO (XI (XI (XO (XO XH)))))) :: [])))
       in
       if starts_with
            (bS (String ((Ascii (false, true, true, false, false, true,
              false, false)), (String ((Ascii (false, false, true, true,
              false, true, true, false)), (String ((Ascii (false, false,
              true, false, true, true, true, false)), (String ((Ascii (true,
              true, false, true, true, true, false, false)),
              EmptyString))))))))) rem0
       then unescape_loop strict f (skipn (S (S (S (S O)))) rem0)
              (app acc0 ((Npos (XO (XO (XI (XI (XI XH)))))) :: []))
       else if starts_with
                 (bS (String ((Ascii (false, true, true, false, false, true,
                   false, false)), (String ((Ascii (true, true, true, false,
                   false, true, true, false)), (String ((Ascii (false, false,
                   true, false, true, true, true, false)), (String ((Ascii
                   (true, true, false, true, true, true, false, false)),
                   EmptyString))))))))) rem0
            then unescape_loop strict f (skipn (S (S (S (S O)))) rem0)
                   (app acc0 ((Npos (XO (XI (XI (XI (XI XH)))))) :: []))
            else if starts_with
                      (bS (String ((Ascii (false, true, true, false, false,
                        true, false, false)), (String ((Ascii (true, false,
                        false, false, false, true, true, false)), (String
                        ((Ascii (true, false, true, true, false, true, true,
                        false)), (String ((Ascii (false, false, false, false,
                        true, true, true, false)), (String ((Ascii (true,
                        true, false, true, true, true, false, false)),
                        EmptyString))))))))))) rem0
                 then unescape_loop strict f
                        (skipn (S (S (S (S (S O))))) rem0)
                        (app acc0 ((Npos (XO (XI (XI (XO (XO XH)))))) :: []))
                 else if starts_with
                           (bS (String ((Ascii (false, true, true, false,
                             false, true, false, false)), (String ((Ascii
                             (true, false, false, false, false, true, true,
                             false)), (String ((Ascii (false, false, false,
                             false, true, true, true, false)), (String
                             ((Ascii (true, true, true, true, false, true,
                             true, false)), (String ((Ascii (true, true,
                             false, false, true, true, true, false)), (String
                             ((Ascii (true, true, false, true, true, true,
                             false, false)), EmptyString))))))))))))) rem0
                      then unescape_loop strict f
                             (skipn (S (S (S (S (S (S O)))))) rem0)
                             (app acc0 ((Npos (XI (XI (XI (XO (XO
                               XH)))))) :: []))
                      else if starts_with
                                (bS (String ((Ascii (false, true, true,
                                  false, false, true, false, false)), (String
                                  ((Ascii (true, false, false, false, true,
                                  true, true, false)), (String ((Ascii (true,
                                  false, true, false, true, true, true,
                                  false)), (String ((Ascii (true, true, true,
                                  true, false, true, true, false)), (String
                                  ((Ascii (false, false, true, false, true,
                                  true, true, false)), (String ((Ascii (true,
                                  true, false, true, true, true, false,
                                  false)), EmptyString))))))))))))) rem0
                           then unescape_loop strict f
                                  (skipn (S (S (S (S (S (S O)))))) rem0)
                                  (app acc0 ((Npos (XO (XI (XO (XO (XO
                                    XH)))))) :: []))
                           else if starts_with
                                     (bS (String ((Ascii (false, true, true,
                                       false, false, true, false, false)),
                                       (String ((Ascii (true, true, false,
                                       false, false, true, false, false)),
                                       (String ((Ascii (false, false, false,
                                       true, true, true, true, false)),
                                       EmptyString))))))) rem0
                                then (match find_byte (Npos (XI (XI (XO (XI
                                              (XI XH)))))) rem0 with
                                      | Some endpos ->
                                        let hextxt =
                                          firstn (sub endpos (S (S (S O))))
                                            (skipn (S (S (S O))) rem0)
                                        in
                                        if starts_with ((Npos (XI (XI (XO (XI
                                             (XO XH)))))) :: []) hextxt
                                        then invalid
                                        else (match from_str_radix_u (Npos
                                                      (XO (XO (XO (XO (XO
                                                      XH)))))) (Npos (XO (XO
                                                      (XO (XO XH))))) hextxt with
                                              | Some v ->
                                                if is_char v
                                                then unescape_loop strict f
                                                       (skipn (S endpos) rem0)
                                                       (app acc0
                                                         (utf8_encode v))
                                                else invalid
                                              | None -> invalid)
                                      | None -> invalid)
                                else if starts_with
                                          (bS (String ((Ascii (false, true,
                                            true, false, false, true, false,
                                            false)), (String ((Ascii (true,
                                            true, false, false, false, true,
                                            false, false)), EmptyString)))))
                                          rem0
                                     then (match find_byte (Npos (XI (XI (XO
                                                   (XI (XI XH)))))) rem0 with
                                           | Some endpos ->
                                             let numtxt =
                                               firstn (sub endpos (S (S O)))
                                                 (skipn (S (S O)) rem0)
                                             in
                                             if starts_with ((Npos (XI (XI
                                                  (XO (XI (XO XH)))))) :: [])
                                                  numtxt
                                             then invalid
                                             else (match from_str_radix_u
                                                           (Npos (XO (XO (XO
                                                           (XO (XO XH))))))
                                                           (Npos (XO (XI (XO
                                                           XH)))) numtxt with
                                                   | Some v ->
                                                     if is_char v
                                                     then unescape_loop
                                                            strict f
                                                            (skipn (S endpos)
                                                              rem0)
                                                            (app acc0
                                                              (utf8_encode v))
                                                     else invalid
                                                   | None -> invalid)
                                           | None -> invalid)
                                     else invalid
     | None -> ret (app acc rem))

(** val unescape_string : bool -> n list -> n list m **)

let unescape_string strict input =
  match find_byte (Npos (XO (XI (XI (XO (XO XH)))))) input with
  | Some _ -> unescape_loop strict (S (length input)) input []
  | None -> ret input

(** val opt_len_gt : n option -> n list -> bool **)

let opt_len_gt maxlen l =
  match maxlen with
  | Some m0 -> N.ltb m0 (N.of_nat (length l))
  | None -> false

(** val parse_character_data :
    bool -> nametab -> (n -> n list -> bool res) -> (n list -> n option) -> n
    list -> cdspec -> cdata0 m **)

let parse_character_data strict tab_en check_fn float_parse input spec =
  mbind (lift (trim_byte_string input)) (fun trimmed ->
    match spec with
    | CEnum items ->
      mbind (lift (name_of tab_en trimmed)) (fun v ->
        match v with
        | Some value0 ->
          (match find (fun it -> N.eqb (fst it) value0) items with
           | Some p ->
             let (_, version) = p in
             mbind get (fun st ->
               mbind
                 (check_version strict version EnumItemVersionError st.p_cur
                   value0) (fun _ -> ret (DEnum0 value0)))
           | None ->
             mbind get (fun st -> hard InvalidEnumItem st.p_cur value0))
        | None -> hard UnknownEnumItem N0 N0)
    | CPattern (fn, maxlen) ->
      mbind
        (if opt_len_gt maxlen trimmed
         then optional_error strict StringValueTooLong N0 N0
         else ret ()) (fun _ ->
        mbind (lift (check_fn fn trimmed)) (fun ok ->
          mbind
            (if negb ok
             then optional_error strict RegexMatchError N0 N0
             else ret ()) (fun _ ->
            if utf8_valid trimmed
            then ret (DString0 trimmed)
            else mbind (optional_error strict Utf8Error N0 N0) (fun _ ->
                   ret (DString0 (utf8_lossy trimmed))))))
    | CString (preserve, maxlen) ->
      let raw = if preserve then input else trimmed in
      mbind
        (if opt_len_gt maxlen raw
         then optional_error strict StringValueTooLong N0 N0
         else ret ()) (fun _ ->
        mbind
          (if utf8_valid raw
           then ret raw
           else mbind (optional_error strict Utf8Error N0 N0) (fun _ ->
                  ret (utf8_lossy raw))) (fun text ->
          mbind (unescape_string strict text) (fun u -> ret (DString0 u))))
    | CUInt ->
      if negb (utf8_valid trimmed)
      then hard Utf8Error N0 N0
      else (match from_str_radix_u (Npos (XO (XO (XO (XO (XO (XO XH)))))))
                    (Npos (XO (XI (XO XH)))) trimmed with
            | Some v -> ret (DUInt0 v)
            | None ->
              mbind (optional_error strict InvalidNumber N0 N0) (fun _ ->
                ret (DUInt0 N0)))
    | CFloat ->
      if negb (utf8_valid trimmed)
      then hard Utf8Error N0 N0
      else (match float_parse trimmed with
            | Some b -> ret (DFloat0 b)
            | None ->
              mbind (optional_error strict InvalidNumber N0 N0) (fun _ ->
                ret (DFloat0 N0))))

(** val attr_loop :
    bool -> tables -> nametab -> nametab -> (n -> n list -> bool res) -> (n
    list -> n option) -> nat -> etype -> n list -> (n * cdata0) list -> (n
    list * (n * cdata0) list) m **)

let rec attr_loop strict t tab_at tab_en check_fn float_parse fuel ty rem attrs =
  match fuel with
  | O -> mfuel
  | S f ->
    (match find_byte (Npos (XI (XO (XI (XI (XI XH)))))) rem with
     | Some equals_pos ->
       let attr_name_part = firstn equals_pos rem in
       if Nat.ltb (sub (length rem) equals_pos) (S (S (S O)))
       then ret (rem, attrs)
       else let quote_char = nth (S equals_pos) rem N0 in
            if (&&)
                 (negb (N.eqb quote_char (Npos (XO (XI (XO (XO (XO XH))))))))
                 (negb (N.eqb quote_char (Npos (XI (XI (XI (XO (XO XH))))))))
            then ret (rem, attrs)
            else let rem2 = skipn (add equals_pos (S (S O))) rem in
                 (match find_byte quote_char rem2 with
                  | Some endquote_pos ->
                    let attr_value_part = firstn endquote_pos rem2 in
                    mbind (lift (name_of tab_at attr_name_part)) (fun nm ->
                      mbind
                        (match nm with
                         | Some attr_name ->
                           mbind (lift (find_attribute_spec t ty attr_name))
                             (fun sp ->
                             match sp with
                             | Some p ->
                               let (p0, version_mask) = p in
                               let (p1, _) = p0 in
                               let (_, ctype) = p1 in
                               mbind get (fun st ->
                                 mbind
                                   (check_version strict version_mask
                                     AttributeVersionError st.p_cur attr_name)
                                   (fun _ ->
                                   mbind
                                     (parse_character_data strict tab_en
                                       check_fn float_parse attr_value_part
                                       ctype) (fun v ->
                                     ret (app attrs ((attr_name, v) :: [])))))
                             | None ->
                               mbind get (fun st ->
                                 mbind
                                   (optional_error strict
                                     UnknownAttributeError st.p_cur N0)
                                   (fun _ -> ret attrs)))
                         | None ->
                           mbind get (fun st ->
                             mbind
                               (optional_error strict UnknownAttributeError
                                 st.p_cur N0) (fun _ -> ret attrs)))
                        (fun attrs' ->
                        let after = skipn (S endquote_pos) rem2 in
                        let next0 = drop_ws after in
                        if (&&)
                             (negb
                               (match next0 with
                                | [] -> true
                                | _ :: _ -> false))
                             (Nat.eqb (length next0) (length after))
                        then ret (rem2, attrs')
                        else attr_loop strict t tab_at tab_en check_fn
                               float_parse f ty next0 attrs'))
                  | None -> ret (rem2, attrs))
     | None -> ret (rem, attrs))

(** val req_loop :
    bool -> n -> (n * cdata0) list -> (((n * n) * cdspec) * n) list -> unit m **)

let rec req_loop strict cur attrs = function
| [] -> ret ()
| p :: l' ->
  let (p0, required) = p in
  let (p1, _) = p0 in
  let (name, _) = p1 in
  mbind
    (if (&&) (negb (N.eqb required N0))
          (negb (existsb (fun a -> N.eqb (fst a) name) attrs))
     then optional_error strict RequiredAttributeMissing cur name
     else ret ()) (fun _ -> req_loop strict cur attrs l')

(** val parse_attribute_text :
    bool -> tables -> nametab -> nametab -> (n -> n list -> bool res) -> (n
    list -> n option) -> etype -> n list -> (n * cdata0) list m **)

let parse_attribute_text strict t tab_at tab_en check_fn float_parse ty attributes_text =
  let rem0 =
    match position (fun c -> negb (is_ws c)) attributes_text with
    | Some p -> skipn p attributes_text
    | None -> attributes_text
  in
  mbind
    (attr_loop strict t tab_at tab_en check_fn float_parse (S
      (length attributes_text)) ty rem0 []) (fun x ->
    let (rem, attrs) = x in
    mbind get (fun st ->
      mbind
        (if (&&) (negb (match rem with
                        | [] -> true
                        | _ :: _ -> false)) (negb (forallb is_ws rem))
         then optional_error strict AttributeValueError st.p_cur N0
         else ret ()) (fun _ ->
        mbind (lift (attribute_spec_list t ty)) (fun specs ->
          mbind (req_loop strict st.p_cur attrs specs) (fun _ -> ret attrs)))))

(** val split_on : n -> n list -> n list -> n list list **)

let rec split_on c cur = function
| [] -> (rev cur) :: []
| x :: l' ->
  if N.eqb x c
  then (rev cur) :: (split_on c [] l')
  else split_on c (x :: cur) l'

(** val ver_or_panic : n option -> n m **)

let ver_or_panic = function
| Some v -> ret v
| None ->
  mpanic (String ((Ascii (false, true, true, false, true, true, true,
    false)), (String ((Ascii (true, false, true, false, false, true, true,
    false)), (String ((Ascii (false, true, false, false, true, true, true,
    false)), (String ((Ascii (true, true, false, false, true, true, true,
    false)), (String ((Ascii (true, false, false, true, false, true, true,
    false)), (String ((Ascii (true, true, true, true, false, true, true,
    false)), (String ((Ascii (false, true, true, true, false, true, true,
    false)), (String ((Ascii (false, false, false, false, false, true, false,
    false)), (String ((Ascii (true, true, false, false, false, true, true,
    false)), (String ((Ascii (true, true, true, true, false, true, true,
    false)), (String ((Ascii (false, true, true, true, false, true, true,
    false)), (String ((Ascii (true, true, false, false, true, true, true,
    false)), (String ((Ascii (false, false, true, false, true, true, true,
    false)), (String ((Ascii (true, false, false, false, false, true, true,
    false)), (String ((Ascii (false, true, true, true, false, true, true,
    false)), (String ((Ascii (false, false, true, false, true, true, true,
    false)), (String ((Ascii (false, false, false, false, false, true, false,
    false)), (String ((Ascii (true, false, true, true, false, true, true,
    false)), (String ((Ascii (true, false, false, true, false, true, true,
    false)), (String ((Ascii (true, true, false, false, true, true, true,
    false)), (String ((Ascii (true, true, false, false, true, true, true,
    false)), (String ((Ascii (true, false, false, true, false, true, true,
    false)), (String ((Ascii (false, true, true, true, false, true, true,
    false)), (String ((Ascii (true, true, true, false, false, true, true,
    false)), (String ((Ascii (false, false, false, false, false, true, false,
    false)), (String ((Ascii (false, true, true, false, false, true, true,
    false)), (String ((Ascii (false, true, false, false, true, true, true,
    false)), (String ((Ascii (true, true, true, true, false, true, true,
    false)), (String ((Ascii (true, false, true, true, false, true, true,
    false)), (String ((Ascii (false, false, false, false, false, true, false,
    false)), (String ((Ascii (false, false, true, false, true, true, true,
    false)), (String ((Ascii (false, false, false, true, false, true, true,
    false)), (String ((Ascii (true, false, true, false, false, true, true,
    false)), (String ((Ascii (false, false, false, false, false, true, false,
    false)), (String ((Ascii (false, false, true, false, true, true, true,
    false)), (String ((Ascii (true, false, false, false, false, true, true,
    false)), (String ((Ascii (false, true, false, false, false, true, true,
    false)), (String ((Ascii (false, false, true, true, false, true, true,
    false)), (String ((Ascii (true, false, true, false, false, true, true,
    false)), (String ((Ascii (true, true, false, false, true, true, true,
    false)),
    EmptyString))))))))))))))))))))))))))))))))))))))))))))))))))))))))))))))))))))))))))))))))

(** val parse_file_version : bool -> n list -> n m **)

let parse_file_version strict schema =
  let parts = split_on (Npos (XO (XO (XO (XO (XO XH)))))) [] schema in
  let schema_base = hd [] parts in
  if negb
       (bytes_eqb schema_base
         (bS (String ((Ascii (false, false, false, true, false, true, true,
           false)), (String ((Ascii (false, false, true, false, true, true,
           true, false)), (String ((Ascii (false, false, true, false, true,
           true, true, false)), (String ((Ascii (false, false, false, false,
           true, true, true, false)), (String ((Ascii (false, true, false,
           true, true, true, false, false)), (String ((Ascii (true, true,
           true, true, false, true, false, false)), (String ((Ascii (true,
           true, true, true, false, true, false, false)), (String ((Ascii
           (true, false, false, false, false, true, true, false)), (String
           ((Ascii (true, false, true, false, true, true, true, false)),
           (String ((Ascii (false, false, true, false, true, true, true,
           false)), (String ((Ascii (true, true, true, true, false, true,
           true, false)), (String ((Ascii (true, true, false, false, true,
           true, true, false)), (String ((Ascii (true, false, false, false,
           false, true, true, false)), (String ((Ascii (false, true, false,
           false, true, true, true, false)), (String ((Ascii (false, true,
           true, true, false, true, false, false)), (String ((Ascii (true,
           true, true, true, false, true, true, false)), (String ((Ascii
           (false, true, false, false, true, true, true, false)), (String
           ((Ascii (true, true, true, false, false, true, true, false)),
           (String ((Ascii (true, true, true, true, false, true, false,
           false)), (String ((Ascii (true, true, false, false, true, true,
           true, false)), (String ((Ascii (true, true, false, false, false,
           true, true, false)), (String ((Ascii (false, false, false, true,
           false, true, true, false)), (String ((Ascii (true, false, true,
           false, false, true, true, false)), (String ((Ascii (true, false,
           true, true, false, true, true, false)), (String ((Ascii (true,
           false, false, false, false, true, true, false)), (String ((Ascii
           (true, true, true, true, false, true, false, false)), (String
           ((Ascii (false, true, false, false, true, true, true, false)),
           (String ((Ascii (false, false, true, false, true, true, false,
           false)), (String ((Ascii (false, true, true, true, false, true,
           false, false)), (String ((Ascii (false, false, false, false, true,
           true, false, false)),
           EmptyString))))))))))))))))))))))))))))))))))))))))))))))))))))))))))))))
  then hard InvalidArxmlFileHeader N0 N0
  else let xsd_file_raw = hd [] (tl parts) in
       let xsd_file =
         if starts_with
              (bS (String ((Ascii (true, false, false, false, false, true,
                true, false)), (String ((Ascii (true, false, true, false,
                true, true, true, false)), (String ((Ascii (false, false,
                true, false, true, true, true, false)), (String ((Ascii
                (true, true, true, true, false, true, true, false)), (String
                ((Ascii (true, true, false, false, true, true, true, false)),
                (String ((Ascii (true, false, false, false, false, true,
                true, false)), (String ((Ascii (false, true, false, false,
                true, true, true, false)), EmptyString)))))))))))))))
              xsd_file_raw
         then app
                (bS (String ((Ascii (true, false, false, false, false, false,
                  true, false)), (String ((Ascii (true, false, true, false,
                  true, false, true, false)), (String ((Ascii (false, false,
                  true, false, true, false, true, false)), (String ((Ascii
                  (true, true, true, true, false, false, true, false)),
                  (String ((Ascii (true, true, false, false, true, false,
                  true, false)), (String ((Ascii (true, false, false, false,
                  false, false, true, false)), (String ((Ascii (false, true,
                  false, false, true, false, true, false)),
                  EmptyString)))))))))))))))
                (skipn (S (S (S (S (S (S (S O))))))) xsd_file_raw)
         else xsd_file_raw
       in
       (match version_of_filename xsd_file with
        | Some v -> ret v
        | None ->
          if bytes_eqb xsd_file
               (bS (String ((Ascii (true, false, false, false, false, false,
                 true, false)), (String ((Ascii (true, false, true, false,
                 true, false, true, false)), (String ((Ascii (false, false,
                 true, false, true, false, true, false)), (String ((Ascii
                 (true, true, true, true, false, false, true, false)),
                 (String ((Ascii (true, true, false, false, true, false,
                 true, false)), (String ((Ascii (true, false, false, false,
                 false, false, true, false)), (String ((Ascii (false, true,
                 false, false, true, false, true, false)), (String ((Ascii
                 (true, true, true, true, true, false, true, false)), (String
                 ((Ascii (false, false, true, false, true, true, false,
                 false)), (String ((Ascii (true, false, true, true, false,
                 true, false, false)), (String ((Ascii (true, true, false,
                 false, true, true, false, false)), (String ((Ascii (true,
                 false, true, true, false, true, false, false)), (String
                 ((Ascii (true, false, false, false, true, true, false,
                 false)), (String ((Ascii (false, true, true, true, false,
                 true, false, false)), (String ((Ascii (false, false, false,
                 true, true, true, true, false)), (String ((Ascii (true,
                 true, false, false, true, true, true, false)), (String
                 ((Ascii (false, false, true, false, false, true, true,
                 false)), EmptyString)))))))))))))))))))))))))))))))))))
          then mbind (optional_error strict InvalidAutosarVersion N0 N0)
                 (fun _ ->
                 ver_or_panic
                   (version_of_ident (String ((Ascii (true, false, false,
                     false, false, false, true, false)), (String ((Ascii
                     (true, false, true, false, true, true, true, false)),
                     (String ((Ascii (false, false, true, false, true, true,
                     true, false)), (String ((Ascii (true, true, true, true,
                     false, true, true, false)), (String ((Ascii (true, true,
                     false, false, true, true, true, false)), (String ((Ascii
                     (true, false, false, false, false, true, true, false)),
                     (String ((Ascii (false, true, false, false, true, true,
                     true, false)), (String ((Ascii (true, true, true, true,
                     true, false, true, false)), (String ((Ascii (false,
                     false, false, false, true, true, false, false)), (String
                     ((Ascii (false, false, false, false, true, true, false,
                     false)), (String ((Ascii (false, false, false, false,
                     true, true, false, false)), (String ((Ascii (false,
                     false, true, false, true, true, false, false)), (String
                     ((Ascii (false, false, true, false, true, true, false,
                     false)), EmptyString))))))))))))))))))))))))))))
          else if bytes_eqb xsd_file
                    (bS (String ((Ascii (true, false, false, false, false,
                      false, true, false)), (String ((Ascii (true, false,
                      true, false, true, false, true, false)), (String
                      ((Ascii (false, false, true, false, true, false, true,
                      false)), (String ((Ascii (true, true, true, true,
                      false, false, true, false)), (String ((Ascii (true,
                      true, false, false, true, false, true, false)), (String
                      ((Ascii (true, false, false, false, false, false, true,
                      false)), (String ((Ascii (false, true, false, false,
                      true, false, true, false)), (String ((Ascii (true,
                      true, true, true, true, false, true, false)), (String
                      ((Ascii (false, false, true, false, true, true, false,
                      false)), (String ((Ascii (true, false, true, true,
                      false, true, false, false)), (String ((Ascii (false,
                      false, true, false, true, true, false, false)), (String
                      ((Ascii (true, false, true, true, false, true, false,
                      false)), (String ((Ascii (false, false, false, false,
                      true, true, false, false)), (String ((Ascii (false,
                      true, true, true, false, true, false, false)), (String
                      ((Ascii (false, false, false, true, true, true, true,
                      false)), (String ((Ascii (true, true, false, false,
                      true, true, true, false)), (String ((Ascii (false,
                      false, true, false, false, true, true, false)),
                      EmptyString)))))))))))))))))))))))))))))))))))
               then mbind (optional_error strict InvalidAutosarVersion N0 N0)
                      (fun _ ->
                      ver_or_panic
                        (version_of_ident (String ((Ascii (true, false,
                          false, false, false, false, true, false)), (String
                          ((Ascii (true, false, true, false, true, true,
                          true, false)), (String ((Ascii (false, false, true,
                          false, true, true, true, false)), (String ((Ascii
                          (true, true, true, true, false, true, true,
                          false)), (String ((Ascii (true, true, false, false,
                          true, true, true, false)), (String ((Ascii (true,
                          false, false, false, false, true, true, false)),
                          (String ((Ascii (false, true, false, false, true,
                          true, true, false)), (String ((Ascii (true, true,
                          true, true, true, false, true, false)), (String
                          ((Ascii (false, false, false, false, true, true,
                          false, false)), (String ((Ascii (false, false,
                          false, false, true, true, false, false)), (String
                          ((Ascii (false, false, false, false, true, true,
                          false, false)), (String ((Ascii (false, false,
                          true, false, true, true, false, false)), (String
                          ((Ascii (false, true, true, false, true, true,
                          false, false)),
                          EmptyString))))))))))))))))))))))))))))
               else if bytes_eqb xsd_file
                         (bS (String ((Ascii (true, false, false, false,
                           false, false, true, false)), (String ((Ascii
                           (true, false, true, false, true, false, true,
                           false)), (String ((Ascii (false, false, true,
                           false, true, false, true, false)), (String ((Ascii
                           (true, true, true, true, false, false, true,
                           false)), (String ((Ascii (true, true, false,
                           false, true, false, true, false)), (String ((Ascii
                           (true, false, false, false, false, false, true,
                           false)), (String ((Ascii (false, true, false,
                           false, true, false, true, false)), (String ((Ascii
                           (true, true, true, true, true, false, true,
                           false)), (String ((Ascii (false, false, true,
                           false, true, true, false, false)), (String ((Ascii
                           (true, false, true, true, false, true, false,
                           false)), (String ((Ascii (true, false, true,
                           false, true, true, false, false)), (String ((Ascii
                           (true, false, true, true, false, true, false,
                           false)), (String ((Ascii (false, false, false,
                           false, true, true, false, false)), (String ((Ascii
                           (false, true, true, true, false, true, false,
                           false)), (String ((Ascii (false, false, false,
                           true, true, true, true, false)), (String ((Ascii
                           (true, true, false, false, true, true, true,
                           false)), (String ((Ascii (false, false, true,
                           false, false, true, true, false)),
                           EmptyString)))))))))))))))))))))))))))))))))))
                    then mbind
                           (optional_error strict InvalidAutosarVersion N0 N0)
                           (fun _ ->
                           ver_or_panic
                             (version_of_ident (String ((Ascii (true, false,
                               false, false, false, false, true, false)),
                               (String ((Ascii (true, false, true, false,
                               true, true, true, false)), (String ((Ascii
                               (false, false, true, false, true, true, true,
                               false)), (String ((Ascii (true, true, true,
                               true, false, true, true, false)), (String
                               ((Ascii (true, true, false, false, true, true,
                               true, false)), (String ((Ascii (true, false,
                               false, false, false, true, true, false)),
                               (String ((Ascii (false, true, false, false,
                               true, true, true, false)), (String ((Ascii
                               (true, true, true, true, true, false, true,
                               false)), (String ((Ascii (false, false, false,
                               false, true, true, false, false)), (String
                               ((Ascii (false, false, false, false, true,
                               true, false, false)), (String ((Ascii (false,
                               false, false, false, true, true, false,
                               false)), (String ((Ascii (false, false, true,
                               false, true, true, false, false)), (String
                               ((Ascii (false, false, false, true, true,
                               true, false, false)),
                               EmptyString))))))))))))))))))))))))))))
                    else mbind
                           (optional_error strict UnknownAutosarVersion N0 N0)
                           (fun _ -> ver_or_panic version_latest))

(** val attr_string : n -> (n * cdata0) list -> n list option option **)

let attr_string name attrs =
  match find (fun a -> N.eqb (fst a) name) attrs with
  | Some p ->
    let (_, c) = p in
    (match c with
     | DString0 s -> Some (Some s)
     | _ -> Some None)
  | None -> None

(** val attr_id : nametab -> n list -> n m **)

let attr_id tab_at text =
  mbind (lift (name_of tab_at text)) (fun r ->
    match r with
    | Some i -> ret i
    | None ->
      mpanic (String ((Ascii (true, false, false, false, false, false, true,
        false)), (String ((Ascii (false, false, true, false, true, true,
        true, false)), (String ((Ascii (false, false, true, false, true,
        true, true, false)), (String ((Ascii (false, true, false, false,
        true, true, true, false)), (String ((Ascii (true, false, false, true,
        false, true, true, false)), (String ((Ascii (false, true, false,
        false, false, true, true, false)), (String ((Ascii (true, false,
        true, false, true, true, true, false)), (String ((Ascii (false,
        false, true, false, true, true, true, false)), (String ((Ascii (true,
        false, true, false, false, true, true, false)), (String ((Ascii
        (false, true, true, true, false, false, true, false)), (String
        ((Ascii (true, false, false, false, false, true, true, false)),
        (String ((Ascii (true, false, true, true, false, true, true, false)),
        (String ((Ascii (true, false, true, false, false, true, true,
        false)), (String ((Ascii (false, false, false, false, false, true,
        false, false)), (String ((Ascii (true, true, false, false, false,
        true, true, false)), (String ((Ascii (true, true, true, true, false,
        true, true, false)), (String ((Ascii (false, true, true, true, false,
        true, true, false)), (String ((Ascii (true, true, false, false, true,
        true, true, false)), (String ((Ascii (false, false, true, false,
        true, true, true, false)), (String ((Ascii (true, false, false,
        false, false, true, true, false)), (String ((Ascii (false, true,
        true, true, false, true, true, false)), (String ((Ascii (false,
        false, true, false, true, true, true, false)), (String ((Ascii
        (false, false, false, false, false, true, false, false)), (String
        ((Ascii (true, false, true, true, false, true, true, false)), (String
        ((Ascii (true, false, false, true, false, true, true, false)),
        (String ((Ascii (true, true, false, false, true, true, true, false)),
        (String ((Ascii (true, true, false, false, true, true, true, false)),
        (String ((Ascii (true, false, false, true, false, true, true,
        false)), (String ((Ascii (false, true, true, true, false, true, true,
        false)), (String ((Ascii (true, true, true, false, false, true, true,
        false)), (String ((Ascii (false, false, false, false, false, true,
        false, false)), (String ((Ascii (false, true, true, false, false,
        true, true, false)), (String ((Ascii (false, true, false, false,
        true, true, true, false)), (String ((Ascii (true, true, true, true,
        false, true, true, false)), (String ((Ascii (true, false, true, true,
        false, true, true, false)), (String ((Ascii (false, false, false,
        false, false, true, false, false)), (String ((Ascii (false, false,
        true, false, true, true, true, false)), (String ((Ascii (false,
        false, false, true, false, true, true, false)), (String ((Ascii
        (true, false, true, false, false, true, true, false)), (String
        ((Ascii (false, false, false, false, false, true, false, false)),
        (String ((Ascii (false, false, true, false, true, true, true,
        false)), (String ((Ascii (true, false, false, false, false, true,
        true, false)), (String ((Ascii (false, true, false, false, false,
        true, true, false)), (String ((Ascii (false, false, true, true,
        false, true, true, false)), (String ((Ascii (true, false, true,
        false, false, true, true, false)),
        EmptyString)))))))))))))))))))))))))))))))))))))))))))))))))))))))))))))))))))))))))))))))))))))))))))

(** val parse_file_header : bool -> nametab -> (n * cdata0) list -> unit m **)

let parse_file_header strict tab_at attrs =
  mbind
    (attr_id tab_at
      (bS (String ((Ascii (false, false, false, true, true, true, true,
        false)), (String ((Ascii (true, false, true, true, false, true, true,
        false)), (String ((Ascii (false, false, true, true, false, true,
        true, false)), (String ((Ascii (false, true, true, true, false, true,
        true, false)), (String ((Ascii (true, true, false, false, true, true,
        true, false)), EmptyString)))))))))))) (fun a_xmlns ->
    mbind
      (attr_id tab_at
        (bS (String ((Ascii (false, false, false, true, true, true, true,
          false)), (String ((Ascii (true, false, true, true, false, true,
          true, false)), (String ((Ascii (false, false, true, true, false,
          true, true, false)), (String ((Ascii (false, true, true, true,
          false, true, true, false)), (String ((Ascii (true, true, false,
          false, true, true, true, false)), (String ((Ascii (false, true,
          false, true, true, true, false, false)), (String ((Ascii (false,
          false, false, true, true, true, true, false)), (String ((Ascii
          (true, true, false, false, true, true, true, false)), (String
          ((Ascii (true, false, false, true, false, true, true, false)),
          EmptyString)))))))))))))))))))) (fun a_xsi ->
      mbind
        (attr_id tab_at
          (bS (String ((Ascii (false, false, false, true, true, true, true,
            false)), (String ((Ascii (true, true, false, false, true, true,
            true, false)), (String ((Ascii (true, false, false, true, false,
            true, true, false)), (String ((Ascii (false, true, false, true,
            true, true, false, false)), (String ((Ascii (true, true, false,
            false, true, true, true, false)), (String ((Ascii (true, true,
            false, false, false, true, true, false)), (String ((Ascii (false,
            false, false, true, false, true, true, false)), (String ((Ascii
            (true, false, true, false, false, true, true, false)), (String
            ((Ascii (true, false, true, true, false, true, true, false)),
            (String ((Ascii (true, false, false, false, false, true, true,
            false)), (String ((Ascii (false, false, true, true, false, false,
            true, false)), (String ((Ascii (true, true, true, true, false,
            true, true, false)), (String ((Ascii (true, true, false, false,
            false, true, true, false)), (String ((Ascii (true, false, false,
            false, false, true, true, false)), (String ((Ascii (false, false,
            true, false, true, true, true, false)), (String ((Ascii (true,
            false, false, true, false, true, true, false)), (String ((Ascii
            (true, true, true, true, false, true, true, false)), (String
            ((Ascii (false, true, true, true, false, true, true, false)),
            EmptyString))))))))))))))))))))))))))))))))))))))
        (fun a_schema ->
        match attr_string a_xmlns attrs with
        | Some o ->
          (match o with
           | Some xmlns ->
             (match attr_string a_xsi attrs with
              | Some o0 ->
                (match o0 with
                 | Some xsi ->
                   (match attr_string a_schema attrs with
                    | Some o1 ->
                      (match o1 with
                       | Some schema ->
                         if (||)
                              (negb
                                (bytes_eqb xmlns
                                  (bS (String ((Ascii (false, false, false,
                                    true, false, true, true, false)), (String
                                    ((Ascii (false, false, true, false, true,
                                    true, true, false)), (String ((Ascii
                                    (false, false, true, false, true, true,
                                    true, false)), (String ((Ascii (false,
                                    false, false, false, true, true, true,
                                    false)), (String ((Ascii (false, true,
                                    false, true, true, true, false, false)),
                                    (String ((Ascii (true, true, true, true,
                                    false, true, false, false)), (String
                                    ((Ascii (true, true, true, true, false,
                                    true, false, false)), (String ((Ascii
                                    (true, false, false, false, false, true,
                                    true, false)), (String ((Ascii (true,
                                    false, true, false, true, true, true,
                                    false)), (String ((Ascii (false, false,
                                    true, false, true, true, true, false)),
                                    (String ((Ascii (true, true, true, true,
                                    false, true, true, false)), (String
                                    ((Ascii (true, true, false, false, true,
                                    true, true, false)), (String ((Ascii
                                    (true, false, false, false, false, true,
                                    true, false)), (String ((Ascii (false,
                                    true, false, false, true, true, true,
                                    false)), (String ((Ascii (false, true,
                                    true, true, false, true, false, false)),
                                    (String ((Ascii (true, true, true, true,
                                    false, true, true, false)), (String
                                    ((Ascii (false, true, false, false, true,
                                    true, true, false)), (String ((Ascii
                                    (true, true, true, false, false, true,
                                    true, false)), (String ((Ascii (true,
                                    true, true, true, false, true, false,
                                    false)), (String ((Ascii (true, true,
                                    false, false, true, true, true, false)),
                                    (String ((Ascii (true, true, false,
                                    false, false, true, true, false)),
                                    (String ((Ascii (false, false, false,
                                    true, false, true, true, false)), (String
                                    ((Ascii (true, false, true, false, false,
                                    true, true, false)), (String ((Ascii
                                    (true, false, true, true, false, true,
                                    true, false)), (String ((Ascii (true,
                                    false, false, false, false, true, true,
                                    false)), (String ((Ascii (true, true,
                                    true, true, false, true, false, false)),
                                    (String ((Ascii (false, true, false,
                                    false, true, true, true, false)), (String
                                    ((Ascii (false, false, true, false, true,
                                    true, false, false)), (String ((Ascii
                                    (false, true, true, true, false, true,
                                    false, false)), (String ((Ascii (false,
                                    false, false, false, true, true, false,
                                    false)),
                                    EmptyString)))))))))))))))))))))))))))))))))))))))))))))))))))))))))))))))
                              (negb
                                (bytes_eqb xsi
                                  (bS (String ((Ascii (false, false, false,
                                    true, false, true, true, false)), (String
                                    ((Ascii (false, false, true, false, true,
                                    true, true, false)), (String ((Ascii
                                    (false, false, true, false, true, true,
                                    true, false)), (String ((Ascii (false,
                                    false, false, false, true, true, true,
                                    false)), (String ((Ascii (false, true,
                                    false, true, true, true, false, false)),
                                    (String ((Ascii (true, true, true, true,
                                    false, true, false, false)), (String
                                    ((Ascii (true, true, true, true, false,
                                    true, false, false)), (String ((Ascii
                                    (true, true, true, false, true, true,
                                    true, false)), (String ((Ascii (true,
                                    true, true, false, true, true, true,
                                    false)), (String ((Ascii (true, true,
                                    true, false, true, true, true, false)),
                                    (String ((Ascii (false, true, true, true,
                                    false, true, false, false)), (String
                                    ((Ascii (true, true, true, false, true,
                                    true, true, false)), (String ((Ascii
                                    (true, true, false, false, true, true,
                                    false, false)), (String ((Ascii (false,
                                    true, true, true, false, true, false,
                                    false)), (String ((Ascii (true, true,
                                    true, true, false, true, true, false)),
                                    (String ((Ascii (false, true, false,
                                    false, true, true, true, false)), (String
                                    ((Ascii (true, true, true, false, false,
                                    true, true, false)), (String ((Ascii
                                    (true, true, true, true, false, true,
                                    false, false)), (String ((Ascii (false,
                                    true, false, false, true, true, false,
                                    false)), (String ((Ascii (false, false,
                                    false, false, true, true, false, false)),
                                    (String ((Ascii (false, false, false,
                                    false, true, true, false, false)),
                                    (String ((Ascii (true, false, false,
                                    false, true, true, false, false)),
                                    (String ((Ascii (true, true, true, true,
                                    false, true, false, false)), (String
                                    ((Ascii (false, false, false, true, true,
                                    false, true, false)), (String ((Ascii
                                    (true, false, true, true, false, false,
                                    true, false)), (String ((Ascii (false,
                                    false, true, true, false, false, true,
                                    false)), (String ((Ascii (true, true,
                                    false, false, true, false, true, false)),
                                    (String ((Ascii (true, true, false,
                                    false, false, true, true, false)),
                                    (String ((Ascii (false, false, false,
                                    true, false, true, true, false)), (String
                                    ((Ascii (true, false, true, false, false,
                                    true, true, false)), (String ((Ascii
                                    (true, false, true, true, false, true,
                                    true, false)), (String ((Ascii (true,
                                    false, false, false, false, true, true,
                                    false)), (String ((Ascii (true, false,
                                    true, true, false, true, false, false)),
                                    (String ((Ascii (true, false, false,
                                    true, false, true, true, false)), (String
                                    ((Ascii (false, true, true, true, false,
                                    true, true, false)), (String ((Ascii
                                    (true, true, false, false, true, true,
                                    true, false)), (String ((Ascii (false,
                                    false, true, false, true, true, true,
                                    false)), (String ((Ascii (true, false,
                                    false, false, false, true, true, false)),
                                    (String ((Ascii (false, true, true, true,
                                    false, true, true, false)), (String
                                    ((Ascii (true, true, false, false, false,
                                    true, true, false)), (String ((Ascii
                                    (true, false, true, false, false, true,
                                    true, false)),
                                    EmptyString)))))))))))))))))))))))))))))))))))))))))))))))))))))))))))))))))))))))))))))))))))))
                         then hard InvalidArxmlFileHeader N0 N0
                         else mbind (parse_file_version strict schema)
                                (fun v -> modify (fun st -> set_version st v))
                       | None -> hard InvalidArxmlFileHeader N0 N0)
                    | None -> hard InvalidArxmlFileHeader N0 N0)
                 | None -> hard InvalidArxmlFileHeader N0 N0)
              | None -> hard InvalidArxmlFileHeader N0 N0)
           | None -> hard InvalidArxmlFileHeader N0 N0)
        | None -> hard InvalidArxmlFileHeader N0 N0)))

(** val find_element_in_spec_checked :
    bool -> tables -> n -> etype -> (etype * n list) m **)

let find_element_in_spec_checked strict t name ty =
  mbind get (fun st ->
    mbind (lift (find_sub_element t ty name st.p_version)) (fun r ->
      match r with
      | Some x -> ret x
      | None ->
        mbind
          (lift
            (find_sub_element t ty name (Npos (XI (XI (XI (XI (XI (XI (XI (XI
              (XI (XI (XI (XI (XI (XI (XI (XI (XI (XI (XI (XI (XI (XI (XI (XI
              (XI (XI (XI (XI (XI (XI (XI XH))))))))))))))))))))))))))))))))))
          (fun r2 ->
          match r2 with
          | Some p ->
            let (sub0, idx) = p in
            mbind (lift (get_sub_element_version_mask t ty idx)) (fun vm ->
              match vm with
              | Some mask0 ->
                mbind
                  (check_version strict mask0 ElementVersionError st.p_cur
                    name) (fun _ -> ret (sub0, idx))
              | None ->
                mpanic (String ((Ascii (false, false, false, false, true,
                  true, true, false)), (String ((Ascii (true, false, false,
                  false, false, true, true, false)), (String ((Ascii (false,
                  true, false, false, true, true, true, false)), (String
                  ((Ascii (true, true, false, false, true, true, true,
                  false)), (String ((Ascii (true, false, true, false, false,
                  true, true, false)), (String ((Ascii (false, true, false,
                  false, true, true, true, false)), (String ((Ascii (false,
                  true, true, true, false, true, false, false)), (String
                  ((Ascii (false, true, false, false, true, true, true,
                  false)), (String ((Ascii (true, true, false, false, true,
                  true, true, false)), (String ((Ascii (false, true, false,
                  true, true, true, false, false)), (String ((Ascii (false,
                  false, false, false, false, true, false, false)), (String
                  ((Ascii (true, true, true, false, false, true, true,
                  false)), (String ((Ascii (true, false, true, false, false,
                  true, true, false)), (String ((Ascii (false, false, true,
                  false, true, true, true, false)), (String ((Ascii (true,
                  true, true, true, true, false, true, false)), (String
                  ((Ascii (true, true, false, false, true, true, true,
                  false)), (String ((Ascii (true, false, true, false, true,
                  true, true, false)), (String ((Ascii (false, true, false,
                  false, false, true, true, false)), (String ((Ascii (true,
                  true, true, true, true, false, true, false)), (String
                  ((Ascii (true, false, true, false, false, true, true,
                  false)), (String ((Ascii (false, false, true, true, false,
                  true, true, false)), (String ((Ascii (true, false, true,
                  false, false, true, true, false)), (String ((Ascii (true,
                  false, true, true, false, true, true, false)), (String
                  ((Ascii (true, false, true, false, false, true, true,
                  false)), (String ((Ascii (false, true, true, true, false,
                  true, true, false)), (String ((Ascii (false, false, true,
                  false, true, true, true, false)), (String ((Ascii (true,
                  true, true, true, true, false, true, false)), (String
                  ((Ascii (false, true, true, false, true, true, true,
                  false)), (String ((Ascii (true, false, true, false, false,
                  true, true, false)), (String ((Ascii (false, true, false,
                  false, true, true, true, false)), (String ((Ascii (true,
                  true, false, false, true, true, true, false)), (String
                  ((Ascii (true, false, false, true, false, true, true,
                  false)), (String ((Ascii (true, true, true, true, false,
                  true, true, false)), (String ((Ascii (false, true, true,
                  true, false, true, true, false)), (String ((Ascii (true,
                  true, true, true, true, false, true, false)), (String
                  ((Ascii (true, false, true, true, false, true, true,
                  false)), (String ((Ascii (true, false, false, false, false,
                  true, true, false)), (String ((Ascii (true, true, false,
                  false, true, true, true, false)), (String ((Ascii (true,
                  true, false, true, false, true, true, false)), (String
                  ((Ascii (false, false, false, true, false, true, false,
                  false)), (String ((Ascii (false, true, true, true, false,
                  true, false, false)), (String ((Ascii (false, true, true,
                  true, false, true, false, false)), (String ((Ascii (true,
                  false, false, true, false, true, false, false)), (String
                  ((Ascii (false, true, true, true, false, true, false,
                  false)), (String ((Ascii (true, false, true, false, true,
                  true, true, false)), (String ((Ascii (false, true, true,
                  true, false, true, true, false)), (String ((Ascii (true,
                  true, true, false, true, true, true, false)), (String
                  ((Ascii (false, true, false, false, true, true, true,
                  false)), (String ((Ascii (true, false, false, false, false,
                  true, true, false)), (String ((Ascii (false, false, false,
                  false, true, true, true, false)), (String ((Ascii (false,
                  false, false, true, false, true, false, false)), (String
                  ((Ascii (true, false, false, true, false, true, false,
                  false)),
                  EmptyString)))))))))))))))))))))))))))))))))))))))))))))))))))))))))))))))))))))))))))))))))))))))))))))))))))))))))
          | None -> hard IncorrectBeginElement st.p_cur name)))

(** val list_eqbN0 : n list -> n list -> bool **)

let rec list_eqbN0 a b =
  match a with
  | [] -> (match b with
           | [] -> true
           | _ :: _ -> false)
  | x :: a' ->
    (match b with
     | [] -> false
     | y :: b' -> (&&) (N.eqb x y) (list_eqbN0 a' b'))

(** val check_element_conflict :
    bool -> tables -> n -> etype -> n list -> n list -> unit m **)

let check_element_conflict strict t name ty old new0 =
  match old with
  | [] -> ret ()
  | _ :: _ ->
    if list_eqbN0 old new0
    then ret ()
    else mbind (lift (find_common_group t ty old new0)) (fun g ->
           mbind (lift (dt t g)) (fun d ->
             let mode = d.dt_mode in
             if N.eqb mode mChoice
             then mbind get (fun st ->
                    optional_error strict ElementChoiceConflict st.p_cur name)
             else if N.eqb mode mCharacters
                  then mpanic (String ((Ascii (false, false, false, false,
                         true, true, true, false)), (String ((Ascii (true,
                         false, false, false, false, true, true, false)),
                         (String ((Ascii (false, true, false, false, true,
                         true, true, false)), (String ((Ascii (true, true,
                         false, false, true, true, true, false)), (String
                         ((Ascii (true, false, true, false, false, true,
                         true, false)), (String ((Ascii (false, true, false,
                         false, true, true, true, false)), (String ((Ascii
                         (false, true, true, true, false, true, false,
                         false)), (String ((Ascii (false, true, false, false,
                         true, true, true, false)), (String ((Ascii (true,
                         true, false, false, true, true, true, false)),
                         (String ((Ascii (false, true, false, true, true,
                         true, false, false)), (String ((Ascii (false, false,
                         false, false, false, true, false, false)), (String
                         ((Ascii (true, false, false, false, false, true,
                         true, false)), (String ((Ascii (true, true, false,
                         false, false, true, true, false)), (String ((Ascii
                         (true, true, false, false, false, true, true,
                         false)), (String ((Ascii (true, false, true, false,
                         false, true, true, false)), (String ((Ascii (false,
                         false, false, false, true, true, true, false)),
                         (String ((Ascii (false, false, true, false, true,
                         true, true, false)), (String ((Ascii (true, false,
                         true, false, false, true, true, false)), (String
                         ((Ascii (false, false, true, false, false, true,
                         true, false)), (String ((Ascii (false, false, false,
                         false, false, true, false, false)), (String ((Ascii
                         (true, false, false, false, false, true, true,
                         false)), (String ((Ascii (false, false, false,
                         false, false, true, false, false)), (String ((Ascii
                         (true, true, false, false, true, true, true,
                         false)), (String ((Ascii (true, false, true, false,
                         true, true, true, false)), (String ((Ascii (false,
                         true, false, false, false, true, true, false)),
                         (String ((Ascii (true, false, true, true, false,
                         true, false, false)), (String ((Ascii (true, false,
                         true, false, false, true, true, false)), (String
                         ((Ascii (false, false, true, true, false, true,
                         true, false)), (String ((Ascii (true, false, true,
                         false, false, true, true, false)), (String ((Ascii
                         (true, false, true, true, false, true, true,
                         false)), (String ((Ascii (true, false, true, false,
                         false, true, true, false)), (String ((Ascii (false,
                         true, true, true, false, true, true, false)),
                         (String ((Ascii (false, false, true, false, true,
                         true, true, false)), (String ((Ascii (false, false,
                         false, false, false, true, false, false)), (String
                         ((Ascii (true, false, false, true, false, true,
                         true, false)), (String ((Ascii (false, true, true,
                         true, false, true, true, false)), (String ((Ascii
                         (true, true, false, false, true, true, true,
                         false)), (String ((Ascii (true, false, false, true,
                         false, true, true, false)), (String ((Ascii (false,
                         false, true, false, false, true, true, false)),
                         (String ((Ascii (true, false, true, false, false,
                         true, true, false)), (String ((Ascii (false, false,
                         false, false, false, true, false, false)), (String
                         ((Ascii (true, false, false, false, false, true,
                         true, false)), (String ((Ascii (false, false, false,
                         false, false, true, false, false)), (String ((Ascii
                         (true, true, false, false, false, true, true,
                         false)), (String ((Ascii (false, false, false, true,
                         false, true, true, false)), (String ((Ascii (true,
                         false, false, false, false, true, true, false)),
                         (String ((Ascii (false, true, false, false, true,
                         true, true, false)), (String ((Ascii (true, false,
                         false, false, false, true, true, false)), (String
                         ((Ascii (true, true, false, false, false, true,
                         true, false)), (String ((Ascii (false, false, true,
                         false, true, true, true, false)), (String ((Ascii
                         (true, false, true, false, false, true, true,
                         false)), (String ((Ascii (false, true, false, false,
                         true, true, true, false)), (String ((Ascii (true,
                         false, true, true, false, true, false, false)),
                         (String ((Ascii (true, true, true, true, false,
                         true, true, false)), (String ((Ascii (false, true,
                         true, true, false, true, true, false)), (String
                         ((Ascii (false, false, true, true, false, true,
                         true, false)), (String ((Ascii (true, false, false,
                         true, true, true, true, false)), (String ((Ascii
                         (false, false, false, false, false, true, false,
                         false)), (String ((Ascii (true, false, true, false,
                         false, true, true, false)), (String ((Ascii (false,
                         false, true, true, false, true, true, false)),
                         (String ((Ascii (true, false, true, false, false,
                         true, true, false)), (String ((Ascii (true, false,
                         true, true, false, true, true, false)), (String
                         ((Ascii (true, false, true, false, false, true,
                         true, false)), (String ((Ascii (false, true, true,
                         true, false, true, true, false)), (String ((Ascii
                         (false, false, true, false, true, true, true,
                         false)),
                         EmptyString))))))))))))))))))))))))))))))))))))))))))))))))))))))))))))))))))))))))))))))))))))))))))))))))))))))))))))))))))))))))))))))))))
                  else ret ()))

(** val check_multiplicity :
    bool -> tables -> n -> etype -> n list -> (etree, cdata0) sum list ->
    unit m **)

let check_multiplicity strict t name ty idx content =
  mbind (lift (get_sub_element_container_mode t ty idx)) (fun mode ->
    if (||) (N.eqb mode mSequence) (N.eqb mode mChoice)
    then mbind (lift (get_sub_element_multiplicity t ty idx)) (fun m0 ->
           match m0 with
           | Some mult ->
             if (&&) (negb (N.eqb mult (Npos (XO XH))))
                  (existsb (fun c ->
                    match c with
                    | Inl e -> N.eqb (e_name e) name
                    | Inr _ -> false) content)
             then mbind get (fun st ->
                    optional_error strict TooManySubElements st.p_cur name)
             else ret ()
           | None -> ret ())
    else ret ())

(** val first_string : etree -> n list option **)

let first_string e =
  match e_content e with
  | [] -> None
  | s0 :: _ ->
    (match s0 with
     | Inl _ -> None
     | Inr c -> (match c with
                 | DString0 s -> Some s
                 | _ -> None))

(** val pe_loop :
    bool -> tables -> nametab -> nametab -> nametab -> (n -> n list -> bool
    res) -> (n list -> n option) -> (n -> etype -> (n * cdata0) list -> n
    list option -> n list -> nat list -> etree m) -> nat -> n -> etype ->
    (n * cdata0) list -> n list option -> nat list -> (etree, cdata0) sum
    list -> n list -> bool -> n list option -> n list -> etree m **)

let rec pe_loop strict t tab_el tab_at tab_en check_fn float_parse rec0 lfuel name ty attrs comment pos content elem_idx short_name_found stored_comment path =
  match lfuel with
  | O -> mfuel
  | S lf ->
    let loop =
      pe_loop strict t tab_el tab_at tab_en check_fn float_parse rec0 lf name
        ty attrs comment pos
    in
    mbind (modify (fun st -> set_cur st name)) (fun _ ->
      mbind pnext (fun ev ->
        match ev with
        | EvHeader _ ->
          mbind (optional_error strict UnexpectedXmlFileHeader name N0)
            (fun _ ->
            loop content elem_idx short_name_found stored_comment path)
        | EvBegin (elem_text, attr_text) ->
          mbind (lift (name_of tab_el elem_text)) (fun nm ->
            match nm with
            | Some sub_name ->
              mbind (find_element_in_spec_checked strict t sub_name ty)
                (fun x ->
                let (sub_ty, idx) = x in
                mbind
                  (check_element_conflict strict t sub_name ty elem_idx idx)
                  (fun _ ->
                  mbind
                    (match content with
                     | [] -> ret ()
                     | _ :: _ ->
                       check_multiplicity strict t sub_name ty idx content)
                    (fun _ ->
                    mbind
                      (parse_attribute_text strict t tab_at tab_en check_fn
                        float_parse sub_ty attr_text) (fun sub_attrs ->
                      mbind
                        (rec0 sub_name sub_ty sub_attrs stored_comment path
                          ((length content) :: pos)) (fun sub0 ->
                        if N.eqb sub_name t.name_short_name
                        then (match first_string sub0 with
                              | Some name_string ->
                                let new_path =
                                  app path
                                    (app ((Npos (XI (XI (XI (XI (XO
                                      XH)))))) :: []) name_string)
                                in
                                mbind
                                  (modify (fun st ->
                                    add_ident st (new_path, (rev pos))))
                                  (fun _ ->
                                  loop (app content ((Inl sub0) :: [])) idx
                                    true None new_path)
                              | None ->
                                loop (app content ((Inl sub0) :: [])) idx
                                  true None path)
                        else loop (app content ((Inl sub0) :: [])) idx
                               short_name_found None path)))))
            | None -> hard InvalidBeginElement name N0)
        | EvEnd elem_text ->
          mbind (lift (name_of tab_el elem_text)) (fun nm ->
            match nm with
            | Some n0 ->
              if N.eqb n0 name
              then mbind get (fun st ->
                     mbind (lift (is_named_in_version t ty st.p_version))
                       (fun named ->
                       mbind
                         (if (&&) (negb short_name_found) named
                          then optional_error strict
                                 RequiredSubelementMissing name
                                 t.name_short_name
                          else ret ()) (fun _ ->
                         ret (ENode (name, ty, attrs, content, comment)))))
              else hard IncorrectEndElement name n0
            | None -> hard InvalidEndElement name N0)
        | EvChars text ->
          mbind (lift (chardata_spec t ty)) (fun spec ->
            match spec with
            | Some cs ->
              mbind (lift (content_mode t ty)) (fun mode ->
                if (&&) (N.eqb mode mCharacters)
                     (negb (match content with
                            | [] -> true
                            | _ :: _ -> false))
                then mbind
                       (optional_error strict CharacterContentForbidden name
                         N0) (fun _ ->
                       loop content elem_idx short_name_found stored_comment
                         path)
                else mbind
                       (parse_character_data strict tab_en check_fn
                         float_parse text cs) (fun value0 ->
                       mbind (lift (is_ref t ty)) (fun isr ->
                         mbind
                           (match value0 with
                            | DString0 refpath ->
                              if isr
                              then modify (fun st ->
                                     add_ref st (refpath, (rev pos)))
                              else ret ()
                            | _ -> ret ()) (fun _ ->
                           loop (app content ((Inr value0) :: [])) elem_idx
                             short_name_found stored_comment path))))
            | None ->
              mbind (optional_error strict CharacterContentForbidden name N0)
                (fun _ ->
                loop content elem_idx short_name_found stored_comment path))
        | EvComment c ->
          loop content elem_idx short_name_found (Some (utf8_lossy c)) path
        | EvEOF -> hard UnexpectedEndOfFile name N0))

(** val parse_element :
    bool -> tables -> nametab -> nametab -> nametab -> (n -> n list -> bool
    res) -> (n list -> n option) -> nat -> nat -> n -> etype -> (n * cdata0)
    list -> n list option -> n list -> nat list -> etree m **)

let rec parse_element strict t tab_el tab_at tab_en check_fn float_parse fuel lfuel name ty attrs comment path pos =
  match fuel with
  | O -> mfuel
  | S fuel' ->
    pe_loop strict t tab_el tab_at tab_en check_fn float_parse
      (parse_element strict t tab_el tab_at tab_en check_fn float_parse fuel'
        lfuel) lfuel name ty attrs comment pos [] [] false None path

(** val verify_end_of_input : bool -> unit m **)

let verify_end_of_input strict st =
  match next st.p_lex with
  | Val a ->
    (match a with
     | LOk (_, ev, l') ->
       (match ev with
        | EvEOF -> Val (Ret ((), (set_lex st l')))
        | _ -> optional_error strict AdditionalDataError N0 N0 (set_lex st l'))
     | LErr (line, e) -> Val (Raise ((ErrLex (line, e)), st)))
  | Pan s -> Pan s
  | Fuel -> Fuel

(** val root_type : tables -> etype m **)

let root_type t =
  lift (et_new t t.autosar_element)

(** val autosar_name : tables -> n m **)

let autosar_name t =
  mbind (lift (elem t t.autosar_element)) (fun e -> ret e.ed_name)

(** val skip_comments :
    nat -> n list option -> event -> (n list option * event) m **)

let rec skip_comments fuel stored tok =
  match fuel with
  | O -> mfuel
  | S f ->
    (match tok with
     | EvComment c ->
       mbind pnext (fun t -> skip_comments f (Some (utf8_lossy c)) t)
     | _ -> ret (stored, tok))

(** val parse_arxml :
    bool -> tables -> nametab -> nametab -> nametab -> (n -> n list -> bool
    res) -> (n list -> n option) -> nat -> etree m **)

let parse_arxml strict t tab_el tab_at tab_en check_fn float_parse buflen =
  mbind pnext (fun ev ->
    match ev with
    | EvHeader sa ->
      mbind (modify (fun st -> set_standalone0 st sa)) (fun _ ->
        mbind pnext (fun tok ->
          mbind (skip_comments (S buflen) None tok) (fun x ->
            let (stored_comment, token) = x in
            (match token with
             | EvBegin (elemname, attributes_text) ->
               mbind (lift (name_of tab_el elemname)) (fun nm ->
                 mbind (autosar_name t) (fun an ->
                   match nm with
                   | Some n0 ->
                     if N.eqb n0 an
                     then mbind (root_type t) (fun rt ->
                            mbind
                              (parse_attribute_text strict t tab_at tab_en
                                check_fn float_parse rt attributes_text)
                              (fun attributes ->
                              mbind
                                (parse_file_header strict tab_at attributes)
                                (fun _ ->
                                mbind
                                  (parse_element strict t tab_el tab_at
                                    tab_en check_fn float_parse (S buflen) (S
                                    buflen) an rt attributes stored_comment
                                    [] []) (fun root ->
                                  mbind (verify_end_of_input strict)
                                    (fun _ -> ret root)))))
                     else hard InvalidArxmlFileHeader N0 N0
                   | None -> hard InvalidArxmlFileHeader N0 N0))
             | _ -> hard InvalidArxmlFileHeader N0 N0))))
    | _ -> hard InvalidArxmlFileHeader N0 N0)

(** val init_pstate : n list -> n -> n -> pstate **)

let init_pstate buffer v401 an =
  { p_lex = (lexer_new buffer); p_line = (Npos XH); p_version = v401; p_cur =
    an; p_compat = (Npos (XI (XI (XI (XI (XI (XI (XI (XI (XI (XI (XI (XI (XI
    (XI (XI (XI (XI (XI (XI (XI (XI (XI (XI (XI (XI (XI (XI (XI (XI (XI (XI
    XH)))))))))))))))))))))))))))))))); p_warnings = []; p_standalone = None;
    p_idents = []; p_refs = [] }

(** val load :
    bool -> tables -> nametab -> nametab -> nametab -> (n -> n list -> bool
    res) -> (n list -> n option) -> n list -> etree step res **)

let load strict t tab_el tab_at tab_en check_fn float_parse buffer =
  match version_of_ident (String ((Ascii (true, false, false, false, false,
          false, true, false)), (String ((Ascii (true, false, true, false,
          true, true, true, false)), (String ((Ascii (false, false, true,
          false, true, true, true, false)), (String ((Ascii (true, true,
          true, true, false, true, true, false)), (String ((Ascii (true,
          true, false, false, true, true, true, false)), (String ((Ascii
          (true, false, false, false, false, true, true, false)), (String
          ((Ascii (false, true, false, false, true, true, true, false)),
          (String ((Ascii (true, true, true, true, true, false, true,
          false)), (String ((Ascii (false, false, true, false, true, true,
          false, false)), (String ((Ascii (true, true, true, true, true,
          false, true, false)), (String ((Ascii (false, false, false, false,
          true, true, false, false)), (String ((Ascii (true, true, true,
          true, true, false, true, false)), (String ((Ascii (true, false,
          false, false, true, true, false, false)),
          EmptyString)))))))))))))))))))))))))) with
  | Some v401 ->
    (match elem t t.autosar_element with
     | Val e ->
       parse_arxml strict t tab_el tab_at tab_en check_fn float_parse
         (length buffer) (init_pstate buffer v401 e.ed_name)
     | Pan s -> Pan s
     | Fuel ->
       Pan (String ((Ascii (false, true, true, false, true, true, true,
         false)), (String ((Ascii (true, false, true, false, false, true,
         true, false)), (String ((Ascii (false, true, false, false, true,
         true, true, false)), (String ((Ascii (true, true, false, false,
         true, true, true, false)), (String ((Ascii (true, false, false,
         true, false, true, true, false)), (String ((Ascii (true, true, true,
         true, false, true, true, false)), (String ((Ascii (false, true,
         true, true, false, true, true, false)), (String ((Ascii (false,
         false, false, false, false, true, false, false)), (String ((Ascii
         (true, true, false, false, false, true, true, false)), (String
         ((Ascii (true, true, true, true, false, true, true, false)), (String
         ((Ascii (false, true, true, true, false, true, true, false)),
         (String ((Ascii (true, true, false, false, true, true, true,
         false)), (String ((Ascii (false, false, true, false, true, true,
         true, false)), (String ((Ascii (true, false, false, false, false,
         true, true, false)), (String ((Ascii (false, true, true, true,
         false, true, true, false)), (String ((Ascii (false, false, true,
         false, true, true, true, false)), (String ((Ascii (false, false,
         false, false, false, true, false, false)), (String ((Ascii (true,
         false, true, true, false, true, true, false)), (String ((Ascii
         (true, false, false, true, false, true, true, false)), (String
         ((Ascii (true, true, false, false, true, true, true, false)),
         (String ((Ascii (true, true, false, false, true, true, true,
         false)), (String ((Ascii (true, false, false, true, false, true,
         true, false)), (String ((Ascii (false, true, true, true, false,
         true, true, false)), (String ((Ascii (true, true, true, false,
         false, true, true, false)),
         EmptyString)))))))))))))))))))))))))))))))))))))))))))))))))
  | None ->
    (match elem t t.autosar_element with
     | Pan s -> Pan s
     | _ ->
       Pan (String ((Ascii (false, true, true, false, true, true, true,
         false)), (String ((Ascii (true, false, true, false, false, true,
         true, false)), (String ((Ascii (false, true, false, false, true,
         true, true, false)), (String ((Ascii (true, true, false, false,
         true, true, true, false)), (String ((Ascii (true, false, false,
         true, false, true, true, false)), (String ((Ascii (true, true, true,
         true, false, true, true, false)), (String ((Ascii (false, true,
         true, true, false, true, true, false)), (String ((Ascii (false,
         false, false, false, false, true, false, false)), (String ((Ascii
         (true, true, false, false, false, true, true, false)), (String
         ((Ascii (true, true, true, true, false, true, true, false)), (String
         ((Ascii (false, true, true, true, false, true, true, false)),
         (String ((Ascii (true, true, false, false, true, true, true,
         false)), (String ((Ascii (false, false, true, false, true, true,
         true, false)), (String ((Ascii (true, false, false, false, false,
         true, true, false)), (String ((Ascii (false, true, true, true,
         false, true, true, false)), (String ((Ascii (false, false, true,
         false, true, true, true, false)), (String ((Ascii (false, false,
         false, false, false, true, false, false)), (String ((Ascii (true,
         false, true, true, false, true, true, false)), (String ((Ascii
         (true, false, false, true, false, true, true, false)), (String
         ((Ascii (true, true, false, false, true, true, true, false)),
         (String ((Ascii (true, true, false, false, true, true, true,
         false)), (String ((Ascii (true, false, false, true, false, true,
         true, false)), (String ((Ascii (false, true, true, true, false,
         true, true, false)), (String ((Ascii (true, true, true, false,
         false, true, true, false)),
         EmptyString)))))))))))))))))))))))))))))))))))))))))))))))))

(** val to_hc : cdata0 -> cdata **)

let to_hc = function
| DEnum0 e -> DEnum e
| DString0 s -> DString s
| DUInt0 n0 -> DUInt n0
| DFloat0 b -> DFloat b

type itree =
| INode of id * itree option list

(** val it_id : itree -> id **)

let it_id = function
| INode (i, _) -> i

(** val install : pref -> etree -> itree w **)

let rec install parent = function
| ENode (name, ty, attrs, content, comment) ->
  wbind
    (alloc { n_parent = parent; n_name = name; n_type = ty; n_content = [];
      n_attrs = (map (fun a -> ((fst a), (to_hc (snd a)))) attrs); n_files =
      []; n_comment = comment }) (fun i ->
    wbind
      (let rec go = function
       | [] -> wret ([], [])
       | s :: r ->
         (match s with
          | Inl c ->
            wbind (install (PElem i) c) (fun t ->
              wbind (go r) (fun x ->
                let (cs, ts) = x in
                wret (((CElem (it_id t)) :: cs), ((Some t) :: ts))))
          | Inr d ->
            wbind (go r) (fun x ->
              let (cs, ts) = x in
              wret (((CData (to_hc d)) :: cs), (None :: ts))))
       in go content) (fun x ->
      let (items, kids) = x in
      wbind (modify_node i (fun x0 -> set_content x0 items)) (fun _ ->
        wret (INode (i, kids)))))

(** val it_at : itree -> nat list -> id option **)

let rec it_at t = function
| [] -> Some (it_id t)
| k :: r ->
  let INode (_, kids) = t in
  (match nth_error kids k with
   | Some o -> (match o with
                | Some c -> it_at c r
                | None -> None)
   | None -> None)

(** val dEAD : n **)

let dEAD =
  Npos (XI (XI (XI (XI (XI (XI (XI (XI (XI (XI (XI (XI (XI (XI (XI
    XH)))))))))))))))

(** val dEAD_FILE_BASE : n **)

let dEAD_FILE_BASE =
  Npos (XO (XO (XO (XO (XO (XO (XO (XO (XO (XO (XO (XO (XO (XO (XO (XO
    XH))))))))))))))))

(** val is_dead : node -> bool **)

let is_dead n0 =
  match n0.n_files with
  | [] -> false
  | x :: l -> (match l with
               | [] -> N.eqb x dEAD
               | _ :: _ -> false)

(** val node_dead : world -> id -> bool **)

let node_dead w0 i =
  match w0.w_nodes i with
  | Some n0 -> is_dead n0
  | None -> true

(** val cdata_only : citem list -> citem list **)

let cdata_only l =
  filter (fun it -> match it with
                    | CElem _ -> false
                    | CData _ -> true) l

(** val kill : node -> node **)

let kill n0 =
  { n_parent = PNone; n_name = n0.n_name; n_type = n0.n_type; n_content =
    (cdata_only n0.n_content); n_attrs = n0.n_attrs; n_files = (dEAD :: []);
    n_comment = n0.n_comment }

(** val n_range : nat -> n -> n list **)

let rec n_range k from =
  match k with
  | O -> []
  | S k' -> from :: (n_range k' (N.add from (Npos XH)))

(** val kill_unreachable : id -> id list -> unit w **)

let kill_unreachable from keep w0 =
  let ids = n_range (N.to_nat (N.sub w0.w_next from)) from in
  let nodes =
    fold_left (fun f i ->
      if existsb (N.eqb i) keep
      then f
      else (match f i with
            | Some n0 -> upd f i (kill n0)
            | None -> f)) ids w0.w_nodes
  in
  Val ((OK ()), { w_nodes = nodes; w_next = w0.w_next; w_files = w0.w_files;
  w_models = w0.w_models })

(** val rename_file : n -> n -> node -> node **)

let rename_file f d n0 =
  if set_mem f n0.n_files
  then set_files n0 (set_add d (set_remove f n0.n_files))
  else n0

(** val drop_file : n -> unit w **)

let drop_file f w0 =
  let d = N.add dEAD_FILE_BASE w0.w_next in
  Val ((OK ()), { w_nodes = (fun i ->
  option_map (rename_file f d) (w0.w_nodes i)); w_next = w0.w_next; w_files =
  (removelast w0.w_files); w_models = w0.w_models })

(** val rd : 'a1 w -> world -> 'a1 res **)

let rd m0 w0 =
  match m0 w0 with
  | Val a0 ->
    let (o, _) = a0 in
    (match o with
     | OK a -> Val a
     | ER _ ->
       Pan (String ((Ascii (false, false, true, true, false, false, true,
         false)), (String ((Ascii (true, true, true, true, false, true, true,
         false)), (String ((Ascii (true, false, false, false, false, true,
         true, false)), (String ((Ascii (false, false, true, false, false,
         true, true, false)), (String ((Ascii (false, true, true, true,
         false, true, false, false)), (String ((Ascii (false, true, false,
         false, true, true, true, false)), (String ((Ascii (false, false,
         true, false, false, true, true, false)), (String ((Ascii (false,
         true, false, true, true, true, false, false)), (String ((Ascii
         (false, false, false, false, false, true, false, false)), (String
         ((Ascii (true, false, false, false, false, true, true, false)),
         (String ((Ascii (false, false, false, false, false, true, false,
         false)), (String ((Ascii (false, true, false, false, true, true,
         true, false)), (String ((Ascii (true, false, true, false, false,
         true, true, false)), (String ((Ascii (true, false, false, false,
         false, true, true, false)), (String ((Ascii (false, false, true,
         false, false, true, true, false)), (String ((Ascii (true, false,
         true, true, false, true, false, false)), (String ((Ascii (true,
         true, true, true, false, true, true, false)), (String ((Ascii
         (false, true, true, true, false, true, true, false)), (String
         ((Ascii (false, false, true, true, false, true, true, false)),
         (String ((Ascii (true, false, false, true, true, true, true,
         false)), (String ((Ascii (false, false, false, false, false, true,
         false, false)), (String ((Ascii (true, false, false, false, false,
         true, true, false)), (String ((Ascii (true, true, false, false,
         false, true, true, false)), (String ((Ascii (true, true, false,
         false, false, true, true, false)), (String ((Ascii (true, false,
         true, false, false, true, true, false)), (String ((Ascii (true,
         true, false, false, true, true, true, false)), (String ((Ascii
         (true, true, false, false, true, true, true, false)), (String
         ((Ascii (true, true, true, true, false, true, true, false)), (String
         ((Ascii (false, true, false, false, true, true, true, false)),
         (String ((Ascii (false, false, false, false, false, true, false,
         false)), (String ((Ascii (false, true, false, false, true, true,
         true, false)), (String ((Ascii (true, false, true, false, false,
         true, true, false)), (String ((Ascii (false, false, true, false,
         true, true, true, false)), (String ((Ascii (true, false, true,
         false, true, true, true, false)), (String ((Ascii (false, true,
         false, false, true, true, true, false)), (String ((Ascii (false,
         true, true, true, false, true, true, false)), (String ((Ascii (true,
         false, true, false, false, true, true, false)), (String ((Ascii
         (false, false, true, false, false, true, true, false)), (String
         ((Ascii (false, false, false, false, false, true, false, false)),
         (String ((Ascii (true, false, false, false, false, true, true,
         false)), (String ((Ascii (false, true, true, true, false, true,
         true, false)), (String ((Ascii (false, false, false, false, false,
         true, false, false)), (String ((Ascii (true, false, true, false,
         false, true, true, false)), (String ((Ascii (false, true, false,
         false, true, true, true, false)), (String ((Ascii (false, true,
         false, false, true, true, true, false)), (String ((Ascii (true,
         true, true, true, false, true, true, false)), (String ((Ascii
         (false, true, false, false, true, true, true, false)),
         EmptyString)))))))))))))))))))))))))))))))))))))))))))))))))))))))))))))))))))))))))))))))))))))))))))))))
  | Pan s -> Pan s
  | Fuel -> Fuel

type ckey = { k_id : id; k_name0 : n; k_ident : bool res;
              k_item : n list option res; k_defref0 : n list option res;
              k_idx : n list option res }

(** val defref_of : tables -> n -> node -> n list option w **)

let defref_of t name_definition_ref n0 =
  wbind (first_named name_definition_ref n0.n_content) (fun dr ->
    match dr with
    | Some d ->
      wbind (get_node d) (fun dn ->
        wbind (wl (character_data t dn)) (fun cd ->
          wret
            (match cd with
             | Some c -> (match c with
                          | DString s -> Some s
                          | _ -> None)
             | None -> None)))
    | None -> wret None)

(** val key_of : tables -> n -> world -> (n * n) -> id -> ckey res **)

let key_of t name_definition_ref w0 pty i =
  match w0.w_nodes i with
  | Some n0 ->
    Val { k_id = i; k_name0 = n0.n_name; k_ident =
      (rd (is_identifiable t n0) w0); k_item = (rd (item_name t n0) w0);
      k_defref0 = (rd (defref_of t name_definition_ref n0) w0); k_idx =
      (bind
        (find_sub_element t pty n0.n_name (Npos (XI (XI (XI (XI (XI (XI (XI
          (XI (XI (XI (XI (XI (XI (XI (XI (XI (XI (XI (XI (XI (XI (XI (XI (XI
          (XI (XI (XI (XI (XI (XI (XI XH)))))))))))))))))))))))))))))))))
        (fun r -> Val (option_map snd r))) }
  | None ->
    Pan (String ((Ascii (false, false, true, false, false, true, true,
      false)), (String ((Ascii (true, false, false, false, false, true, true,
      false)), (String ((Ascii (false, true, true, true, false, true, true,
      false)), (String ((Ascii (true, true, true, false, false, true, true,
      false)), (String ((Ascii (false, false, true, true, false, true, true,
      false)), (String ((Ascii (true, false, false, true, false, true, true,
      false)), (String ((Ascii (false, true, true, true, false, true, true,
      false)), (String ((Ascii (true, true, true, false, false, true, true,
      false)), (String ((Ascii (false, false, false, false, false, true,
      false, false)), (String ((Ascii (false, true, true, true, false, true,
      true, false)), (String ((Ascii (true, true, true, true, false, true,
      true, false)), (String ((Ascii (false, false, true, false, false, true,
      true, false)), (String ((Ascii (true, false, true, false, false, true,
      true, false)), (String ((Ascii (false, false, false, false, false,
      true, false, false)), (String ((Ascii (true, false, false, true, false,
      true, true, false)), (String ((Ascii (false, false, true, false, false,
      true, true, false)), EmptyString))))))))))))))))))))))))))))))))

(** val keys_of :
    tables -> n -> world -> (n * n) -> citem list -> ckey list res **)

let rec keys_of t name_definition_ref w0 pty = function
| [] -> Val []
| c0 :: r ->
  (match c0 with
   | CElem c ->
     bind (key_of t name_definition_ref w0 pty c) (fun k ->
       bind (keys_of t name_definition_ref w0 pty r) (fun ks -> Val (k :: ks)))
   | CData _ -> keys_of t name_definition_ref w0 pty r)

type action =
| MergeEqual
| MergeUnequal of id
| AOnly
| BOnly of n

(** val opt_bytes_eqb : n list option -> n list option -> bool **)

let opt_bytes_eqb a b =
  match a with
  | Some x -> (match b with
               | Some y -> bytes_eqb x y
               | None -> false)
  | None -> (match b with
             | Some _ -> false
             | None -> true)

(** val find_sibling_item :
    n -> n list option -> ckey list -> id option res **)

let rec find_sibling_item name item = function
| [] -> Val None
| kb :: r ->
  if N.eqb kb.k_name0 name
  then bind kb.k_item (fun it ->
         if opt_bytes_eqb it item
         then Val (Some kb.k_id)
         else find_sibling_item name item r)
  else find_sibling_item name item r

(** val find_sibling_defref :
    n -> n list option -> ckey list -> id option res **)

let rec find_sibling_defref name dr = function
| [] -> Val None
| kb :: r ->
  if N.eqb kb.k_name0 name
  then bind kb.k_defref0 (fun d ->
         if opt_bytes_eqb d dr
         then Val (Some kb.k_id)
         else find_sibling_defref name dr r)
  else find_sibling_defref name dr r

(** val calc_identifiables_merge :
    ckey list -> ckey -> ckey -> bool -> action out res **)

let calc_identifiables_merge all_b ka kb splitable =
  bind ka.k_item (fun ia ->
    bind kb.k_item (fun ib ->
      if opt_bytes_eqb ia ib
      then Val (OK MergeEqual)
      else bind (find_sibling_item ka.k_name0 ia all_b) (fun s ->
             match s with
             | Some sib -> Val (OK (MergeUnequal sib))
             | None ->
               if splitable then Val (OK AOnly) else Val (ER InvalidFileMerge))))

(** val calc_element_merge : ckey list -> ckey -> ckey -> action res **)

let calc_element_merge all_b ka kb =
  bind ka.k_defref0 (fun da ->
    bind kb.k_defref0 (fun db ->
      if opt_bytes_eqb da db
      then Val MergeEqual
      else bind (find_sibling_defref ka.k_name0 da all_b) (fun s -> Val
             (match s with
              | Some sib -> MergeUnequal sib
              | None -> AOnly))))

(** val find_merge_partner : ckey list -> ckey -> id option res **)

let find_merge_partner l k =
  bind k.k_ident (fun ident ->
    if ident
    then bind k.k_item (fun it -> find_sibling_item k.k_name0 it l)
    else bind k.k_defref0 (fun d -> find_sibling_defref k.k_name0 d l))

(** val merge_action :
    ckey list -> ckey list -> bool -> n -> ckey -> ckey -> action out res **)

let merge_action all_a all_b splitable pos_a ka kb =
  if N.eqb ka.k_name0 kb.k_name0
  then bind ka.k_ident (fun ident ->
         if ident
         then calc_identifiables_merge all_b ka kb splitable
         else bind (calc_element_merge all_b ka kb) (fun a -> Val (OK a)))
  else bind ka.k_idx (fun ia ->
         match ia with
         | Some indices_a ->
           bind kb.k_idx (fun ib ->
             match ib with
             | Some indices_b ->
               bind (find_merge_partner all_b ka) (fun pa ->
                 match pa with
                 | Some sibling -> Val (OK (MergeUnequal sibling))
                 | None ->
                   bind (find_merge_partner all_a kb) (fun pb ->
                     match pb with
                     | Some _ -> Val (OK AOnly)
                     | None ->
                       Val (OK
                         (match lex_cmp indices_a indices_b with
                          | Lt -> AOnly
                          | _ -> BOnly pos_a))))
             | None ->
               Pan (String ((Ascii (true, false, false, false, false, true,
                 true, false)), (String ((Ascii (true, false, true, false,
                 true, true, true, false)), (String ((Ascii (false, false,
                 true, false, true, true, true, false)), (String ((Ascii
                 (true, true, true, true, false, true, true, false)), (String
                 ((Ascii (true, true, false, false, true, true, true,
                 false)), (String ((Ascii (true, false, false, false, false,
                 true, true, false)), (String ((Ascii (false, true, false,
                 false, true, true, true, false)), (String ((Ascii (true,
                 false, true, true, false, true, true, false)), (String
                 ((Ascii (true, true, true, true, false, true, true, false)),
                 (String ((Ascii (false, false, true, false, false, true,
                 true, false)), (String ((Ascii (true, false, true, false,
                 false, true, true, false)), (String ((Ascii (false, false,
                 true, true, false, true, true, false)), (String ((Ascii
                 (false, true, true, true, false, true, false, false)),
                 (String ((Ascii (false, true, false, false, true, true,
                 true, false)), (String ((Ascii (true, true, false, false,
                 true, true, true, false)), (String ((Ascii (false, false,
                 false, false, false, true, false, false)), (String ((Ascii
                 (true, false, true, true, false, true, true, false)),
                 (String ((Ascii (true, false, true, false, false, true,
                 true, false)), (String ((Ascii (false, true, false, false,
                 true, true, true, false)), (String ((Ascii (true, true,
                 true, false, false, true, true, false)), (String ((Ascii
                 (true, false, true, false, false, true, true, false)),
                 (String ((Ascii (true, true, true, true, true, false, true,
                 false)), (String ((Ascii (true, false, true, false, false,
                 true, true, false)), (String ((Ascii (false, false, true,
                 true, false, true, true, false)), (String ((Ascii (true,
                 false, true, false, false, true, true, false)), (String
                 ((Ascii (true, false, true, true, false, true, true,
                 false)), (String ((Ascii (true, false, true, false, false,
                 true, true, false)), (String ((Ascii (false, true, true,
                 true, false, true, true, false)), (String ((Ascii (false,
                 false, true, false, true, true, true, false)), (String
                 ((Ascii (false, true, false, true, true, true, false,
                 false)), (String ((Ascii (false, false, false, false, false,
                 true, false, false)), (String ((Ascii (false, true, true,
                 false, false, true, true, false)), (String ((Ascii (true,
                 false, false, true, false, true, true, false)), (String
                 ((Ascii (false, true, true, true, false, true, true,
                 false)), (String ((Ascii (false, false, true, false, false,
                 true, true, false)), (String ((Ascii (true, true, true,
                 true, true, false, true, false)), (String ((Ascii (true,
                 true, false, false, true, true, true, false)), (String
                 ((Ascii (true, false, true, false, true, true, true,
                 false)), (String ((Ascii (false, true, false, false, false,
                 true, true, false)), (String ((Ascii (true, true, true,
                 true, true, false, true, false)), (String ((Ascii (true,
                 false, true, false, false, true, true, false)), (String
                 ((Ascii (false, false, true, true, false, true, true,
                 false)), (String ((Ascii (true, false, true, false, false,
                 true, true, false)), (String ((Ascii (true, false, true,
                 true, false, true, true, false)), (String ((Ascii (true,
                 false, true, false, false, true, true, false)), (String
                 ((Ascii (false, true, true, true, false, true, true,
                 false)), (String ((Ascii (false, false, true, false, true,
                 true, true, false)), (String ((Ascii (false, false, false,
                 true, false, true, false, false)), (String ((Ascii (true,
                 false, true, false, false, true, true, false)), (String
                 ((Ascii (false, false, true, true, false, true, true,
                 false)), (String ((Ascii (true, false, true, false, false,
                 true, true, false)), (String ((Ascii (true, false, true,
                 true, false, true, true, false)), (String ((Ascii (true,
                 true, true, true, true, false, true, false)), (String
                 ((Ascii (false, true, false, false, false, true, true,
                 false)), (String ((Ascii (false, true, true, true, false,
                 true, false, false)), (String ((Ascii (true, false, true,
                 false, false, true, true, false)), (String ((Ascii (false,
                 false, true, true, false, true, true, false)), (String
                 ((Ascii (true, false, true, false, false, true, true,
                 false)), (String ((Ascii (true, false, true, true, false,
                 true, true, false)), (String ((Ascii (true, false, true,
                 false, false, true, true, false)), (String ((Ascii (false,
                 true, true, true, false, true, true, false)), (String
                 ((Ascii (false, false, true, false, true, true, true,
                 false)), (String ((Ascii (true, true, true, true, true,
                 false, true, false)), (String ((Ascii (false, true, true,
                 true, false, true, true, false)), (String ((Ascii (true,
                 false, false, false, false, true, true, false)), (String
                 ((Ascii (true, false, true, true, false, true, true,
                 false)), (String ((Ascii (true, false, true, false, false,
                 true, true, false)), (String ((Ascii (false, false, false,
                 true, false, true, false, false)), (String ((Ascii (true,
                 false, false, true, false, true, false, false)), (String
                 ((Ascii (false, false, true, true, false, true, false,
                 false)), (String ((Ascii (false, false, false, false, false,
                 true, false, false)), (String ((Ascii (true, false, true,
                 false, true, true, true, false)), (String ((Ascii (true,
                 true, false, false, true, true, false, false)), (String
                 ((Ascii (false, true, false, false, true, true, false,
                 false)), (String ((Ascii (false, true, false, true, true,
                 true, false, false)), (String ((Ascii (false, true, false,
                 true, true, true, false, false)), (String ((Ascii (true,
                 false, true, true, false, false, true, false)), (String
                 ((Ascii (true, false, false, false, false, false, true,
                 false)), (String ((Ascii (false, false, false, true, true,
                 false, true, false)), (String ((Ascii (true, false, false,
                 true, false, true, false, false)), (String ((Ascii (false,
                 true, true, true, false, true, false, false)), (String
                 ((Ascii (true, false, true, false, true, true, true,
                 false)), (String ((Ascii (false, true, true, true, false,
                 true, true, false)), (String ((Ascii (true, true, true,
                 false, true, true, true, false)), (String ((Ascii (false,
                 true, false, false, true, true, true, false)), (String
                 ((Ascii (true, false, false, false, false, true, true,
                 false)), (String ((Ascii (false, false, false, false, true,
                 true, true, false)), (String ((Ascii (false, false, false,
                 true, false, true, false, false)), (String ((Ascii (true,
                 false, false, true, false, true, false, false)),
                 EmptyString)))))))))))))))))))))))))))))))))))))))))))))))))))))))))))))))))))))))))))))))))))))))))))))))))))))))))))))))))))))))))))))))))))))))))))))))))))))))))))))))))))))))))))))))))))
         | None ->
           Pan (String ((Ascii (true, false, false, false, false, true, true,
             false)), (String ((Ascii (true, false, true, false, true, true,
             true, false)), (String ((Ascii (false, false, true, false, true,
             true, true, false)), (String ((Ascii (true, true, true, true,
             false, true, true, false)), (String ((Ascii (true, true, false,
             false, true, true, true, false)), (String ((Ascii (true, false,
             false, false, false, true, true, false)), (String ((Ascii
             (false, true, false, false, true, true, true, false)), (String
             ((Ascii (true, false, true, true, false, true, true, false)),
             (String ((Ascii (true, true, true, true, false, true, true,
             false)), (String ((Ascii (false, false, true, false, false,
             true, true, false)), (String ((Ascii (true, false, true, false,
             false, true, true, false)), (String ((Ascii (false, false, true,
             true, false, true, true, false)), (String ((Ascii (false, true,
             true, true, false, true, false, false)), (String ((Ascii (false,
             true, false, false, true, true, true, false)), (String ((Ascii
             (true, true, false, false, true, true, true, false)), (String
             ((Ascii (false, false, false, false, false, true, false,
             false)), (String ((Ascii (true, false, true, true, false, true,
             true, false)), (String ((Ascii (true, false, true, false, false,
             true, true, false)), (String ((Ascii (false, true, false, false,
             true, true, true, false)), (String ((Ascii (true, true, true,
             false, false, true, true, false)), (String ((Ascii (true, false,
             true, false, false, true, true, false)), (String ((Ascii (true,
             true, true, true, true, false, true, false)), (String ((Ascii
             (true, false, true, false, false, true, true, false)), (String
             ((Ascii (false, false, true, true, false, true, true, false)),
             (String ((Ascii (true, false, true, false, false, true, true,
             false)), (String ((Ascii (true, false, true, true, false, true,
             true, false)), (String ((Ascii (true, false, true, false, false,
             true, true, false)), (String ((Ascii (false, true, true, true,
             false, true, true, false)), (String ((Ascii (false, false, true,
             false, true, true, true, false)), (String ((Ascii (false, true,
             false, true, true, true, false, false)), (String ((Ascii (false,
             false, false, false, false, true, false, false)), (String
             ((Ascii (false, true, true, false, false, true, true, false)),
             (String ((Ascii (true, false, false, true, false, true, true,
             false)), (String ((Ascii (false, true, true, true, false, true,
             true, false)), (String ((Ascii (false, false, true, false,
             false, true, true, false)), (String ((Ascii (true, true, true,
             true, true, false, true, false)), (String ((Ascii (true, true,
             false, false, true, true, true, false)), (String ((Ascii (true,
             false, true, false, true, true, true, false)), (String ((Ascii
             (false, true, false, false, false, true, true, false)), (String
             ((Ascii (true, true, true, true, true, false, true, false)),
             (String ((Ascii (true, false, true, false, false, true, true,
             false)), (String ((Ascii (false, false, true, true, false, true,
             true, false)), (String ((Ascii (true, false, true, false, false,
             true, true, false)), (String ((Ascii (true, false, true, true,
             false, true, true, false)), (String ((Ascii (true, false, true,
             false, false, true, true, false)), (String ((Ascii (false, true,
             true, true, false, true, true, false)), (String ((Ascii (false,
             false, true, false, true, true, true, false)), (String ((Ascii
             (false, false, false, true, false, true, false, false)), (String
             ((Ascii (true, false, true, false, false, true, true, false)),
             (String ((Ascii (false, false, true, true, false, true, true,
             false)), (String ((Ascii (true, false, true, false, false, true,
             true, false)), (String ((Ascii (true, false, true, true, false,
             true, true, false)), (String ((Ascii (true, true, true, true,
             true, false, true, false)), (String ((Ascii (true, false, false,
             false, false, true, true, false)), (String ((Ascii (false, true,
             true, true, false, true, false, false)), (String ((Ascii (true,
             false, true, false, false, true, true, false)), (String ((Ascii
             (false, false, true, true, false, true, true, false)), (String
             ((Ascii (true, false, true, false, false, true, true, false)),
             (String ((Ascii (true, false, true, true, false, true, true,
             false)), (String ((Ascii (true, false, true, false, false, true,
             true, false)), (String ((Ascii (false, true, true, true, false,
             true, true, false)), (String ((Ascii (false, false, true, false,
             true, true, true, false)), (String ((Ascii (true, true, true,
             true, true, false, true, false)), (String ((Ascii (false, true,
             true, true, false, true, true, false)), (String ((Ascii (true,
             false, false, false, false, true, true, false)), (String ((Ascii
             (true, false, true, true, false, true, true, false)), (String
             ((Ascii (true, false, true, false, false, true, true, false)),
             (String ((Ascii (false, false, false, true, false, true, false,
             false)), (String ((Ascii (true, false, false, true, false, true,
             false, false)), (String ((Ascii (false, false, true, true,
             false, true, false, false)), (String ((Ascii (false, false,
             false, false, false, true, false, false)), (String ((Ascii
             (true, false, true, false, true, true, true, false)), (String
             ((Ascii (true, true, false, false, true, true, false, false)),
             (String ((Ascii (false, true, false, false, true, true, false,
             false)), (String ((Ascii (false, true, false, true, true, true,
             false, false)), (String ((Ascii (false, true, false, true, true,
             true, false, false)), (String ((Ascii (true, false, true, true,
             false, false, true, false)), (String ((Ascii (true, false,
             false, false, false, false, true, false)), (String ((Ascii
             (false, false, false, true, true, false, true, false)), (String
             ((Ascii (true, false, false, true, false, true, false, false)),
             (String ((Ascii (false, true, true, true, false, true, false,
             false)), (String ((Ascii (true, false, true, false, true, true,
             true, false)), (String ((Ascii (false, true, true, true, false,
             true, true, false)), (String ((Ascii (true, true, true, false,
             true, true, true, false)), (String ((Ascii (false, true, false,
             false, true, true, true, false)), (String ((Ascii (true, false,
             false, false, false, true, true, false)), (String ((Ascii
             (false, false, false, false, true, true, true, false)), (String
             ((Ascii (false, false, false, true, false, true, false, false)),
             (String ((Ascii (true, false, false, true, false, true, false,
             false)),
             EmptyString)))))))))))))))))))))))))))))))))))))))))))))))))))))))))))))))))))))))))))))))))))))))))))))))))))))))))))))))))))))))))))))))))))))))))))))))))))))))))))))))))))))))))))))))))))

(** val merged_b : (id * id) list -> id -> bool **)

let merged_b merges b =
  existsb (fun p -> N.eqb (snd p) b) merges

type walked = { wk_merge : (id * id) list; wk_a_only : id list;
                wk_b_only : (id * n) list }

(** val walk0 :
    nat -> ckey list -> ckey list -> bool -> n -> n -> ckey list -> ckey list
    -> walked -> walked out res **)

let rec walk0 fuel all_a all_b splitable elem_count pos_a la lb acc =
  match fuel with
  | O -> Fuel
  | S f ->
    (match la with
     | [] ->
       (match lb with
        | [] ->
          Val (OK { wk_merge = acc.wk_merge; wk_a_only =
            (app acc.wk_a_only (map (fun c -> c.k_id) la)); wk_b_only =
            acc.wk_b_only })
        | _ :: _ ->
          Val (OK { wk_merge = acc.wk_merge; wk_a_only = acc.wk_a_only;
            wk_b_only =
            (app acc.wk_b_only
              (map (fun kb -> (kb.k_id, elem_count))
                (filter (fun kb -> negb (merged_b acc.wk_merge kb.k_id)) lb))) }))
     | ka :: la' ->
       (match lb with
        | [] ->
          Val (OK { wk_merge = acc.wk_merge; wk_a_only =
            (app acc.wk_a_only (map (fun c -> c.k_id) la)); wk_b_only =
            acc.wk_b_only })
        | kb :: lb' ->
          bind (merge_action all_a all_b splitable pos_a ka kb) (fun act ->
            match act with
            | OK a ->
              (match a with
               | MergeEqual ->
                 walk0 f all_a all_b splitable elem_count
                   (N.add pos_a (Npos XH)) la' lb' { wk_merge =
                   (app acc.wk_merge ((ka.k_id, kb.k_id) :: [])); wk_a_only =
                   acc.wk_a_only; wk_b_only = acc.wk_b_only }
               | MergeUnequal other_b ->
                 walk0 f all_a all_b splitable elem_count
                   (N.add pos_a (Npos XH)) la' lb { wk_merge =
                   (app acc.wk_merge ((ka.k_id, other_b) :: [])); wk_a_only =
                   acc.wk_a_only; wk_b_only = acc.wk_b_only }
               | AOnly ->
                 walk0 f all_a all_b splitable elem_count
                   (N.add pos_a (Npos XH)) la' lb { wk_merge = acc.wk_merge;
                   wk_a_only = (app acc.wk_a_only (ka.k_id :: []));
                   wk_b_only = acc.wk_b_only }
               | BOnly position0 ->
                 walk0 f all_a all_b splitable elem_count pos_a la lb'
                   { wk_merge = acc.wk_merge; wk_a_only = acc.wk_a_only;
                   wk_b_only =
                   (if merged_b acc.wk_merge kb.k_id
                    then acc.wk_b_only
                    else app acc.wk_b_only ((kb.k_id, position0) :: [])) })
            | ER e -> Val (ER e))))

(** val files_min_version : n -> world -> n list -> n **)

let files_min_version lATEST w0 files =
  match flat_map (fun f ->
          match nth_opt w0.w_files (N.to_nat f) with
          | Some x -> x.f_version :: []
          | None -> []) files with
  | [] -> lATEST
  | v :: r -> fold_left N.min r v

(** val restrict_a_only : id list -> n list -> unit w **)

let rec restrict_a_only l files =
  match l with
  | [] -> wret ()
  | e :: r ->
    wbind
      (modify_node e (fun x ->
        if is_empty x.n_files then set_files x files else x)) (fun _ ->
      restrict_a_only r files)

(** val import_new_items :
    tables -> id -> (id * n) list -> n -> n -> n -> unit w **)

let rec import_new_items t parent_a l idx new_file min_ver_b =
  match l with
  | [] -> wret ()
  | p :: r ->
    let (new_element, insert_pos) = p in
    wbind (modify_node new_element (fun x -> set_parent x (PElem parent_a)))
      (fun _ ->
      wbind
        (modify_node new_element (fun x ->
          set_files x (set_add new_file x.n_files))) (fun _ ->
        wbind (get_node new_element) (fun ne ->
          wbind (get_node parent_a) (fun pa ->
            wbind
              (wcatch (calc_element_insert_range t pa ne.n_name min_ver_b))
              (fun range ->
              match range with
              | OK a ->
                let (first_pos, last_pos) = a in
                let dest =
                  N.min (N.max (N.add insert_pos idx) first_pos) last_pos
                in
                wbind (content_insert parent_a dest (CElem new_element))
                  (fun _ ->
                  import_new_items t parent_a r (N.add idx (Npos XH))
                    new_file min_ver_b)
              | ER _ -> wfail InvalidFileMerge)))))

(** val merge_element :
    tables -> n -> n -> nat -> id -> n list -> id -> n -> unit w **)

let rec merge_element t lATEST name_definition_ref fuel parent_a files parent_b new_file =
  match fuel with
  | O -> wfuel
  | S fl ->
    wbind wget (fun w0 ->
      wbind (get_node parent_a) (fun na ->
        wbind (get_node parent_b) (fun nb ->
          let pty = na.n_type in
          wbind (wl (keys_of t name_definition_ref w0 pty na.n_content))
            (fun la ->
            wbind (wl (keys_of t name_definition_ref w0 pty nb.n_content))
              (fun lb ->
              let min_ver_a = files_min_version lATEST w0 files in
              let min_ver_b =
                match nth_opt w0.w_files (N.to_nat new_file) with
                | Some x -> x.f_version
                | None -> lATEST
              in
              let version = N.min min_ver_a min_ver_b in
              wbind (wl (splittable_in t pty version)) (fun splitable ->
                wbind (fun w1 ->
                  match walk0 (S (add (length la) (length lb))) la lb
                          splitable (N.of_nat (length na.n_content)) N0 la lb
                          { wk_merge = []; wk_a_only = []; wk_b_only = [] } with
                  | Val o -> Val (o, w1)
                  | Pan s -> Pan s
                  | Fuel -> Fuel) (fun wk ->
                  wbind (restrict_a_only wk.wk_a_only files) (fun _ ->
                    wbind
                      (import_new_items t parent_a wk.wk_b_only N0 new_file
                        min_ver_b) (fun _ ->
                      let rec subs = function
                      | [] -> wret ()
                      | p :: r ->
                        let (elem_a, elem_b) = p in
                        wbind (get_node elem_a) (fun ea ->
                          let files' =
                            if negb (is_empty ea.n_files)
                            then ea.n_files
                            else files
                          in
                          wbind
                            (merge_element t lATEST name_definition_ref fl
                              elem_a files' elem_b new_file) (fun _ ->
                            wbind
                              (modify_node elem_a (fun x ->
                                if negb (is_empty x.n_files)
                                then set_files x (set_add new_file x.n_files)
                                else x)) (fun _ -> subs r)))
                      in subs wk.wk_merge)))))))))

(** val merge_file_data : tables -> n -> n -> n -> n -> n -> unit w **)

let merge_file_data t lATEST name_definition_ref m0 new_root new_file =
  wbind (get_model m0) (fun x ->
    wbind wget (fun w0 ->
      wbind
        (merge_element t lATEST name_definition_ref (fuel_of w0) x.m_root
          (fold_right set_add [] x.m_files) new_root new_file) (fun _ ->
        wbind (get_model m0) (fun x2 ->
          modify_node x2.m_root (fun r ->
            set_files r (set_add new_file r.n_files))))))

(** val ident_live : world -> model -> n list -> id option **)

let ident_live w0 x key =
  match assoc_get key x.m_idents with
  | Some e -> if node_dead w0 e then None else Some e
  | None -> None

(** val overlap_check :
    world -> model -> itree -> (n list * nat list) list -> n list list ->
    bool res **)

let rec overlap_check w0 x t l new_paths =
  match l with
  | [] -> Val false
  | p :: r ->
    let (key, pos) = p in
    (match it_at t pos with
     | Some value0 ->
       (match w0.w_nodes value0 with
        | Some vn ->
          let differs_from_existing =
            match ident_live w0 x key with
            | Some existing ->
              (match w0.w_nodes existing with
               | Some en -> negb (N.eqb en.n_name vn.n_name)
               | None -> false)
            | None -> false
          in
          if (||) differs_from_existing (existsb (bytes_eqb key) new_paths)
          then Val true
          else overlap_check w0 x t r (key :: new_paths)
        | None ->
          Pan (String ((Ascii (false, false, true, false, false, true, true,
            false)), (String ((Ascii (true, false, false, false, false, true,
            true, false)), (String ((Ascii (false, true, true, true, false,
            true, true, false)), (String ((Ascii (true, true, true, false,
            false, true, true, false)), (String ((Ascii (false, false, true,
            true, false, true, true, false)), (String ((Ascii (true, false,
            false, true, false, true, true, false)), (String ((Ascii (false,
            true, true, true, false, true, true, false)), (String ((Ascii
            (true, true, true, false, false, true, true, false)), (String
            ((Ascii (false, false, false, false, false, true, false, false)),
            (String ((Ascii (false, true, true, true, false, true, true,
            false)), (String ((Ascii (true, true, true, true, false, true,
            true, false)), (String ((Ascii (false, false, true, false, false,
            true, true, false)), (String ((Ascii (true, false, true, false,
            false, true, true, false)), (String ((Ascii (false, false, false,
            false, false, true, false, false)), (String ((Ascii (true, false,
            false, true, false, true, true, false)), (String ((Ascii (false,
            false, true, false, false, true, true, false)),
            EmptyString)))))))))))))))))))))))))))))))))
     | None ->
       Pan (String ((Ascii (false, false, true, true, false, false, true,
         false)), (String ((Ascii (true, true, true, true, false, true, true,
         false)), (String ((Ascii (true, false, false, false, false, true,
         true, false)), (String ((Ascii (false, false, true, false, false,
         true, true, false)), (String ((Ascii (false, true, false, true,
         true, true, false, false)), (String ((Ascii (false, false, false,
         false, false, true, false, false)), (String ((Ascii (false, false,
         false, false, true, true, true, false)), (String ((Ascii (true,
         false, false, false, false, true, true, false)), (String ((Ascii
         (false, true, false, false, true, true, true, false)), (String
         ((Ascii (true, true, false, false, true, true, true, false)),
         (String ((Ascii (true, false, true, false, false, true, true,
         false)), (String ((Ascii (false, true, false, false, true, true,
         true, false)), (String ((Ascii (false, false, false, false, false,
         true, false, false)), (String ((Ascii (false, false, false, false,
         true, true, true, false)), (String ((Ascii (true, true, true, true,
         false, true, true, false)), (String ((Ascii (true, true, false,
         false, true, true, true, false)), (String ((Ascii (true, false,
         false, true, false, true, true, false)), (String ((Ascii (false,
         false, true, false, true, true, true, false)), (String ((Ascii
         (true, false, false, true, false, true, true, false)), (String
         ((Ascii (true, true, true, true, false, true, true, false)), (String
         ((Ascii (false, true, true, true, false, true, true, false)),
         (String ((Ascii (false, false, false, false, false, true, false,
         false)), (String ((Ascii (false, false, true, false, false, true,
         true, false)), (String ((Ascii (true, true, true, true, false, true,
         true, false)), (String ((Ascii (true, false, true, false, false,
         true, true, false)), (String ((Ascii (true, true, false, false,
         true, true, true, false)), (String ((Ascii (false, false, false,
         false, false, true, false, false)), (String ((Ascii (false, true,
         true, true, false, true, true, false)), (String ((Ascii (true, true,
         true, true, false, true, true, false)), (String ((Ascii (false,
         false, true, false, true, true, true, false)), (String ((Ascii
         (false, false, false, false, false, true, false, false)), (String
         ((Ascii (false, false, true, false, false, true, true, false)),
         (String ((Ascii (true, false, true, false, false, true, true,
         false)), (String ((Ascii (false, true, true, true, false, true,
         true, false)), (String ((Ascii (true, true, true, true, false, true,
         true, false)), (String ((Ascii (false, false, true, false, true,
         true, true, false)), (String ((Ascii (true, false, true, false,
         false, true, true, false)), (String ((Ascii (false, false, false,
         false, false, true, false, false)), (String ((Ascii (true, false,
         false, false, false, true, true, false)), (String ((Ascii (false,
         true, true, true, false, true, true, false)), (String ((Ascii
         (false, false, false, false, false, true, false, false)), (String
         ((Ascii (true, false, true, false, false, true, true, false)),
         (String ((Ascii (false, false, true, true, false, true, true,
         false)), (String ((Ascii (true, false, true, false, false, true,
         true, false)), (String ((Ascii (true, false, true, true, false,
         true, true, false)), (String ((Ascii (true, false, true, false,
         false, true, true, false)), (String ((Ascii (false, true, true,
         true, false, true, true, false)), (String ((Ascii (false, false,
         true, false, true, true, true, false)),
         EmptyString)))))))))))))))))))))))))))))))))))))))))))))))))))))))))))))))))))))))))))))))))))))))))))))))))

(** val fill_identifiables :
    n -> itree -> (n list * nat list) list -> unit w **)

let rec fill_identifiables m0 t = function
| [] -> wret ()
| p :: r ->
  let (key, pos) = p in
  (match it_at t pos with
   | Some value0 ->
     wbind wget (fun w0 ->
       wbind (get_model m0) (fun x ->
         match ident_live w0 x key with
         | Some _ -> fill_identifiables m0 t r
         | None ->
           wbind (add_identifiable m0 key value0) (fun _ ->
             fill_identifiables m0 t r)))
   | None ->
     wpanic (String ((Ascii (false, false, true, true, false, false, true,
       false)), (String ((Ascii (true, true, true, true, false, true, true,
       false)), (String ((Ascii (true, false, false, false, false, true,
       true, false)), (String ((Ascii (false, false, true, false, false,
       true, true, false)), (String ((Ascii (false, true, false, true, true,
       true, false, false)), (String ((Ascii (false, false, false, false,
       false, true, false, false)), (String ((Ascii (false, false, false,
       false, true, true, true, false)), (String ((Ascii (true, false, false,
       false, false, true, true, false)), (String ((Ascii (false, true,
       false, false, true, true, true, false)), (String ((Ascii (true, true,
       false, false, true, true, true, false)), (String ((Ascii (true, false,
       true, false, false, true, true, false)), (String ((Ascii (false, true,
       false, false, true, true, true, false)), (String ((Ascii (false,
       false, false, false, false, true, false, false)), (String ((Ascii
       (false, false, false, false, true, true, true, false)), (String
       ((Ascii (true, true, true, true, false, true, true, false)), (String
       ((Ascii (true, true, false, false, true, true, true, false)), (String
       ((Ascii (true, false, false, true, false, true, true, false)), (String
       ((Ascii (false, false, true, false, true, true, true, false)), (String
       ((Ascii (true, false, false, true, false, true, true, false)), (String
       ((Ascii (true, true, true, true, false, true, true, false)), (String
       ((Ascii (false, true, true, true, false, true, true, false)), (String
       ((Ascii (false, false, false, false, false, true, false, false)),
       (String ((Ascii (false, false, true, false, false, true, true,
       false)), (String ((Ascii (true, true, true, true, false, true, true,
       false)), (String ((Ascii (true, false, true, false, false, true, true,
       false)), (String ((Ascii (true, true, false, false, true, true, true,
       false)), (String ((Ascii (false, false, false, false, false, true,
       false, false)), (String ((Ascii (false, true, true, true, false, true,
       true, false)), (String ((Ascii (true, true, true, true, false, true,
       true, false)), (String ((Ascii (false, false, true, false, true, true,
       true, false)), (String ((Ascii (false, false, false, false, false,
       true, false, false)), (String ((Ascii (false, false, true, false,
       false, true, true, false)), (String ((Ascii (true, false, true, false,
       false, true, true, false)), (String ((Ascii (false, true, true, true,
       false, true, true, false)), (String ((Ascii (true, true, true, true,
       false, true, true, false)), (String ((Ascii (false, false, true,
       false, true, true, true, false)), (String ((Ascii (true, false, true,
       false, false, true, true, false)), (String ((Ascii (false, false,
       false, false, false, true, false, false)), (String ((Ascii (true,
       false, false, false, false, true, true, false)), (String ((Ascii
       (false, true, true, true, false, true, true, false)), (String ((Ascii
       (false, false, false, false, false, true, false, false)), (String
       ((Ascii (true, false, true, false, false, true, true, false)), (String
       ((Ascii (false, false, true, true, false, true, true, false)), (String
       ((Ascii (true, false, true, false, false, true, true, false)), (String
       ((Ascii (true, false, true, true, false, true, true, false)), (String
       ((Ascii (true, false, true, false, false, true, true, false)), (String
       ((Ascii (false, true, true, true, false, true, true, false)), (String
       ((Ascii (false, false, true, false, true, true, true, false)),
       EmptyString)))))))))))))))))))))))))))))))))))))))))))))))))))))))))))))))))))))))))))))))))))))))))))))))))

(** val fill_references : n -> itree -> (n list * nat list) list -> unit w **)

let rec fill_references m0 t = function
| [] -> wret ()
| p :: r ->
  let (refpath, pos) = p in
  (match it_at t pos with
   | Some e ->
     wbind (add_reference_origin m0 refpath e) (fun _ ->
       fill_references m0 t r)
   | None ->
     wpanic (String ((Ascii (false, false, true, true, false, false, true,
       false)), (String ((Ascii (true, true, true, true, false, true, true,
       false)), (String ((Ascii (true, false, false, false, false, true,
       true, false)), (String ((Ascii (false, false, true, false, false,
       true, true, false)), (String ((Ascii (false, true, false, true, true,
       true, false, false)), (String ((Ascii (false, false, false, false,
       false, true, false, false)), (String ((Ascii (false, false, false,
       false, true, true, true, false)), (String ((Ascii (true, false, false,
       false, false, true, true, false)), (String ((Ascii (false, true,
       false, false, true, true, true, false)), (String ((Ascii (true, true,
       false, false, true, true, true, false)), (String ((Ascii (true, false,
       true, false, false, true, true, false)), (String ((Ascii (false, true,
       false, false, true, true, true, false)), (String ((Ascii (false,
       false, false, false, false, true, false, false)), (String ((Ascii
       (false, false, false, false, true, true, true, false)), (String
       ((Ascii (true, true, true, true, false, true, true, false)), (String
       ((Ascii (true, true, false, false, true, true, true, false)), (String
       ((Ascii (true, false, false, true, false, true, true, false)), (String
       ((Ascii (false, false, true, false, true, true, true, false)), (String
       ((Ascii (true, false, false, true, false, true, true, false)), (String
       ((Ascii (true, true, true, true, false, true, true, false)), (String
       ((Ascii (false, true, true, true, false, true, true, false)), (String
       ((Ascii (false, false, false, false, false, true, false, false)),
       (String ((Ascii (false, false, true, false, false, true, true,
       false)), (String ((Ascii (true, true, true, true, false, true, true,
       false)), (String ((Ascii (true, false, true, false, false, true, true,
       false)), (String ((Ascii (true, true, false, false, true, true, true,
       false)), (String ((Ascii (false, false, false, false, false, true,
       false, false)), (String ((Ascii (false, true, true, true, false, true,
       true, false)), (String ((Ascii (true, true, true, true, false, true,
       true, false)), (String ((Ascii (false, false, true, false, true, true,
       true, false)), (String ((Ascii (false, false, false, false, false,
       true, false, false)), (String ((Ascii (false, false, true, false,
       false, true, true, false)), (String ((Ascii (true, false, true, false,
       false, true, true, false)), (String ((Ascii (false, true, true, true,
       false, true, true, false)), (String ((Ascii (true, true, true, true,
       false, true, true, false)), (String ((Ascii (false, false, true,
       false, true, true, true, false)), (String ((Ascii (true, false, true,
       false, false, true, true, false)), (String ((Ascii (false, false,
       false, false, false, true, false, false)), (String ((Ascii (true,
       false, false, false, false, true, true, false)), (String ((Ascii
       (false, true, true, true, false, true, true, false)), (String ((Ascii
       (false, false, false, false, false, true, false, false)), (String
       ((Ascii (true, false, true, false, false, true, true, false)), (String
       ((Ascii (false, false, true, true, false, true, true, false)), (String
       ((Ascii (true, false, true, false, false, true, true, false)), (String
       ((Ascii (true, false, true, true, false, true, true, false)), (String
       ((Ascii (true, false, true, false, false, true, true, false)), (String
       ((Ascii (false, true, true, true, false, true, true, false)), (String
       ((Ascii (false, false, true, false, true, true, true, false)),
       EmptyString)))))))))))))))))))))))))))))))))))))))))))))))))))))))))))))))))))))))))))))))))))))))))))))))))

(** val load_parsed :
    tables -> n -> n -> n -> n list -> etree -> pstate -> n w **)

let load_parsed t lATEST name_definition_ref m0 filename0 root st =
  wbind wget (fun w0 ->
    let base = w0.w_next in
    wbind (install PNone root) (fun t0 ->
      let root_element = it_id t0 in
      let fid = N.of_nat (length w0.w_files) in
      wbind wget (fun w1 ->
        wbind (get_model m0) (fun x0 ->
          wbind (wl (overlap_check w1 x0 t0 (rev st.p_idents) []))
            (fun overlap ->
            if overlap
            then wbind (kill_unreachable base []) (fun _ ->
                   wfail OverlappingDataError)
            else wbind
                   (wput { w_nodes = w1.w_nodes; w_next = w1.w_next;
                     w_files =
                     (app w1.w_files ({ f_model = m0; f_name = filename0;
                       f_version = st.p_version; f_standalone =
                       st.p_standalone } :: [])); w_models = w1.w_models })
                   (fun _ ->
                   wbind (get_model m0) (fun x ->
                     wbind
                       (wcatch
                         (wbind
                           (if is_empty x.m_files
                            then wbind
                                   (modify_node root_element (fun n0 ->
                                     set_parent n0 (PModel m0))) (fun _ ->
                                   wbind
                                     (modify_node root_element (fun n0 ->
                                       set_files n0 (set_add fid n0.n_files)))
                                     (fun _ ->
                                     modify_model m0 (fun y ->
                                       set_root y root_element)))
                            else wbind
                                   (wcatch
                                     (merge_file_data t lATEST
                                       name_definition_ref m0 root_element
                                       fid)) (fun mr ->
                                   match mr with
                                   | OK _ -> wret ()
                                   | ER e ->
                                     wbind (get_model m0) (fun x1 ->
                                       wbind
                                         (wtry
                                           (e_remove_from_file t x1.m_root
                                             fid)) (fun _ -> wfail e))))
                           (fun _ ->
                           wbind (fill_identifiables m0 t0 (rev st.p_idents))
                             (fun _ ->
                             wbind (fill_references m0 t0 (rev st.p_refs))
                               (fun _ ->
                               modify_model m0 (fun y ->
                                 set_mfiles y (app y.m_files (fid :: []))))))))
                       (fun r ->
                       wbind (get_model m0) (fun x3 ->
                         wbind wget (fun w3 ->
                           wbind (dfs_ids (fuel_of w3) x3.m_root)
                             (fun keep ->
                             wbind (kill_unreachable base keep) (fun _ ->
                               match r with
                               | OK _ -> wret fid
                               | ER e ->
                                 wbind (drop_file fid) (fun _ -> wfail e)))))))))))))

(** val m_load_buffer :
    tables -> nametab -> nametab -> nametab -> (n -> n list -> bool res) ->
    (n list -> n option) -> n -> n -> n -> n list -> n list -> bool ->
    (n * perror list) w **)

let m_load_buffer t tab_el tab_at tab_en check_fn float_parse lATEST name_definition_ref m0 buffer filename0 strict =
  wbind (get_model m0) (fun x ->
    wbind wget (fun w0 ->
      if existsb (fun f ->
           match nth_opt w0.w_files (N.to_nat f) with
           | Some fl -> bytes_eqb fl.f_name filename0
           | None -> false) x.m_files
      then wfail DuplicateFilenameError
      else (match load strict t tab_el tab_at tab_en check_fn float_parse
                    buffer with
            | Val a ->
              (match a with
               | Ret (root, st) ->
                 wbind
                   (load_parsed t lATEST name_definition_ref m0 filename0
                     root st) (fun f -> wret (f, (rev st.p_warnings)))
               | Raise (_, _) -> wfail LoadError)
            | Pan s -> wpanic s
            | Fuel -> wfuel)))

(** val q_get_by_path_live : n -> n list -> id option w **)

let q_get_by_path_live m0 p =
  wbind (get_model m0) (fun x ->
    wbind wget (fun w0 -> wret (ident_live w0 x p)))

(** val q_check_references_live : tables -> n -> id list w **)

let q_check_references_live t m0 =
  wbind (get_model m0) (fun x ->
    wbind wget (fun w0 ->
      let rec each = function
      | [] -> wret []
      | p :: rest ->
        let (path, refs) = p in
        wbind (each rest) (fun r ->
          match assoc_get path x.m_idents with
          | Some target ->
            if node_dead w0 target
            then wret (app refs r)
            else wbind (get_node target) (fun tn ->
                   wbind
                     (let rec chk = function
                      | [] -> wret []
                      | re :: rr ->
                        wbind (chk rr) (fun b ->
                          if node_dead w0 re
                          then wret b
                          else wbind (get_node re) (fun rn ->
                                 match attr_value rn t.attr_dest with
                                 | Some c ->
                                   (match c with
                                    | DEnum d ->
                                      wbind
                                        (wlift
                                          (verify_reference_dest t tn.n_type
                                            d)) (fun ok ->
                                        wret (if ok then b else re :: b))
                                    | _ -> wret (re :: b))
                                 | None -> wret (re :: b)))
                      in chk refs) (fun bad -> wret (app bad r)))
          | None -> wret (app refs r))
      in each x.m_origins))

type compat_err =
| CEAttr of id * n * n
| CEAttrValue of id * n * n
| CEElem of id * n

(** val u32MAX : n **)

let u32MAX =
  Npos (XI (XI (XI (XI (XI (XI (XI (XI (XI (XI (XI (XI (XI (XI (XI (XI (XI
    (XI (XI (XI (XI (XI (XI (XI (XI (XI (XI (XI (XI (XI (XI
    XH)))))))))))))))))))))))))))))))

(** val compatible : n -> n -> bool **)

let compatible target mask0 =
  negb (N.eqb (N.coq_land mask0 target) N0)

(** val node_at : world -> id -> node res **)

let node_at w0 i =
  unwrap (String ((Ascii (false, false, true, false, false, true, true,
    false)), (String ((Ascii (true, false, false, false, false, true, true,
    false)), (String ((Ascii (false, true, true, true, false, true, true,
    false)), (String ((Ascii (true, true, true, false, false, true, true,
    false)), (String ((Ascii (false, false, true, true, false, true, true,
    false)), (String ((Ascii (true, false, false, true, false, true, true,
    false)), (String ((Ascii (false, true, true, true, false, true, true,
    false)), (String ((Ascii (true, true, true, false, false, true, true,
    false)), (String ((Ascii (false, false, false, false, false, true, false,
    false)), (String ((Ascii (false, true, true, true, false, true, true,
    false)), (String ((Ascii (true, true, true, true, false, true, true,
    false)), (String ((Ascii (false, false, true, false, false, true, true,
    false)), (String ((Ascii (true, false, true, false, false, true, true,
    false)), (String ((Ascii (false, false, false, false, false, true, false,
    false)), (String ((Ascii (true, false, false, true, false, true, true,
    false)), (String ((Ascii (false, false, true, false, false, true, true,
    false)), EmptyString)))))))))))))))))))))))))))))))) (w0.w_nodes i)

type cres = compat_err list * n

(** val recalc_element_type : tables -> world -> node -> n -> (n * n) res **)

let recalc_element_type t w0 n0 target =
  match n0.n_parent with
  | PElem p ->
    bind (node_at w0 p) (fun pn ->
      bind (find_sub_element t pn.n_type n0.n_name target) (fun r -> Val
        (match r with
         | Some p0 -> let (et, _) = p0 in et
         | None -> n0.n_type)))
  | _ -> Val n0.n_type

(** val attr_step :
    tables -> id -> (n * n) -> (n * n) -> n -> (n * cdata) -> cres res **)

let attr_step t self oldty newty target = function
| (an, v) ->
  bind (find_attribute_spec t newty an) (fun sp ->
    match sp with
    | Some p ->
      let (p0, vmask) = p in
      let (p1, _) = p0 in
      let (_, spec) = p1 in
      if negb (compatible target vmask)
      then Val (((CEAttr (self, an, vmask)) :: []), vmask)
      else let (ok, vm) = value_compat v spec target in
           Val ((if ok then [] else (CEAttrValue (self, an, vm)) :: []),
           (N.coq_land vmask vm))
    | None ->
      bind (find_attribute_spec t oldty an) (fun so ->
        let m0 =
          N.ldiff
            (match so with
             | Some p -> let (_, ver) = p in ver
             | None -> N0) target
        in
        Val (((CEAttr (self, an, m0)) :: []), m0)))

(** val attr_loop0 :
    tables -> id -> (n * n) -> (n * n) -> n -> (n * cdata) list -> cres res **)

let rec attr_loop0 t self oldty newty target = function
| [] -> Val ([], u32MAX)
| a :: rest ->
  bind (attr_step t self oldty newty target a) (fun x ->
    let (e1, m1) = x in
    bind (attr_loop0 t self oldty newty target rest) (fun x0 ->
      let (e2, m2) = x0 in Val ((app e1 e2), (N.coq_land m1 m2))))

(** val text_loop : id -> cdspec -> n -> citem list -> cres **)

let rec text_loop self spec target = function
| [] -> ([], u32MAX)
| c :: rest ->
  (match c with
   | CElem _ -> text_loop self spec target rest
   | CData d ->
     let (ok, vm) = value_compat d spec target in
     let (e2, m2) = text_loop self spec target rest in
     ((app (if ok then [] else (CEElem (self, vm)) :: []) e2),
     (N.coq_land vm m2)))

(** val sub_loop :
    tables -> (id -> cres res) -> world -> (n * n) -> (n * n) -> n -> n ->
    citem list -> cres res **)

let rec sub_loop t rec0 w0 oldty newty f target = function
| [] -> Val ([], u32MAX)
| c0 :: rest ->
  (match c0 with
   | CElem c ->
     bind (node_at w0 c) (fun cn ->
       if (||) (is_empty cn.n_files) (set_mem f cn.n_files)
       then bind (find_sub_element t newty cn.n_name target) (fun r1 ->
              bind (find_sub_element t newty cn.n_name u32MAX) (fun r2 ->
                match match r1 with
                      | Some x -> Some x
                      | None -> r2 with
                | Some p ->
                  let (_, indices) = p in
                  bind (get_sub_element_version_mask t oldty indices)
                    (fun o ->
                    bind
                      (unwrap (String ((Ascii (true, true, false, false,
                        false, true, true, false)), (String ((Ascii (false,
                        false, false, true, false, true, true, false)),
                        (String ((Ascii (true, false, true, false, false,
                        true, true, false)), (String ((Ascii (true, true,
                        false, false, false, true, true, false)), (String
                        ((Ascii (true, true, false, true, false, true, true,
                        false)), (String ((Ascii (true, true, true, true,
                        true, false, true, false)), (String ((Ascii (false,
                        true, true, false, true, true, true, false)), (String
                        ((Ascii (true, false, true, false, false, true, true,
                        false)), (String ((Ascii (false, true, false, false,
                        true, true, true, false)), (String ((Ascii (true,
                        true, false, false, true, true, true, false)),
                        (String ((Ascii (true, false, false, true, false,
                        true, true, false)), (String ((Ascii (true, true,
                        true, true, false, true, true, false)), (String
                        ((Ascii (false, true, true, true, false, true, true,
                        false)), (String ((Ascii (true, true, true, true,
                        true, false, true, false)), (String ((Ascii (true,
                        true, false, false, false, true, true, false)),
                        (String ((Ascii (true, true, true, true, false, true,
                        true, false)), (String ((Ascii (true, false, true,
                        true, false, true, true, false)), (String ((Ascii
                        (false, false, false, false, true, true, true,
                        false)), (String ((Ascii (true, false, false, false,
                        false, true, true, false)), (String ((Ascii (false,
                        false, true, false, true, true, true, false)),
                        (String ((Ascii (true, false, false, true, false,
                        true, true, false)), (String ((Ascii (false, true,
                        false, false, false, true, true, false)), (String
                        ((Ascii (true, false, false, true, false, true, true,
                        false)), (String ((Ascii (false, false, true, true,
                        false, true, true, false)), (String ((Ascii (true,
                        false, false, true, false, true, true, false)),
                        (String ((Ascii (false, false, true, false, true,
                        true, true, false)), (String ((Ascii (true, false,
                        false, true, true, true, true, false)), (String
                        ((Ascii (false, true, false, true, true, true, false,
                        false)), (String ((Ascii (false, false, false, false,
                        false, true, false, false)), (String ((Ascii (true,
                        true, true, false, false, true, true, false)),
                        (String ((Ascii (true, false, true, false, false,
                        true, true, false)), (String ((Ascii (false, false,
                        true, false, true, true, true, false)), (String
                        ((Ascii (true, true, true, true, true, false, true,
                        false)), (String ((Ascii (true, true, false, false,
                        true, true, true, false)), (String ((Ascii (true,
                        false, true, false, true, true, true, false)),
                        (String ((Ascii (false, true, false, false, false,
                        true, true, false)), (String ((Ascii (true, true,
                        true, true, true, false, true, false)), (String
                        ((Ascii (true, false, true, false, false, true, true,
                        false)), (String ((Ascii (false, false, true, true,
                        false, true, true, false)), (String ((Ascii (true,
                        false, true, false, false, true, true, false)),
                        (String ((Ascii (true, false, true, true, false,
                        true, true, false)), (String ((Ascii (true, false,
                        true, false, false, true, true, false)), (String
                        ((Ascii (false, true, true, true, false, true, true,
                        false)), (String ((Ascii (false, false, true, false,
                        true, true, true, false)), (String ((Ascii (true,
                        true, true, true, true, false, true, false)), (String
                        ((Ascii (false, true, true, false, true, true, true,
                        false)), (String ((Ascii (true, false, true, false,
                        false, true, true, false)), (String ((Ascii (false,
                        true, false, false, true, true, true, false)),
                        (String ((Ascii (true, true, false, false, true,
                        true, true, false)), (String ((Ascii (true, false,
                        false, true, false, true, true, false)), (String
                        ((Ascii (true, true, true, true, false, true, true,
                        false)), (String ((Ascii (false, true, true, true,
                        false, true, true, false)), (String ((Ascii (true,
                        true, true, true, true, false, true, false)), (String
                        ((Ascii (true, false, true, true, false, true, true,
                        false)), (String ((Ascii (true, false, false, false,
                        false, true, true, false)), (String ((Ascii (true,
                        true, false, false, true, true, true, false)),
                        (String ((Ascii (true, true, false, true, false,
                        true, true, false)), (String ((Ascii (false, false,
                        false, true, false, true, false, false)), (String
                        ((Ascii (false, true, true, true, false, true, false,
                        false)), (String ((Ascii (false, true, true, true,
                        false, true, false, false)), (String ((Ascii (true,
                        false, false, true, false, true, false, false)),
                        (String ((Ascii (false, true, true, true, false,
                        true, false, false)), (String ((Ascii (true, false,
                        true, false, true, true, true, false)), (String
                        ((Ascii (false, true, true, true, false, true, true,
                        false)), (String ((Ascii (true, true, true, false,
                        true, true, true, false)), (String ((Ascii (false,
                        true, false, false, true, true, true, false)),
                        (String ((Ascii (true, false, false, false, false,
                        true, true, false)), (String ((Ascii (false, false,
                        false, false, true, true, true, false)), (String
                        ((Ascii (false, false, false, true, false, true,
                        false, false)), (String ((Ascii (true, false, false,
                        true, false, true, false, false)),
                        EmptyString))))))))))))))))))))))))))))))))))))))))))))))))))))))))))))))))))))))))))))))))))))))))))))))))))))))))))))))))))))))))))))))))))))))))))))
                        o) (fun vm ->
                      if negb (compatible target vm)
                      then bind
                             (sub_loop t rec0 w0 oldty newty f target rest)
                             (fun x ->
                             let (e2, m2) = x in
                             Val (((CEElem (c, vm)) :: e2),
                             (N.coq_land vm m2)))
                      else bind (rec0 c) (fun x ->
                             let (e1, m1) = x in
                             bind
                               (sub_loop t rec0 w0 oldty newty f target rest)
                               (fun x0 ->
                               let (e2, m2) = x0 in
                               Val ((app e1 e2),
                               (N.coq_land (N.coq_land vm m1) m2))))))
                | None -> sub_loop t rec0 w0 oldty newty f target rest))
       else sub_loop t rec0 w0 oldty newty f target rest)
   | CData _ -> sub_loop t rec0 w0 oldty newty f target rest)

(** val e_check : tables -> nat -> world -> n -> n -> n -> cres res **)

let rec e_check t fuel w0 self f target =
  match fuel with
  | O -> Fuel
  | S fuel' ->
    bind (node_at w0 self) (fun n0 ->
      bind (recalc_element_type t w0 n0 target) (fun newty ->
        bind (attr_loop0 t self n0.n_type newty target n0.n_attrs) (fun x ->
          let (ea, ma) = x in
          bind (chardata_spec t newty) (fun cs ->
            let (et, mt) =
              match cs with
              | Some spec -> text_loop self spec target n0.n_content
              | None -> ([], u32MAX)
            in
            bind
              (sub_loop t (fun c -> e_check t fuel' w0 c f target) w0
                n0.n_type newty f target n0.n_content) (fun x0 ->
              let (es, ms) = x0 in
              Val ((app ea (app et es)), (N.coq_land (N.coq_land ma mt) ms)))))))

(** val f_check : tables -> world -> n -> n -> cres res **)

let f_check t w0 f target =
  bind
    (unwrap (String ((Ascii (false, false, true, false, false, true, true,
      false)), (String ((Ascii (true, false, false, false, false, true, true,
      false)), (String ((Ascii (false, true, true, true, false, true, true,
      false)), (String ((Ascii (true, true, true, false, false, true, true,
      false)), (String ((Ascii (false, false, true, true, false, true, true,
      false)), (String ((Ascii (true, false, false, true, false, true, true,
      false)), (String ((Ascii (false, true, true, true, false, true, true,
      false)), (String ((Ascii (true, true, true, false, false, true, true,
      false)), (String ((Ascii (false, false, false, false, false, true,
      false, false)), (String ((Ascii (false, true, true, false, false, true,
      true, false)), (String ((Ascii (true, false, false, true, false, true,
      true, false)), (String ((Ascii (false, false, true, true, false, true,
      true, false)), (String ((Ascii (true, false, true, false, false, true,
      true, false)), (String ((Ascii (false, false, false, false, false,
      true, false, false)), (String ((Ascii (true, false, false, true, false,
      true, true, false)), (String ((Ascii (false, false, true, false, false,
      true, true, false)), EmptyString))))))))))))))))))))))))))))))))
      (nth_opt w0.w_files (N.to_nat f))) (fun x ->
    bind
      (unwrap (String ((Ascii (false, false, true, false, false, true, true,
        false)), (String ((Ascii (true, false, false, false, false, true,
        true, false)), (String ((Ascii (false, true, true, true, false, true,
        true, false)), (String ((Ascii (true, true, true, false, false, true,
        true, false)), (String ((Ascii (false, false, true, true, false,
        true, true, false)), (String ((Ascii (true, false, false, true,
        false, true, true, false)), (String ((Ascii (false, true, true, true,
        false, true, true, false)), (String ((Ascii (true, true, true, false,
        false, true, true, false)), (String ((Ascii (false, false, false,
        false, false, true, false, false)), (String ((Ascii (true, false,
        true, true, false, true, true, false)), (String ((Ascii (true, true,
        true, true, false, true, true, false)), (String ((Ascii (false,
        false, true, false, false, true, true, false)), (String ((Ascii
        (true, false, true, false, false, true, true, false)), (String
        ((Ascii (false, false, true, true, false, true, true, false)),
        (String ((Ascii (false, false, false, false, false, true, false,
        false)), (String ((Ascii (true, false, false, true, false, true,
        true, false)), (String ((Ascii (false, false, true, false, false,
        true, true, false)), EmptyString))))))))))))))))))))))))))))))))))
        (nth_opt w0.w_models (N.to_nat x.f_model))) (fun m0 ->
      e_check t (fuel_of w0) w0 m0.m_root f target))

(** val f_check_version_compatibility : tables -> n -> n -> cres w **)

let f_check_version_compatibility t f target w0 =
  match f_check t w0 f target with
  | Val r -> Val ((OK r), w0)
  | Pan s -> Pan s
  | Fuel -> Fuel

(** val f_set_version : tables -> n -> n -> unit w **)

let f_set_version t f target =
  wbind (f_check_version_compatibility t f target) (fun x0 ->
    let (errs, _) = x0 in
    if is_empty errs
    then wbind (get_file f) (fun x ->
           set_file f { f_model = x.f_model; f_name = x.f_name; f_version =
             target; f_standalone = x.f_standalone })
    else wfail VersionIncompatibleData)

(** val escape_byte : n -> n list **)

let escape_byte c =
  if N.eqb c (Npos (XO (XO (XI (XI (XI XH))))))
  then bS (String ((Ascii (false, true, true, false, false, true, false,
         false)), (String ((Ascii (false, false, true, true, false, true,
         true, false)), (String ((Ascii (false, false, true, false, true,
         true, true, false)), (String ((Ascii (true, true, false, true, true,
         true, false, false)), EmptyString))))))))
  else if N.eqb c (Npos (XO (XI (XI (XI (XI XH))))))
       then bS (String ((Ascii (false, true, true, false, false, true, false,
              false)), (String ((Ascii (true, true, true, false, false, true,
              true, false)), (String ((Ascii (false, false, true, false,
              true, true, true, false)), (String ((Ascii (true, true, false,
              true, true, true, false, false)), EmptyString))))))))
       else if N.eqb c (Npos (XO (XI (XI (XO (XO XH))))))
            then bS (String ((Ascii (false, true, true, false, false, true,
                   false, false)), (String ((Ascii (true, false, false,
                   false, false, true, true, false)), (String ((Ascii (true,
                   false, true, true, false, true, true, false)), (String
                   ((Ascii (false, false, false, false, true, true, true,
                   false)), (String ((Ascii (true, true, false, true, true,
                   true, false, false)), EmptyString))))))))))
            else if N.eqb c (Npos (XO (XI (XO (XO (XO XH))))))
                 then bS (String ((Ascii (false, true, true, false, false,
                        true, false, false)), (String ((Ascii (true, false,
                        false, false, true, true, true, false)), (String
                        ((Ascii (true, false, true, false, true, true, true,
                        false)), (String ((Ascii (true, true, true, true,
                        false, true, true, false)), (String ((Ascii (false,
                        false, true, false, true, true, true, false)),
                        (String ((Ascii (true, true, false, true, true, true,
                        false, false)), EmptyString))))))))))))
                 else if N.eqb c (Npos (XI (XI (XI (XO (XO XH))))))
                      then bS (String ((Ascii (false, true, true, false,
                             false, true, false, false)), (String ((Ascii
                             (true, false, false, false, false, true, true,
                             false)), (String ((Ascii (false, false, false,
                             false, true, true, true, false)), (String
                             ((Ascii (true, true, true, true, false, true,
                             true, false)), (String ((Ascii (true, true,
                             false, false, true, true, true, false)), (String
                             ((Ascii (true, true, false, true, true, true,
                             false, false)), EmptyString))))))))))))
                      else c :: []

(** val escape_text : n list -> n list **)

let escape_text s =
  flat_map escape_byte s

(** val dec_digits : nat -> n -> n list -> n list **)

let rec dec_digits fuel n0 acc =
  match fuel with
  | O -> acc
  | S f ->
    let acc' =
      (N.add (Npos (XO (XO (XO (XO (XI XH))))))
        (N.modulo n0 (Npos (XO (XI (XO XH)))))) :: acc
    in
    if N.eqb (N.div n0 (Npos (XO (XI (XO XH))))) N0
    then acc'
    else dec_digits f (N.div n0 (Npos (XO (XI (XO XH))))) acc'

(** val dec_of_N : n -> n list **)

let dec_of_N n0 =
  dec_digits (S (N.size_nat n0)) n0 []

(** val newline_indent : nat -> n list **)

let newline_indent indent =
  (Npos (XO (XI (XO
    XH)))) :: (concat
                (repeat ((Npos (XO (XO (XO (XO (XO XH)))))) :: ((Npos (XO (XO
                  (XO (XO (XO XH)))))) :: [])) indent))

(** val ser_cdata : nametab -> (n -> n list) -> cdata0 -> n list res **)

let ser_cdata tab_en float_fmt = function
| DEnum0 item ->
  unwrap (String ((Ascii (true, false, true, false, false, false, true,
    false)), (String ((Ascii (false, true, true, true, false, true, true,
    false)), (String ((Ascii (true, false, true, false, true, true, true,
    false)), (String ((Ascii (true, false, true, true, false, true, true,
    false)), (String ((Ascii (true, false, false, true, false, false, true,
    false)), (String ((Ascii (false, false, true, false, true, true, true,
    false)), (String ((Ascii (true, false, true, false, false, true, true,
    false)), (String ((Ascii (true, false, true, true, false, true, true,
    false)), (String ((Ascii (false, true, false, true, true, true, false,
    false)), (String ((Ascii (false, true, false, true, true, true, false,
    false)), (String ((Ascii (false, false, true, false, true, true, true,
    false)), (String ((Ascii (true, true, true, true, false, true, true,
    false)), (String ((Ascii (true, true, true, true, true, false, true,
    false)), (String ((Ascii (true, true, false, false, true, true, true,
    false)), (String ((Ascii (false, false, true, false, true, true, true,
    false)), (String ((Ascii (false, true, false, false, true, true, true,
    false)), (String ((Ascii (false, true, false, true, true, true, false,
    false)), (String ((Ascii (false, false, false, false, false, true, false,
    false)), (String ((Ascii (true, true, false, false, true, false, true,
    false)), (String ((Ascii (false, false, true, false, true, false, true,
    false)), (String ((Ascii (false, true, false, false, true, false, true,
    false)), (String ((Ascii (true, false, false, true, false, false, true,
    false)), (String ((Ascii (false, true, true, true, false, false, true,
    false)), (String ((Ascii (true, true, true, false, false, false, true,
    false)), (String ((Ascii (true, true, true, true, true, false, true,
    false)), (String ((Ascii (false, false, true, false, true, false, true,
    false)), (String ((Ascii (true, false, false, false, false, false, true,
    false)), (String ((Ascii (false, true, false, false, false, false, true,
    false)), (String ((Ascii (false, false, true, true, false, false, true,
    false)), (String ((Ascii (true, false, true, false, false, false, true,
    false)), (String ((Ascii (false, false, false, false, false, true, false,
    false)), (String ((Ascii (true, false, false, true, false, true, true,
    false)), (String ((Ascii (false, true, true, true, false, true, true,
    false)), (String ((Ascii (false, false, true, false, false, true, true,
    false)), (String ((Ascii (true, false, true, false, false, true, true,
    false)), (String ((Ascii (false, false, false, true, true, true, true,
    false)),
    EmptyString))))))))))))))))))))))))))))))))))))))))))))))))))))))))))))))))))))))))
    (to_str tab_en item)
| DString0 s -> Val (escape_text s)
| DUInt0 n0 -> Val (dec_of_N n0)
| DFloat0 bits -> Val (float_fmt bits)

(** val ser_attrs :
    nametab -> nametab -> (n -> n list) -> (n * cdata0) list -> n list res **)

let rec ser_attrs tab_at tab_en float_fmt = function
| [] -> Val []
| p :: rest ->
  let (name, v) = p in
  bind
    (unwrap (String ((Ascii (true, false, false, false, false, false, true,
      false)), (String ((Ascii (false, false, true, false, true, true, true,
      false)), (String ((Ascii (false, false, true, false, true, true, true,
      false)), (String ((Ascii (false, true, false, false, true, true, true,
      false)), (String ((Ascii (true, false, false, true, false, true, true,
      false)), (String ((Ascii (false, true, false, false, false, true, true,
      false)), (String ((Ascii (true, false, true, false, true, true, true,
      false)), (String ((Ascii (false, false, true, false, true, true, true,
      false)), (String ((Ascii (true, false, true, false, false, true, true,
      false)), (String ((Ascii (false, true, true, true, false, false, true,
      false)), (String ((Ascii (true, false, false, false, false, true, true,
      false)), (String ((Ascii (true, false, true, true, false, true, true,
      false)), (String ((Ascii (true, false, true, false, false, true, true,
      false)), (String ((Ascii (false, true, false, true, true, true, false,
      false)), (String ((Ascii (false, true, false, true, true, true, false,
      false)), (String ((Ascii (false, false, true, false, true, true, true,
      false)), (String ((Ascii (true, true, true, true, false, true, true,
      false)), (String ((Ascii (true, true, true, true, true, false, true,
      false)), (String ((Ascii (true, true, false, false, true, true, true,
      false)), (String ((Ascii (false, false, true, false, true, true, true,
      false)), (String ((Ascii (false, true, false, false, true, true, true,
      false)), (String ((Ascii (false, true, false, true, true, true, false,
      false)), (String ((Ascii (false, false, false, false, false, true,
      false, false)), (String ((Ascii (true, true, false, false, true, false,
      true, false)), (String ((Ascii (false, false, true, false, true, false,
      true, false)), (String ((Ascii (false, true, false, false, true, false,
      true, false)), (String ((Ascii (true, false, false, true, false, false,
      true, false)), (String ((Ascii (false, true, true, true, false, false,
      true, false)), (String ((Ascii (true, true, true, false, false, false,
      true, false)), (String ((Ascii (true, true, true, true, true, false,
      true, false)), (String ((Ascii (false, false, true, false, true, false,
      true, false)), (String ((Ascii (true, false, false, false, false,
      false, true, false)), (String ((Ascii (false, true, false, false,
      false, false, true, false)), (String ((Ascii (false, false, true, true,
      false, false, true, false)), (String ((Ascii (true, false, true, false,
      false, false, true, false)), (String ((Ascii (false, false, false,
      false, false, true, false, false)), (String ((Ascii (true, false,
      false, true, false, true, true, false)), (String ((Ascii (false, true,
      true, true, false, true, true, false)), (String ((Ascii (false, false,
      true, false, false, true, true, false)), (String ((Ascii (true, false,
      true, false, false, true, true, false)), (String ((Ascii (false, false,
      false, true, true, true, true, false)),
      EmptyString))))))))))))))))))))))))))))))))))))))))))))))))))))))))))))))))))))))))))))))))))
      (to_str tab_at name)) (fun nm ->
    bind (ser_cdata tab_en float_fmt v) (fun vs ->
      bind (ser_attrs tab_at tab_en float_fmt rest) (fun r -> Val
        (app ((Npos (XO (XO (XO (XO (XO XH)))))) :: [])
          (app nm
            (app
              (bS (String ((Ascii (true, false, true, true, true, true,
                false, false)), (String ((Ascii (false, true, false, false,
                false, true, false, false)), EmptyString)))))
              (app vs (app ((Npos (XO (XI (XO (XO (XO XH)))))) :: []) r))))))))

(** val comment_part : n list option -> nat -> bool -> n list **)

let comment_part comment indent inline =
  match comment with
  | Some c ->
    app (if inline then [] else newline_indent indent)
      (app
        (bS (String ((Ascii (false, false, true, true, true, true, false,
          false)), (String ((Ascii (true, false, false, false, false, true,
          false, false)), (String ((Ascii (true, false, true, true, false,
          true, false, false)), (String ((Ascii (true, false, true, true,
          false, true, false, false)), EmptyString)))))))))
        (app c
          (bS (String ((Ascii (true, false, true, true, false, true, false,
            false)), (String ((Ascii (true, false, true, true, false, true,
            false, false)), (String ((Ascii (false, true, true, true, true,
            true, false, false)), EmptyString)))))))))
  | None -> []

(** val xml_header : bool option -> n list **)

let xml_header = function
| Some b ->
  if b
  then bS (String ((Ascii (false, false, true, true, true, true, false,
         false)), (String ((Ascii (true, true, true, true, true, true, false,
         false)), (String ((Ascii (false, false, false, true, true, true,
         true, false)), (String ((Ascii (true, false, true, true, false,
         true, true, false)), (String ((Ascii (false, false, true, true,
         false, true, true, false)), (String ((Ascii (false, false, false,
         false, false, true, false, false)), (String ((Ascii (false, true,
         true, false, true, true, true, false)), (String ((Ascii (true,
         false, true, false, false, true, true, false)), (String ((Ascii
         (false, true, false, false, true, true, true, false)), (String
         ((Ascii (true, true, false, false, true, true, true, false)),
         (String ((Ascii (true, false, false, true, false, true, true,
         false)), (String ((Ascii (true, true, true, true, false, true, true,
         false)), (String ((Ascii (false, true, true, true, false, true,
         true, false)), (String ((Ascii (true, false, true, true, true, true,
         false, false)), (String ((Ascii (false, true, false, false, false,
         true, false, false)), (String ((Ascii (true, false, false, false,
         true, true, false, false)), (String ((Ascii (false, true, true,
         true, false, true, false, false)), (String ((Ascii (false, false,
         false, false, true, true, false, false)), (String ((Ascii (false,
         true, false, false, false, true, false, false)), (String ((Ascii
         (false, false, false, false, false, true, false, false)), (String
         ((Ascii (true, false, true, false, false, true, true, false)),
         (String ((Ascii (false, true, true, true, false, true, true,
         false)), (String ((Ascii (true, true, false, false, false, true,
         true, false)), (String ((Ascii (true, true, true, true, false, true,
         true, false)), (String ((Ascii (false, false, true, false, false,
         true, true, false)), (String ((Ascii (true, false, false, true,
         false, true, true, false)), (String ((Ascii (false, true, true,
         true, false, true, true, false)), (String ((Ascii (true, true, true,
         false, false, true, true, false)), (String ((Ascii (true, false,
         true, true, true, true, false, false)), (String ((Ascii (false,
         true, false, false, false, true, false, false)), (String ((Ascii
         (true, false, true, false, true, true, true, false)), (String
         ((Ascii (false, false, true, false, true, true, true, false)),
         (String ((Ascii (false, true, true, false, false, true, true,
         false)), (String ((Ascii (true, false, true, true, false, true,
         false, false)), (String ((Ascii (false, false, false, true, true,
         true, false, false)), (String ((Ascii (false, true, false, false,
         false, true, false, false)), (String ((Ascii (false, false, false,
         false, false, true, false, false)), (String ((Ascii (true, true,
         false, false, true, true, true, false)), (String ((Ascii (false,
         false, true, false, true, true, true, false)), (String ((Ascii
         (true, false, false, false, false, true, true, false)), (String
         ((Ascii (false, true, true, true, false, true, true, false)),
         (String ((Ascii (false, false, true, false, false, true, true,
         false)), (String ((Ascii (true, false, false, false, false, true,
         true, false)), (String ((Ascii (false, false, true, true, false,
         true, true, false)), (String ((Ascii (true, true, true, true, false,
         true, true, false)), (String ((Ascii (false, true, true, true,
         false, true, true, false)), (String ((Ascii (true, false, true,
         false, false, true, true, false)), (String ((Ascii (true, false,
         true, true, true, true, false, false)), (String ((Ascii (false,
         true, false, false, false, true, false, false)), (String ((Ascii
         (true, false, false, true, true, true, true, false)), (String
         ((Ascii (true, false, true, false, false, true, true, false)),
         (String ((Ascii (true, true, false, false, true, true, true,
         false)), (String ((Ascii (false, true, false, false, false, true,
         false, false)), (String ((Ascii (true, true, true, true, true, true,
         false, false)), (String ((Ascii (false, true, true, true, true,
         true, false, false)),
         EmptyString))))))))))))))))))))))))))))))))))))))))))))))))))))))))))))))))))))))))))))))))))))))))))))))))))))))))))))))
  else bS (String ((Ascii (false, false, true, true, true, true, false,
         false)), (String ((Ascii (true, true, true, true, true, true, false,
         false)), (String ((Ascii (false, false, false, true, true, true,
         true, false)), (String ((Ascii (true, false, true, true, false,
         true, true, false)), (String ((Ascii (false, false, true, true,
         false, true, true, false)), (String ((Ascii (false, false, false,
         false, false, true, false, false)), (String ((Ascii (false, true,
         true, false, true, true, true, false)), (String ((Ascii (true,
         false, true, false, false, true, true, false)), (String ((Ascii
         (false, true, false, false, true, true, true, false)), (String
         ((Ascii (true, true, false, false, true, true, true, false)),
         (String ((Ascii (true, false, false, true, false, true, true,
         false)), (String ((Ascii (true, true, true, true, false, true, true,
         false)), (String ((Ascii (false, true, true, true, false, true,
         true, false)), (String ((Ascii (true, false, true, true, true, true,
         false, false)), (String ((Ascii (false, true, false, false, false,
         true, false, false)), (String ((Ascii (true, false, false, false,
         true, true, false, false)), (String ((Ascii (false, true, true,
         true, false, true, false, false)), (String ((Ascii (false, false,
         false, false, true, true, false, false)), (String ((Ascii (false,
         true, false, false, false, true, false, false)), (String ((Ascii
         (false, false, false, false, false, true, false, false)), (String
         ((Ascii (true, false, true, false, false, true, true, false)),
         (String ((Ascii (false, true, true, true, false, true, true,
         false)), (String ((Ascii (true, true, false, false, false, true,
         true, false)), (String ((Ascii (true, true, true, true, false, true,
         true, false)), (String ((Ascii (false, false, true, false, false,
         true, true, false)), (String ((Ascii (true, false, false, true,
         false, true, true, false)), (String ((Ascii (false, true, true,
         true, false, true, true, false)), (String ((Ascii (true, true, true,
         false, false, true, true, false)), (String ((Ascii (true, false,
         true, true, true, true, false, false)), (String ((Ascii (false,
         true, false, false, false, true, false, false)), (String ((Ascii
         (true, false, true, false, true, true, true, false)), (String
         ((Ascii (false, false, true, false, true, true, true, false)),
         (String ((Ascii (false, true, true, false, false, true, true,
         false)), (String ((Ascii (true, false, true, true, false, true,
         false, false)), (String ((Ascii (false, false, false, true, true,
         true, false, false)), (String ((Ascii (false, true, false, false,
         false, true, false, false)), (String ((Ascii (false, false, false,
         false, false, true, false, false)), (String ((Ascii (true, true,
         false, false, true, true, true, false)), (String ((Ascii (false,
         false, true, false, true, true, true, false)), (String ((Ascii
         (true, false, false, false, false, true, true, false)), (String
         ((Ascii (false, true, true, true, false, true, true, false)),
         (String ((Ascii (false, false, true, false, false, true, true,
         false)), (String ((Ascii (true, false, false, false, false, true,
         true, false)), (String ((Ascii (false, false, true, true, false,
         true, true, false)), (String ((Ascii (true, true, true, true, false,
         true, true, false)), (String ((Ascii (false, true, true, true,
         false, true, true, false)), (String ((Ascii (true, false, true,
         false, false, true, true, false)), (String ((Ascii (true, false,
         true, true, true, true, false, false)), (String ((Ascii (false,
         true, false, false, false, true, false, false)), (String ((Ascii
         (false, true, true, true, false, true, true, false)), (String
         ((Ascii (true, true, true, true, false, true, true, false)), (String
         ((Ascii (false, true, false, false, false, true, false, false)),
         (String ((Ascii (true, true, true, true, true, true, false, false)),
         (String ((Ascii (false, true, true, true, true, true, false,
         false)),
         EmptyString))))))))))))))))))))))))))))))))))))))))))))))))))))))))))))))))))))))))))))))))))))))))))))))))))))))))))))
| None ->
  bS (String ((Ascii (false, false, true, true, true, true, false, false)),
    (String ((Ascii (true, true, true, true, true, true, false, false)),
    (String ((Ascii (false, false, false, true, true, true, true, false)),
    (String ((Ascii (true, false, true, true, false, true, true, false)),
    (String ((Ascii (false, false, true, true, false, true, true, false)),
    (String ((Ascii (false, false, false, false, false, true, false, false)),
    (String ((Ascii (false, true, true, false, true, true, true, false)),
    (String ((Ascii (true, false, true, false, false, true, true, false)),
    (String ((Ascii (false, true, false, false, true, true, true, false)),
    (String ((Ascii (true, true, false, false, true, true, true, false)),
    (String ((Ascii (true, false, false, true, false, true, true, false)),
    (String ((Ascii (true, true, true, true, false, true, true, false)),
    (String ((Ascii (false, true, true, true, false, true, true, false)),
    (String ((Ascii (true, false, true, true, true, true, false, false)),
    (String ((Ascii (false, true, false, false, false, true, false, false)),
    (String ((Ascii (true, false, false, false, true, true, false, false)),
    (String ((Ascii (false, true, true, true, false, true, false, false)),
    (String ((Ascii (false, false, false, false, true, true, false, false)),
    (String ((Ascii (false, true, false, false, false, true, false, false)),
    (String ((Ascii (false, false, false, false, false, true, false, false)),
    (String ((Ascii (true, false, true, false, false, true, true, false)),
    (String ((Ascii (false, true, true, true, false, true, true, false)),
    (String ((Ascii (true, true, false, false, false, true, true, false)),
    (String ((Ascii (true, true, true, true, false, true, true, false)),
    (String ((Ascii (false, false, true, false, false, true, true, false)),
    (String ((Ascii (true, false, false, true, false, true, true, false)),
    (String ((Ascii (false, true, true, true, false, true, true, false)),
    (String ((Ascii (true, true, true, false, false, true, true, false)),
    (String ((Ascii (true, false, true, true, true, true, false, false)),
    (String ((Ascii (false, true, false, false, false, true, false, false)),
    (String ((Ascii (true, false, true, false, true, true, true, false)),
    (String ((Ascii (false, false, true, false, true, true, true, false)),
    (String ((Ascii (false, true, true, false, false, true, true, false)),
    (String ((Ascii (true, false, true, true, false, true, false, false)),
    (String ((Ascii (false, false, false, true, true, true, false, false)),
    (String ((Ascii (false, true, false, false, false, true, false, false)),
    (String ((Ascii (true, true, true, true, true, true, false, false)),
    (String ((Ascii (false, true, true, true, true, true, false, false)),
    EmptyString))))))))))))))))))))))))))))))))))))))))))))))))))))))))))))))))))))))))))))

(** val to_pc : cdata -> cdata0 **)

let to_pc = function
| DEnum e -> DEnum0 e
| DString s -> DString0 s
| DUInt n0 -> DUInt0 n0
| DFloat b -> DFloat0 b

(** val ser_cd : nametab -> (n -> n list) -> cdata -> n list res **)

let ser_cd tab_en float_fmt d =
  ser_cdata tab_en float_fmt (to_pc d)

(** val ser_ats :
    nametab -> nametab -> (n -> n list) -> (n * cdata) list -> n list res **)

let ser_ats tab_at tab_en float_fmt a =
  ser_attrs tab_at tab_en float_fmt
    (map (fun x -> ((fst x), (to_pc (snd x)))) a)

(** val passes : n option -> node -> bool **)

let passes for_file n0 =
  match for_file with
  | Some f -> (||) (is_empty n0.n_files) (set_mem f n0.n_files)
  | None -> true

(** val ser_heap :
    tables -> nametab -> nametab -> nametab -> (n -> n list) -> nat -> world
    -> n option -> id -> nat -> bool -> n list res **)

let rec ser_heap t tab_el tab_at tab_en float_fmt fuel w0 for_file i indent inline =
  match fuel with
  | O -> Fuel
  | S fl ->
    (match w0.w_nodes i with
     | Some n0 ->
       bind
         (unwrap (String ((Ascii (true, false, true, false, false, false,
           true, false)), (String ((Ascii (false, false, true, true, false,
           true, true, false)), (String ((Ascii (true, false, true, false,
           false, true, true, false)), (String ((Ascii (true, false, true,
           true, false, true, true, false)), (String ((Ascii (true, false,
           true, false, false, true, true, false)), (String ((Ascii (false,
           true, true, true, false, true, true, false)), (String ((Ascii
           (false, false, true, false, true, true, true, false)), (String
           ((Ascii (false, true, true, true, false, false, true, false)),
           (String ((Ascii (true, false, false, false, false, true, true,
           false)), (String ((Ascii (true, false, true, true, false, true,
           true, false)), (String ((Ascii (true, false, true, false, false,
           true, true, false)), (String ((Ascii (false, true, false, true,
           true, true, false, false)), (String ((Ascii (false, true, false,
           true, true, true, false, false)), (String ((Ascii (false, false,
           true, false, true, true, true, false)), (String ((Ascii (true,
           true, true, true, false, true, true, false)), (String ((Ascii
           (true, true, true, true, true, false, true, false)), (String
           ((Ascii (true, true, false, false, true, true, true, false)),
           (String ((Ascii (false, false, true, false, true, true, true,
           false)), (String ((Ascii (false, true, false, false, true, true,
           true, false)), (String ((Ascii (false, true, false, true, true,
           true, false, false)), (String ((Ascii (false, false, false, false,
           false, true, false, false)), (String ((Ascii (true, true, false,
           false, true, false, true, false)), (String ((Ascii (false, false,
           true, false, true, false, true, false)), (String ((Ascii (false,
           true, false, false, true, false, true, false)), (String ((Ascii
           (true, false, false, true, false, false, true, false)), (String
           ((Ascii (false, true, true, true, false, false, true, false)),
           (String ((Ascii (true, true, true, false, false, false, true,
           false)), (String ((Ascii (true, true, true, true, true, false,
           true, false)), (String ((Ascii (false, false, true, false, true,
           false, true, false)), (String ((Ascii (true, false, false, false,
           false, false, true, false)), (String ((Ascii (false, true, false,
           false, false, false, true, false)), (String ((Ascii (false, false,
           true, true, false, false, true, false)), (String ((Ascii (true,
           false, true, false, false, false, true, false)), (String ((Ascii
           (false, false, false, false, false, true, false, false)), (String
           ((Ascii (true, false, false, true, false, true, true, false)),
           (String ((Ascii (false, true, true, true, false, true, true,
           false)), (String ((Ascii (false, false, true, false, false, true,
           true, false)), (String ((Ascii (true, false, true, false, false,
           true, true, false)), (String ((Ascii (false, false, false, true,
           true, true, true, false)),
           EmptyString))))))))))))))))))))))))))))))))))))))))))))))))))))))))))))))))))))))))))))))
           (to_str tab_el n0.n_name)) (fun nm ->
         let pre =
           app (comment_part n0.n_comment indent inline)
             (if inline then [] else newline_indent indent)
         in
         (match n0.n_content with
          | [] ->
            bind (ser_ats tab_at tab_en float_fmt n0.n_attrs) (fun ats -> Val
              (app pre
                (app ((Npos (XO (XO (XI (XI (XI XH)))))) :: [])
                  (app nm
                    (app ats ((Npos (XI (XI (XI (XI (XO XH)))))) :: ((Npos
                      (XO (XI (XI (XI (XI XH)))))) :: [])))))))
          | first :: _ ->
            bind (ser_ats tab_at tab_en float_fmt n0.n_attrs) (fun ats ->
              bind (content_mode t n0.n_type) (fun mode ->
                let open_tag =
                  app ((Npos (XO (XO (XI (XI (XI XH)))))) :: [])
                    (app nm
                      (app ats ((Npos (XO (XI (XI (XI (XI XH)))))) :: [])))
                in
                let close_tag =
                  app ((Npos (XO (XO (XI (XI (XI XH)))))) :: ((Npos (XI (XI
                    (XI (XI (XO XH)))))) :: []))
                    (app nm ((Npos (XO (XI (XI (XI (XI XH)))))) :: []))
                in
                if N.eqb mode mCharacters
                then bind
                       (match first with
                        | CElem _ -> Val []
                        | CData d -> ser_cd tab_en float_fmt d) (fun body ->
                       Val (app pre (app open_tag (app body close_tag))))
                else if N.eqb mode mMixed
                     then bind
                            (let rec items = function
                             | [] -> Val []
                             | c0 :: l' ->
                               (match c0 with
                                | CElem c ->
                                  (match w0.w_nodes c with
                                   | Some cn ->
                                     if passes for_file cn
                                     then bind
                                            (ser_heap t tab_el tab_at tab_en
                                              float_fmt fl w0 for_file c (S
                                              indent) true) (fun a ->
                                            bind (items l') (fun b -> Val
                                              (app a b)))
                                     else items l'
                                   | None ->
                                     Pan (String ((Ascii (false, false, true,
                                       false, false, true, true, false)),
                                       (String ((Ascii (true, false, false,
                                       false, false, true, true, false)),
                                       (String ((Ascii (false, true, true,
                                       true, false, true, true, false)),
                                       (String ((Ascii (true, true, true,
                                       false, false, true, true, false)),
                                       (String ((Ascii (false, false, true,
                                       true, false, true, true, false)),
                                       (String ((Ascii (true, false, false,
                                       true, false, true, true, false)),
                                       (String ((Ascii (false, true, true,
                                       true, false, true, true, false)),
                                       (String ((Ascii (true, true, true,
                                       false, false, true, true, false)),
                                       (String ((Ascii (false, false, false,
                                       false, false, true, false, false)),
                                       (String ((Ascii (false, true, true,
                                       true, false, true, true, false)),
                                       (String ((Ascii (true, true, true,
                                       true, false, true, true, false)),
                                       (String ((Ascii (false, false, true,
                                       false, false, true, true, false)),
                                       (String ((Ascii (true, false, true,
                                       false, false, true, true, false)),
                                       (String ((Ascii (false, false, false,
                                       false, false, true, false, false)),
                                       (String ((Ascii (true, false, false,
                                       true, false, true, true, false)),
                                       (String ((Ascii (false, false, true,
                                       false, false, true, true, false)),
                                       EmptyString)))))))))))))))))))))))))))))))))
                                | CData d ->
                                  bind (ser_cd tab_en float_fmt d) (fun a ->
                                    bind (items l') (fun b -> Val (app a b))))
                             in items n0.n_content) (fun body -> Val
                            (app pre (app open_tag (app body close_tag))))
                     else bind
                            (let rec subs = function
                             | [] -> Val []
                             | c0 :: l' ->
                               (match c0 with
                                | CElem c ->
                                  (match w0.w_nodes c with
                                   | Some cn ->
                                     if passes for_file cn
                                     then bind
                                            (ser_heap t tab_el tab_at tab_en
                                              float_fmt fl w0 for_file c (S
                                              indent) false) (fun a ->
                                            bind (subs l') (fun b -> Val
                                              (app a b)))
                                     else subs l'
                                   | None ->
                                     Pan (String ((Ascii (false, false, true,
                                       false, false, true, true, false)),
                                       (String ((Ascii (true, false, false,
                                       false, false, true, true, false)),
                                       (String ((Ascii (false, true, true,
                                       true, false, true, true, false)),
                                       (String ((Ascii (true, true, true,
                                       false, false, true, true, false)),
                                       (String ((Ascii (false, false, true,
                                       true, false, true, true, false)),
                                       (String ((Ascii (true, false, false,
                                       true, false, true, true, false)),
                                       (String ((Ascii (false, true, true,
                                       true, false, true, true, false)),
                                       (String ((Ascii (true, true, true,
                                       false, false, true, true, false)),
                                       (String ((Ascii (false, false, false,
                                       false, false, true, false, false)),
                                       (String ((Ascii (false, true, true,
                                       true, false, true, true, false)),
                                       (String ((Ascii (true, true, true,
                                       true, false, true, true, false)),
                                       (String ((Ascii (false, false, true,
                                       false, false, true, true, false)),
                                       (String ((Ascii (true, false, true,
                                       false, false, true, true, false)),
                                       (String ((Ascii (false, false, false,
                                       false, false, true, false, false)),
                                       (String ((Ascii (true, false, false,
                                       true, false, true, true, false)),
                                       (String ((Ascii (false, false, true,
                                       false, false, true, true, false)),
                                       EmptyString)))))))))))))))))))))))))))))))))
                                | CData _ -> subs l')
                             in subs n0.n_content) (fun body -> Val
                            (app pre
                              (app open_tag
                                (app body
                                  (app (newline_indent indent) close_tag)))))))))
     | None ->
       Pan (String ((Ascii (false, false, true, false, false, true, true,
         false)), (String ((Ascii (true, false, false, false, false, true,
         true, false)), (String ((Ascii (false, true, true, true, false,
         true, true, false)), (String ((Ascii (true, true, true, false,
         false, true, true, false)), (String ((Ascii (false, false, true,
         true, false, true, true, false)), (String ((Ascii (true, false,
         false, true, false, true, true, false)), (String ((Ascii (false,
         true, true, true, false, true, true, false)), (String ((Ascii (true,
         true, true, false, false, true, true, false)), (String ((Ascii
         (false, false, false, false, false, true, false, false)), (String
         ((Ascii (false, true, true, true, false, true, true, false)),
         (String ((Ascii (true, true, true, true, false, true, true, false)),
         (String ((Ascii (false, false, true, false, false, true, true,
         false)), (String ((Ascii (true, false, true, false, false, true,
         true, false)), (String ((Ascii (false, false, false, false, false,
         true, false, false)), (String ((Ascii (true, false, false, true,
         false, true, true, false)), (String ((Ascii (false, false, true,
         false, false, true, true, false)),
         EmptyString)))))))))))))))))))))))))))))))))

(** val e_serialize :
    tables -> nametab -> nametab -> nametab -> (n -> n list) -> id -> n list w **)

let e_serialize t tab_el tab_at tab_en float_fmt i w0 =
  match ser_heap t tab_el tab_at tab_en float_fmt (fuel_of w0) w0 None i O
          false with
  | Val s -> Val ((OK s), w0)
  | Pan s -> Pan s
  | Fuel -> Fuel

(** val filename_of_value : n -> n list option **)

let filename_of_value v =
  match find (fun i ->
          match ver_value i with
          | Some x -> N.eqb x v
          | None -> false) iotaV with
  | Some i -> option_map bytes_of_string (filename i)
  | None -> None

(** val f_serialize :
    tables -> nametab -> nametab -> nametab -> (n -> n list -> bool res) ->
    (n -> n list) -> n -> n -> n list w **)

let f_serialize t tab_el tab_at tab_en check_fn float_fmt attr_schema_location f =
  wbind (get_file f) (fun fl ->
    wbind (get_model fl.f_model) (fun m0 ->
      wbind (file_membership m0.m_root) (fun x ->
        let (_, files) = x in
        if negb (set_mem f files)
        then wfail EmptyFile
        else wbind
               (wlift
                 (unwrap (String ((Ascii (true, false, false, false, false,
                   false, true, false)), (String ((Ascii (true, false, true,
                   false, true, true, true, false)), (String ((Ascii (false,
                   false, true, false, true, true, true, false)), (String
                   ((Ascii (true, true, true, true, false, true, true,
                   false)), (String ((Ascii (true, true, false, false, true,
                   true, true, false)), (String ((Ascii (true, false, false,
                   false, false, true, true, false)), (String ((Ascii (false,
                   true, false, false, true, true, true, false)), (String
                   ((Ascii (false, true, true, false, true, false, true,
                   false)), (String ((Ascii (true, false, true, false, false,
                   true, true, false)), (String ((Ascii (false, true, false,
                   false, true, true, true, false)), (String ((Ascii (true,
                   true, false, false, true, true, true, false)), (String
                   ((Ascii (true, false, false, true, false, true, true,
                   false)), (String ((Ascii (true, true, true, true, false,
                   true, true, false)), (String ((Ascii (false, true, true,
                   true, false, true, true, false)), (String ((Ascii (false,
                   true, false, true, true, true, false, false)), (String
                   ((Ascii (false, true, false, true, true, true, false,
                   false)), (String ((Ascii (false, true, true, false, false,
                   true, true, false)), (String ((Ascii (true, false, false,
                   true, false, true, true, false)), (String ((Ascii (false,
                   false, true, true, false, true, true, false)), (String
                   ((Ascii (true, false, true, false, false, true, true,
                   false)), (String ((Ascii (false, true, true, true, false,
                   true, true, false)), (String ((Ascii (true, false, false,
                   false, false, true, true, false)), (String ((Ascii (true,
                   false, true, true, false, true, true, false)), (String
                   ((Ascii (true, false, true, false, false, true, true,
                   false)),
                   EmptyString))))))))))))))))))))))))))))))))))))))))))))))))
                   (filename_of_value fl.f_version))) (fun fname ->
               wbind
                 (wtry
                   (raw_set_attribute t check_fn m0.m_root
                     attr_schema_location (DString
                     (app
                       (bS (String ((Ascii (false, false, false, true, false,
                         true, true, false)), (String ((Ascii (false, false,
                         true, false, true, true, true, false)), (String
                         ((Ascii (false, false, true, false, true, true,
                         true, false)), (String ((Ascii (false, false, false,
                         false, true, true, true, false)), (String ((Ascii
                         (false, true, false, true, true, true, false,
                         false)), (String ((Ascii (true, true, true, true,
                         false, true, false, false)), (String ((Ascii (true,
                         true, true, true, false, true, false, false)),
                         (String ((Ascii (true, false, false, false, false,
                         true, true, false)), (String ((Ascii (true, false,
                         true, false, true, true, true, false)), (String
                         ((Ascii (false, false, true, false, true, true,
                         true, false)), (String ((Ascii (true, true, true,
                         true, false, true, true, false)), (String ((Ascii
                         (true, true, false, false, true, true, true,
                         false)), (String ((Ascii (true, false, false, false,
                         false, true, true, false)), (String ((Ascii (false,
                         true, false, false, true, true, true, false)),
                         (String ((Ascii (false, true, true, true, false,
                         true, false, false)), (String ((Ascii (true, true,
                         true, true, false, true, true, false)), (String
                         ((Ascii (false, true, false, false, true, true,
                         true, false)), (String ((Ascii (true, true, true,
                         false, false, true, true, false)), (String ((Ascii
                         (true, true, true, true, false, true, false,
                         false)), (String ((Ascii (true, true, false, false,
                         true, true, true, false)), (String ((Ascii (true,
                         true, false, false, false, true, true, false)),
                         (String ((Ascii (false, false, false, true, false,
                         true, true, false)), (String ((Ascii (true, false,
                         true, false, false, true, true, false)), (String
                         ((Ascii (true, false, true, true, false, true, true,
                         false)), (String ((Ascii (true, false, false, false,
                         false, true, true, false)), (String ((Ascii (true,
                         true, true, true, false, true, false, false)),
                         (String ((Ascii (false, true, false, false, true,
                         true, true, false)), (String ((Ascii (false, false,
                         true, false, true, true, false, false)), (String
                         ((Ascii (false, true, true, true, false, true,
                         false, false)), (String ((Ascii (false, false,
                         false, false, true, true, false, false)), (String
                         ((Ascii (false, false, false, false, false, true,
                         false, false)),
                         EmptyString)))))))))))))))))))))))))))))))))))))))))))))))))))))))))))))))
                       fname)) fl.f_version)) (fun _ w0 ->
                 match ser_heap t tab_el tab_at tab_en float_fmt (fuel_of w0)
                         w0 (Some f) m0.m_root O false with
                 | Val s ->
                   Val ((OK (app (xml_header fl.f_standalone) s)), w0)
                 | Pan s -> Pan s
                 | Fuel -> Fuel)))))

type op2 =
| Op1 of op
| OpSort of n
| OpSortModel of n
| OpDuplicate of n
| OpLoad of n * n list * n list * bool
| OpSetVersion of n * n
| OpCheckCompat of n * n
| OpSerializeFile of n
| OpSerializeElem of n

type value2 =
| V1 of value
| VText of n list
| VCompat of compat_err list * n
| VLoad of n * perror list

(** val run_op2 :
    tables -> nametab -> nametab -> nametab -> (n -> n list -> bool res) ->
    (n list -> n option) -> (n -> n list) -> n -> n -> n -> n -> (n * cdata)
    list -> op2 -> value2 w **)

let run_op2 t tab_el tab_at tab_en check_fn float_parse float_fmt lATEST name_index name_definition_ref attr_schema_location root_attrs = function
| Op1 o1 ->
  wbind (run_op t tab_el tab_en check_fn lATEST root_attrs o1) (fun v ->
    wret (V1 v))
| OpSort h ->
  wbind (e_sort t tab_el tab_at tab_en name_index name_definition_ref h)
    (fun _ -> wret (V1 VUnit))
| OpSortModel m0 ->
  wbind (m_sort t tab_el tab_at tab_en name_index name_definition_ref m0)
    (fun _ -> wret (V1 VUnit))
| OpDuplicate m0 ->
  wbind (m_duplicate t tab_el tab_en check_fn lATEST root_attrs m0)
    (fun m' -> wret (V1 (VModel m')))
| OpLoad (m0, buffer, filename0, strict) ->
  wbind
    (m_load_buffer t tab_el tab_at tab_en check_fn float_parse lATEST
      name_definition_ref m0 buffer filename0 strict) (fun x ->
    let (f, ws) = x in wret (VLoad (f, ws)))
| OpSetVersion (f, v) ->
  wbind (f_set_version t f v) (fun _ -> wret (V1 VUnit))
| OpCheckCompat (f, v) ->
  wbind (f_check_version_compatibility t f v) (fun x ->
    let (errs, mask0) = x in wret (VCompat (errs, mask0)))
| OpSerializeFile f ->
  wbind
    (f_serialize t tab_el tab_at tab_en check_fn float_fmt
      attr_schema_location f) (fun s -> wret (VText s))
| OpSerializeElem h ->
  wbind (e_serialize t tab_el tab_at tab_en float_fmt h) (fun s ->
    wret (VText s))

(** val q_cmp :
    tables -> nametab -> nametab -> nametab -> n -> n -> id -> id ->
    comparison w **)

let q_cmp =
  elem_cmp

(** val q_serialize_file :
    tables -> nametab -> nametab -> nametab -> (n -> n list -> bool res) ->
    (n -> n list) -> n -> n -> n list w **)

let q_serialize_file =
  f_serialize

type htree =
| HNode of n * (n * n) * (n * cdata) list * (htree, cdata) sum list
   * n list option * n list

(** val h_local : htree -> n list **)

let h_local = function
| HNode (_, _, _, _, _, l) -> l

(** val abs : nat -> world -> id -> htree option **)

let rec abs fuel w0 i =
  match fuel with
  | O -> None
  | S f ->
    (match w0.w_nodes i with
     | Some n0 ->
       (match let rec go = function
              | [] -> Some []
              | c0 :: r ->
                (match c0 with
                 | CElem c ->
                   (match abs f w0 c with
                    | Some h ->
                      (match go r with
                       | Some hs -> Some ((Inl h) :: hs)
                       | None -> None)
                    | None -> None)
                 | CData d ->
                   (match go r with
                    | Some hs -> Some ((Inr d) :: hs)
                    | None -> None))
              in go n0.n_content with
        | Some cs ->
          Some (HNode (n0.n_name, n0.n_type, n0.n_attrs, cs, n0.n_comment,
            n0.n_files))
        | None -> None)
     | None -> None)

(** val abs_model : world -> n -> htree option **)

let abs_model w0 m0 =
  match nth_opt w0.w_models (N.to_nat m0) with
  | Some x -> abs (S (N.to_nat w0.w_next)) w0 x.m_root
  | None -> None

(** val h_name : htree -> n **)

let h_name = function
| HNode (n0, _, _, _, _, _) -> n0

(** val h_ty : htree -> n * n **)

let h_ty = function
| HNode (_, t, _, _, _, _) -> t

(** val h_content : htree -> (htree, cdata) sum list **)

let h_content = function
| HNode (_, _, _, c, _, _) -> c

(** val h_set_local : htree -> n list -> htree **)

let h_set_local h l =
  let HNode (n0, t, a, c, cm, _) = h in HNode (n0, t, a, c, cm, l)

(** val h_set_content : htree -> (htree, cdata) sum list -> htree **)

let h_set_content h c =
  let HNode (n0, t, a, _, cm, l) = h in HNode (n0, t, a, c, cm, l)

(** val cdata_eqb : cdata -> cdata -> bool **)

let cdata_eqb a b =
  match a with
  | DEnum x -> (match b with
                | DEnum y -> N.eqb x y
                | _ -> false)
  | DString x -> (match b with
                  | DString y -> bytes_eqb x y
                  | _ -> false)
  | DUInt x -> (match b with
                | DUInt y -> N.eqb x y
                | _ -> false)
  | DFloat x -> (match b with
                 | DFloat y -> N.eqb x y
                 | _ -> false)

(** val attrs_eqb : (n * cdata) list -> (n * cdata) list -> bool **)

let rec attrs_eqb a b =
  match a with
  | [] -> (match b with
           | [] -> true
           | _ :: _ -> false)
  | p :: a' ->
    let (n1, v1) = p in
    (match b with
     | [] -> false
     | p0 :: b' ->
       let (n2, v2) = p0 in
       (&&) ((&&) (N.eqb n1 n2) (cdata_eqb v1 v2)) (attrs_eqb a' b'))

(** val opt_eqb : n list option -> n list option -> bool **)

let opt_eqb a b =
  match a with
  | Some x -> (match b with
               | Some y -> bytes_eqb x y
               | None -> false)
  | None -> (match b with
             | Some _ -> false
             | None -> true)

(** val htree_eqb : htree -> htree -> bool **)

let rec htree_eqb a b =
  let HNode (n1, t1, a1, c1, cm1, l1) = a in
  let HNode (n2, t2, a2, c2, cm2, l2) = b in
  (&&)
    ((&&)
      ((&&)
        ((&&)
          ((&&) ((&&) (N.eqb n1 n2) (N.eqb (fst t1) (fst t2)))
            (N.eqb (snd t1) (snd t2))) (attrs_eqb a1 a2)) (opt_eqb cm1 cm2))
      (bytes_eqb l1 l2))
    (let rec go x y =
       match x with
       | [] -> (match y with
                | [] -> true
                | _ :: _ -> false)
       | s :: x' ->
         (match s with
          | Inl h1 ->
            (match y with
             | [] -> false
             | s0 :: y' ->
               (match s0 with
                | Inl h2 -> (&&) (htree_eqb h1 h2) (go x' y')
                | Inr _ -> false))
          | Inr d1 ->
            (match y with
             | [] -> false
             | s0 :: y' ->
               (match s0 with
                | Inl _ -> false
                | Inr d2 -> (&&) (cdata_eqb d1 d2) (go x' y'))))
     in go c1 c2)

(** val htree_of_etree : etree -> htree **)

let rec htree_of_etree = function
| ENode (name, ty, attrs, content, comment) ->
  HNode (name, ty, (map (fun a -> ((fst a), (to_hc (snd a)))) attrs),
    (let rec go = function
     | [] -> []
     | s :: r ->
       (match s with
        | Inl c -> (Inl (htree_of_etree c)) :: (go r)
        | Inr d -> (Inr (to_hc d)) :: (go r))
     in go content), comment, [])

(** val h_character_data : tables -> htree -> cdata option res **)

let h_character_data t h =
  match h_content h with
  | [] -> Val None
  | s :: l ->
    (match s with
     | Inl _ -> Val None
     | Inr d ->
       (match l with
        | [] ->
          bind (content_mode t (h_ty h)) (fun mode -> Val
            (if (||) (N.eqb mode mCharacters) (N.eqb mode mMixed)
             then Some d
             else None))
        | _ :: _ -> Val None))

(** val h_item_name : tables -> htree -> n list option res **)

let h_item_name t h =
  bind (is_named t (h_ty h)) (fun named ->
    if negb named
    then Val None
    else (match h_content h with
          | [] -> Val None
          | s0 :: _ ->
            (match s0 with
             | Inl s ->
               if N.eqb (h_name s) t.name_short_name
               then bind (h_character_data t s) (fun cd -> Val
                      (match cd with
                       | Some c ->
                         (match c with
                          | DString nm -> Some nm
                          | _ -> None)
                       | None -> None))
               else Val None
             | Inr _ -> Val None)))

(** val h_is_identifiable : tables -> htree -> bool res **)

let h_is_identifiable t h =
  bind (is_named t (h_ty h)) (fun named ->
    if negb named
    then Val false
    else (match h_content h with
          | [] -> Val false
          | s0 :: _ ->
            (match s0 with
             | Inl s -> Val (N.eqb (h_name s) t.name_short_name)
             | Inr _ -> Val false)))

(** val h_first_named : n -> (htree, cdata) sum list -> htree option **)

let rec h_first_named name = function
| [] -> None
| s :: r ->
  (match s with
   | Inl c -> if N.eqb (h_name c) name then Some c else h_first_named name r
   | Inr _ -> h_first_named name r)

(** val h_defref : tables -> n -> htree -> n list option res **)

let h_defref t name_definition_ref h =
  match h_first_named name_definition_ref (h_content h) with
  | Some d ->
    bind (h_character_data t d) (fun cd -> Val
      (match cd with
       | Some c -> (match c with
                    | DString s -> Some s
                    | _ -> None)
       | None -> None))
  | None -> Val None

(** val hkey : tables -> n -> (n * n) -> n -> htree -> ckey **)

let hkey t name_definition_ref pty i h =
  { k_id = i; k_name0 = (h_name h); k_ident = (h_is_identifiable t h);
    k_item = (h_item_name t h); k_defref0 =
    (h_defref t name_definition_ref h); k_idx =
    (bind
      (find_sub_element t pty (h_name h) (Npos (XI (XI (XI (XI (XI (XI (XI
        (XI (XI (XI (XI (XI (XI (XI (XI (XI (XI (XI (XI (XI (XI (XI (XI (XI
        (XI (XI (XI (XI (XI (XI (XI XH)))))))))))))))))))))))))))))))))
      (fun r -> Val (option_map snd r))) }

(** val hkeys :
    tables -> n -> (n * n) -> n -> (htree, cdata) sum list -> ckey list **)

let rec hkeys t name_definition_ref pty i = function
| [] -> []
| s :: r ->
  (match s with
   | Inl c ->
     (hkey t name_definition_ref pty i c) :: (hkeys t name_definition_ref pty
                                               (N.add i (Npos XH)) r)
   | Inr _ -> hkeys t name_definition_ref pty (N.add i (Npos XH)) r)

(** val p_range_loop :
    tables -> (n * n) -> n -> n list -> n option list -> n -> n -> n ->
    (n * n) out res **)

let rec p_range_loop t ty version new_idx items idx start_pos end_pos =
  match items with
  | [] -> Val (OK (start_pos, end_pos))
  | o :: rest ->
    (match o with
     | Some cname ->
       bind (find_sub_element t ty cname version) (fun ex0 ->
         bind
           (match ex0 with
            | Some x -> Val (Some x)
            | None ->
              find_sub_element t ty cname (Npos (XI (XI (XI (XI (XI (XI (XI
                (XI (XI (XI (XI (XI (XI (XI (XI (XI (XI (XI (XI (XI (XI (XI
                (XI (XI (XI (XI (XI (XI (XI (XI (XI
                XH))))))))))))))))))))))))))))))))) (fun ex ->
           match ex with
           | Some p ->
             let (_, ex_idx) = p in
             bind (find_common_group t ty new_idx ex_idx) (fun g ->
               bind (dt t g) (fun gd ->
                 let mode = gd.dt_mode in
                 if N.eqb mode mSequence
                 then (match lex_cmp new_idx ex_idx with
                       | Eq ->
                         bind (repeat_conflict t ty new_idx) (fun c ->
                           if c
                           then Val (ER ElementInsertionConflict)
                           else p_range_loop t ty version new_idx rest
                                  (N.add idx (Npos XH)) start_pos
                                  (N.add idx (Npos XH)))
                       | Lt -> Val (OK (start_pos, end_pos))
                       | Gt ->
                         p_range_loop t ty version new_idx rest
                           (N.add idx (Npos XH)) (N.add idx (Npos XH))
                           (N.add idx (Npos XH)))
                 else if N.eqb mode mChoice
                      then if list_eqbN new_idx ex_idx
                           then bind (repeat_conflict t ty new_idx) (fun c ->
                                  if c
                                  then Val (ER ElementInsertionConflict)
                                  else p_range_loop t ty version new_idx rest
                                         (N.add idx (Npos XH)) start_pos
                                         (N.add idx (Npos XH)))
                           else Val (ER ElementInsertionConflict)
                      else if (||) (N.eqb mode mBag) (N.eqb mode mMixed)
                           then p_range_loop t ty version new_idx rest
                                  (N.add idx (Npos XH)) start_pos
                                  (N.add idx (Npos XH))
                           else Pan (String ((Ascii (true, false, true,
                                  false, false, true, true, false)), (String
                                  ((Ascii (false, false, true, true, false,
                                  true, true, false)), (String ((Ascii (true,
                                  false, true, false, false, true, true,
                                  false)), (String ((Ascii (true, false,
                                  true, true, false, true, true, false)),
                                  (String ((Ascii (true, false, true, false,
                                  false, true, true, false)), (String ((Ascii
                                  (false, true, true, true, false, true,
                                  true, false)), (String ((Ascii (false,
                                  false, true, false, true, true, true,
                                  false)), (String ((Ascii (false, true,
                                  false, false, true, true, true, false)),
                                  (String ((Ascii (true, false, false, false,
                                  false, true, true, false)), (String ((Ascii
                                  (true, true, true, false, true, true, true,
                                  false)), (String ((Ascii (false, true,
                                  true, true, false, true, false, false)),
                                  (String ((Ascii (false, true, false, false,
                                  true, true, true, false)), (String ((Ascii
                                  (true, true, false, false, true, true,
                                  true, false)), (String ((Ascii (false,
                                  false, false, false, false, true, false,
                                  false)), (String ((Ascii (true, true,
                                  false, false, false, true, true, false)),
                                  (String ((Ascii (true, false, false, false,
                                  false, true, true, false)), (String ((Ascii
                                  (false, false, true, true, false, true,
                                  true, false)), (String ((Ascii (true, true,
                                  false, false, false, true, true, false)),
                                  (String ((Ascii (true, true, true, true,
                                  true, false, true, false)), (String ((Ascii
                                  (true, false, true, false, false, true,
                                  true, false)), (String ((Ascii (false,
                                  false, true, true, false, true, true,
                                  false)), (String ((Ascii (true, false,
                                  true, false, false, true, true, false)),
                                  (String ((Ascii (true, false, true, true,
                                  false, true, true, false)), (String ((Ascii
                                  (true, false, true, false, false, true,
                                  true, false)), (String ((Ascii (false,
                                  true, true, true, false, true, true,
                                  false)), (String ((Ascii (false, false,
                                  true, false, true, true, true, false)),
                                  (String ((Ascii (true, true, true, true,
                                  true, false, true, false)), (String ((Ascii
                                  (true, false, false, true, false, true,
                                  true, false)), (String ((Ascii (false,
                                  true, true, true, false, true, true,
                                  false)), (String ((Ascii (true, true,
                                  false, false, true, true, true, false)),
                                  (String ((Ascii (true, false, true, false,
                                  false, true, true, false)), (String ((Ascii
                                  (false, true, false, false, true, true,
                                  true, false)), (String ((Ascii (false,
                                  false, true, false, true, true, true,
                                  false)), (String ((Ascii (true, true, true,
                                  true, true, false, true, false)), (String
                                  ((Ascii (false, true, false, false, true,
                                  true, true, false)), (String ((Ascii (true,
                                  false, false, false, false, true, true,
                                  false)), (String ((Ascii (false, true,
                                  true, true, false, true, true, false)),
                                  (String ((Ascii (true, true, true, false,
                                  false, true, true, false)), (String ((Ascii
                                  (true, false, true, false, false, true,
                                  true, false)), (String ((Ascii (false,
                                  true, false, true, true, true, false,
                                  false)), (String ((Ascii (false, false,
                                  false, false, false, true, false, false)),
                                  (String ((Ascii (true, false, true, false,
                                  true, true, true, false)), (String ((Ascii
                                  (false, true, true, true, false, true,
                                  true, false)), (String ((Ascii (false,
                                  true, false, false, true, true, true,
                                  false)), (String ((Ascii (true, false,
                                  true, false, false, true, true, false)),
                                  (String ((Ascii (true, false, false, false,
                                  false, true, true, false)), (String ((Ascii
                                  (true, true, false, false, false, true,
                                  true, false)), (String ((Ascii (false,
                                  false, false, true, false, true, true,
                                  false)), (String ((Ascii (true, false,
                                  false, false, false, true, true, false)),
                                  (String ((Ascii (false, true, false, false,
                                  false, true, true, false)), (String ((Ascii
                                  (false, false, true, true, false, true,
                                  true, false)), (String ((Ascii (true,
                                  false, true, false, false, true, true,
                                  false)), (String ((Ascii (true, false,
                                  false, false, false, true, false, false)),
                                  (String ((Ascii (false, false, false, true,
                                  false, true, false, false)), (String
                                  ((Ascii (true, false, false, true, false,
                                  true, false, false)),
                                  EmptyString))))))))))))))))))))))))))))))))))))))))))))))))))))))))))))))))))))))))))))))))))))))))))))))))))))))))))))))))
           | None ->
             p_range_loop t ty version new_idx rest (N.add idx (Npos XH))
               start_pos end_pos))
     | None ->
       p_range_loop t ty version new_idx rest (N.add idx (Npos XH)) start_pos
         (N.add idx (Npos XH)))

(** val item_name_of : (htree, cdata) sum -> n option **)

let item_name_of = function
| Inl c -> Some (h_name c)
| Inr _ -> None

(** val p_insert_range :
    tables -> (n * n) -> (htree, cdata) sum list -> n -> n -> (n * n) out res **)

let p_insert_range t ty content name version =
  bind (content_mode t ty) (fun mode ->
    if N.eqb mode mCharacters
    then Val (ER IncorrectContentType)
    else bind (find_sub_element t ty name version) (fun f ->
           match f with
           | Some p ->
             let (_, new_idx) = p in
             if (||) (N.eqb mode mBag) (N.eqb mode mMixed)
             then Val (OK (N0, (N.of_nat (length content))))
             else p_range_loop t ty version new_idx
                    (map item_name_of content) N0 N0 N0
           | None -> Val (ER InvalidSubElement)))

(** val p_files_min_version : n -> (n -> n option) -> n list -> n **)

let p_files_min_version lATEST fver files =
  match flat_map (fun f -> match fver f with
                           | Some v -> v :: []
                           | None -> []) files with
  | [] -> lATEST
  | v :: r -> fold_left N.min r v

(** val lookup_merge : id -> (id * id) list -> id option **)

let rec lookup_merge i = function
| [] -> None
| p :: r -> let (a, b) = p in if N.eqb a i then Some b else lookup_merge i r

(** val h_restrict : n list -> htree -> htree **)

let h_restrict files c = match c with
| HNode (n0, t, a, cc, cm, loc) ->
  if is_empty loc then HNode (n0, t, a, cc, cm, files) else c

(** val h_bump : n -> htree -> htree **)

let h_bump new_file c =
  if negb (is_empty (h_local c))
  then h_set_local c (set_add new_file (h_local c))
  else c

(** val h_import : n -> htree -> htree **)

let h_import new_file = function
| HNode (n0, t, a, cc, cm, loc) ->
  HNode (n0, t, a, cc, cm, (set_add new_file loc))

(** val p_import :
    tables -> (n * n) -> (htree, cdata) sum list -> (id * n) list -> n -> n
    -> n -> (htree, cdata) sum list -> (htree, cdata) sum list out res **)

let rec p_import t ty b_content l idx new_file min_ver_b cur =
  match l with
  | [] -> Val (OK cur)
  | p :: r ->
    let (bid, insert_pos) = p in
    (match nth_opt b_content (N.to_nat bid) with
     | Some s ->
       (match s with
        | Inl nb ->
          bind (p_insert_range t ty cur (h_name nb) min_ver_b) (fun range ->
            match range with
            | OK a ->
              let (first_pos, last_pos) = a in
              let dest =
                N.min (N.max (N.add insert_pos idx) first_pos) last_pos
              in
              if N.ltb (N.of_nat (length cur)) dest
              then Pan (String ((Ascii (false, true, true, false, true,
                     false, true, false)), (String ((Ascii (true, false,
                     true, false, false, true, true, false)), (String ((Ascii
                     (true, true, false, false, false, true, true, false)),
                     (String ((Ascii (false, true, false, true, true, true,
                     false, false)), (String ((Ascii (false, true, false,
                     true, true, true, false, false)), (String ((Ascii (true,
                     false, false, true, false, true, true, false)), (String
                     ((Ascii (false, true, true, true, false, true, true,
                     false)), (String ((Ascii (true, true, false, false,
                     true, true, true, false)), (String ((Ascii (true, false,
                     true, false, false, true, true, false)), (String ((Ascii
                     (false, true, false, false, true, true, true, false)),
                     (String ((Ascii (false, false, true, false, true, true,
                     true, false)), (String ((Ascii (false, true, false,
                     true, true, true, false, false)), (String ((Ascii
                     (false, false, false, false, false, true, false,
                     false)), (String ((Ascii (true, false, false, true,
                     false, true, true, false)), (String ((Ascii (false,
                     true, true, true, false, true, true, false)), (String
                     ((Ascii (false, false, true, false, false, true, true,
                     false)), (String ((Ascii (true, false, true, false,
                     false, true, true, false)), (String ((Ascii (false,
                     false, false, true, true, true, true, false)), (String
                     ((Ascii (false, false, false, false, false, true, false,
                     false)), (String ((Ascii (false, true, true, true, true,
                     true, false, false)), (String ((Ascii (false, false,
                     false, false, false, true, false, false)), (String
                     ((Ascii (false, false, true, true, false, true, true,
                     false)), (String ((Ascii (true, false, true, false,
                     false, true, true, false)), (String ((Ascii (false,
                     true, true, true, false, true, true, false)),
                     EmptyString))))))))))))))))))))))))))))))))))))))))))))))))
              else p_import t ty b_content r (N.add idx (Npos XH)) new_file
                     min_ver_b
                     (insert_at cur (N.to_nat dest) (Inl
                       (h_import new_file nb)))
            | ER _ -> Val (ER InvalidFileMerge))
        | Inr _ ->
          Pan (String ((Ascii (false, false, false, false, true, true, true,
            false)), (String ((Ascii (true, false, true, true, false, true,
            true, false)), (String ((Ascii (true, false, true, false, false,
            true, true, false)), (String ((Ascii (false, true, false, false,
            true, true, true, false)), (String ((Ascii (true, true, true,
            false, false, true, true, false)), (String ((Ascii (true, false,
            true, false, false, true, true, false)), (String ((Ascii (false,
            true, false, true, true, true, false, false)), (String ((Ascii
            (false, false, false, false, false, true, false, false)), (String
            ((Ascii (false, true, false, false, false, true, true, false)),
            (String ((Ascii (false, false, false, false, false, true, false,
            false)), (String ((Ascii (true, false, false, true, false, true,
            true, false)), (String ((Ascii (false, false, true, false, false,
            true, true, false)), (String ((Ascii (false, false, false, false,
            false, true, false, false)), (String ((Ascii (false, false, true,
            false, false, true, true, false)), (String ((Ascii (true, true,
            true, true, false, true, true, false)), (String ((Ascii (true,
            false, true, false, false, true, true, false)), (String ((Ascii
            (true, true, false, false, true, true, true, false)), (String
            ((Ascii (false, false, false, false, false, true, false, false)),
            (String ((Ascii (false, true, true, true, false, true, true,
            false)), (String ((Ascii (true, true, true, true, false, true,
            true, false)), (String ((Ascii (false, false, true, false, true,
            true, true, false)), (String ((Ascii (false, false, false, false,
            false, true, false, false)), (String ((Ascii (false, false, true,
            false, false, true, true, false)), (String ((Ascii (true, false,
            true, false, false, true, true, false)), (String ((Ascii (false,
            true, true, true, false, true, true, false)), (String ((Ascii
            (true, true, true, true, false, true, true, false)), (String
            ((Ascii (false, false, true, false, true, true, true, false)),
            (String ((Ascii (true, false, true, false, false, true, true,
            false)), (String ((Ascii (false, false, false, false, false,
            true, false, false)), (String ((Ascii (true, false, false, false,
            false, true, true, false)), (String ((Ascii (false, true, true,
            true, false, true, true, false)), (String ((Ascii (false, false,
            false, false, false, true, false, false)), (String ((Ascii (true,
            false, true, false, false, true, true, false)), (String ((Ascii
            (false, false, true, true, false, true, true, false)), (String
            ((Ascii (true, false, true, false, false, true, true, false)),
            (String ((Ascii (true, false, true, true, false, true, true,
            false)), (String ((Ascii (true, false, true, false, false, true,
            true, false)), (String ((Ascii (false, true, true, true, false,
            true, true, false)), (String ((Ascii (false, false, true, false,
            true, true, true, false)),
            EmptyString)))))))))))))))))))))))))))))))))))))))))))))))))))))))))))))))))))))))))))))))
     | None ->
       Pan (String ((Ascii (false, false, false, false, true, true, true,
         false)), (String ((Ascii (true, false, true, true, false, true,
         true, false)), (String ((Ascii (true, false, true, false, false,
         true, true, false)), (String ((Ascii (false, true, false, false,
         true, true, true, false)), (String ((Ascii (true, true, true, false,
         false, true, true, false)), (String ((Ascii (true, false, true,
         false, false, true, true, false)), (String ((Ascii (false, true,
         false, true, true, true, false, false)), (String ((Ascii (false,
         false, false, false, false, true, false, false)), (String ((Ascii
         (false, true, false, false, false, true, true, false)), (String
         ((Ascii (false, false, false, false, false, true, false, false)),
         (String ((Ascii (true, false, false, true, false, true, true,
         false)), (String ((Ascii (false, false, true, false, false, true,
         true, false)), (String ((Ascii (false, false, false, false, false,
         true, false, false)), (String ((Ascii (false, false, true, false,
         false, true, true, false)), (String ((Ascii (true, true, true, true,
         false, true, true, false)), (String ((Ascii (true, false, true,
         false, false, true, true, false)), (String ((Ascii (true, true,
         false, false, true, true, true, false)), (String ((Ascii (false,
         false, false, false, false, true, false, false)), (String ((Ascii
         (false, true, true, true, false, true, true, false)), (String
         ((Ascii (true, true, true, true, false, true, true, false)), (String
         ((Ascii (false, false, true, false, true, true, true, false)),
         (String ((Ascii (false, false, false, false, false, true, false,
         false)), (String ((Ascii (false, false, true, false, false, true,
         true, false)), (String ((Ascii (true, false, true, false, false,
         true, true, false)), (String ((Ascii (false, true, true, true,
         false, true, true, false)), (String ((Ascii (true, true, true, true,
         false, true, true, false)), (String ((Ascii (false, false, true,
         false, true, true, true, false)), (String ((Ascii (true, false,
         true, false, false, true, true, false)), (String ((Ascii (false,
         false, false, false, false, true, false, false)), (String ((Ascii
         (true, false, false, false, false, true, true, false)), (String
         ((Ascii (false, true, true, true, false, true, true, false)),
         (String ((Ascii (false, false, false, false, false, true, false,
         false)), (String ((Ascii (true, false, true, false, false, true,
         true, false)), (String ((Ascii (false, false, true, true, false,
         true, true, false)), (String ((Ascii (true, false, true, false,
         false, true, true, false)), (String ((Ascii (true, false, true,
         true, false, true, true, false)), (String ((Ascii (true, false,
         true, false, false, true, true, false)), (String ((Ascii (false,
         true, true, true, false, true, true, false)), (String ((Ascii
         (false, false, true, false, true, true, true, false)),
         EmptyString)))))))))))))))))))))))))))))))))))))))))))))))))))))))))))))))))))))))))))))))

(** val pmerge :
    tables -> n -> n -> (n -> n option) -> nat -> htree -> n list -> htree ->
    n -> htree out res **)

let rec pmerge t lATEST name_definition_ref fver fuel a files b new_file =
  match fuel with
  | O -> Fuel
  | S fl ->
    let pty = h_ty a in
    let la = hkeys t name_definition_ref pty N0 (h_content a) in
    let lb = hkeys t name_definition_ref pty N0 (h_content b) in
    let min_ver_a = p_files_min_version lATEST fver files in
    let min_ver_b = match fver new_file with
                    | Some v -> v
                    | None -> lATEST in
    let version = N.min min_ver_a min_ver_b in
    bind (splittable_in t pty version) (fun splitable ->
      bind
        (walk0 (S (add (length la) (length lb))) la lb splitable
          (N.of_nat (length (h_content a))) N0 la lb { wk_merge = [];
          wk_a_only = []; wk_b_only = [] }) (fun wko ->
        match wko with
        | OK wk ->
          bind
            (let rec kids i = function
             | [] -> Val (OK [])
             | s :: r ->
               (match s with
                | Inl c ->
                  bind
                    (if existsb (N.eqb i) wk.wk_a_only
                     then Val (OK (h_restrict files c))
                     else (match lookup_merge i wk.wk_merge with
                           | Some ib ->
                             (match nth_opt (h_content b) (N.to_nat ib) with
                              | Some s0 ->
                                (match s0 with
                                 | Inl eb ->
                                   let files' =
                                     if negb (is_empty (h_local c))
                                     then h_local c
                                     else files
                                   in
                                   bind
                                     (pmerge t lATEST name_definition_ref
                                       fver fl c files' eb new_file)
                                     (fun mo ->
                                     match mo with
                                     | OK ea' ->
                                       Val (OK (h_bump new_file ea'))
                                     | ER e -> Val (ER e))
                                 | Inr _ ->
                                   Pan (String ((Ascii (false, false, false,
                                     false, true, true, true, false)),
                                     (String ((Ascii (true, false, true,
                                     true, false, true, true, false)),
                                     (String ((Ascii (true, false, true,
                                     false, false, true, true, false)),
                                     (String ((Ascii (false, true, false,
                                     false, true, true, true, false)),
                                     (String ((Ascii (true, true, true,
                                     false, false, true, true, false)),
                                     (String ((Ascii (true, false, true,
                                     false, false, true, true, false)),
                                     (String ((Ascii (false, true, false,
                                     true, true, true, false, false)),
                                     (String ((Ascii (false, false, false,
                                     false, false, true, false, false)),
                                     (String ((Ascii (true, false, true,
                                     true, false, true, true, false)),
                                     (String ((Ascii (true, false, true,
                                     false, false, true, true, false)),
                                     (String ((Ascii (false, true, false,
                                     false, true, true, true, false)),
                                     (String ((Ascii (true, true, true,
                                     false, false, true, true, false)),
                                     (String ((Ascii (true, false, true,
                                     false, false, true, true, false)),
                                     (String ((Ascii (false, false, false,
                                     false, false, true, false, false)),
                                     (String ((Ascii (false, false, false,
                                     false, true, true, true, false)),
                                     (String ((Ascii (true, false, false,
                                     false, false, true, true, false)),
                                     (String ((Ascii (true, false, false,
                                     true, false, true, true, false)),
                                     (String ((Ascii (false, true, false,
                                     false, true, true, true, false)),
                                     (String ((Ascii (false, false, false,
                                     false, false, true, false, false)),
                                     (String ((Ascii (false, false, true,
                                     false, false, true, true, false)),
                                     (String ((Ascii (true, true, true, true,
                                     false, true, true, false)), (String
                                     ((Ascii (true, false, true, false,
                                     false, true, true, false)), (String
                                     ((Ascii (true, true, false, false, true,
                                     true, true, false)), (String ((Ascii
                                     (false, false, false, false, false,
                                     true, false, false)), (String ((Ascii
                                     (false, true, true, true, false, true,
                                     true, false)), (String ((Ascii (true,
                                     true, true, true, false, true, true,
                                     false)), (String ((Ascii (false, false,
                                     true, false, true, true, true, false)),
                                     (String ((Ascii (false, false, false,
                                     false, false, true, false, false)),
                                     (String ((Ascii (false, false, true,
                                     false, false, true, true, false)),
                                     (String ((Ascii (true, false, true,
                                     false, false, true, true, false)),
                                     (String ((Ascii (false, true, true,
                                     true, false, true, true, false)),
                                     (String ((Ascii (true, true, true, true,
                                     false, true, true, false)), (String
                                     ((Ascii (false, false, true, false,
                                     true, true, true, false)), (String
                                     ((Ascii (true, false, true, false,
                                     false, true, true, false)), (String
                                     ((Ascii (false, false, false, false,
                                     false, true, false, false)), (String
                                     ((Ascii (true, false, false, false,
                                     false, true, true, false)), (String
                                     ((Ascii (false, true, true, true, false,
                                     true, true, false)), (String ((Ascii
                                     (false, false, false, false, false,
                                     true, false, false)), (String ((Ascii
                                     (true, false, true, false, false, true,
                                     true, false)), (String ((Ascii (false,
                                     false, true, true, false, true, true,
                                     false)), (String ((Ascii (true, false,
                                     true, false, false, true, true, false)),
                                     (String ((Ascii (true, false, true,
                                     true, false, true, true, false)),
                                     (String ((Ascii (true, false, true,
                                     false, false, true, true, false)),
                                     (String ((Ascii (false, true, true,
                                     true, false, true, true, false)),
                                     (String ((Ascii (false, false, true,
                                     false, true, true, true, false)),
                                     (String ((Ascii (false, false, false,
                                     false, false, true, false, false)),
                                     (String ((Ascii (true, true, true, true,
                                     false, true, true, false)), (String
                                     ((Ascii (false, true, true, false,
                                     false, true, true, false)), (String
                                     ((Ascii (false, false, false, false,
                                     false, true, false, false)), (String
                                     ((Ascii (false, true, false, false,
                                     false, true, true, false)),
                                     EmptyString)))))))))))))))))))))))))))))))))))))))))))))))))))))))))))))))))))))))))))))))))))))))))))))))))))))
                              | None ->
                                Pan (String ((Ascii (false, false, false,
                                  false, true, true, true, false)), (String
                                  ((Ascii (true, false, true, true, false,
                                  true, true, false)), (String ((Ascii (true,
                                  false, true, false, false, true, true,
                                  false)), (String ((Ascii (false, true,
                                  false, false, true, true, true, false)),
                                  (String ((Ascii (true, true, true, false,
                                  false, true, true, false)), (String ((Ascii
                                  (true, false, true, false, false, true,
                                  true, false)), (String ((Ascii (false,
                                  true, false, true, true, true, false,
                                  false)), (String ((Ascii (false, false,
                                  false, false, false, true, false, false)),
                                  (String ((Ascii (true, false, true, true,
                                  false, true, true, false)), (String ((Ascii
                                  (true, false, true, false, false, true,
                                  true, false)), (String ((Ascii (false,
                                  true, false, false, true, true, true,
                                  false)), (String ((Ascii (true, true, true,
                                  false, false, true, true, false)), (String
                                  ((Ascii (true, false, true, false, false,
                                  true, true, false)), (String ((Ascii
                                  (false, false, false, false, false, true,
                                  false, false)), (String ((Ascii (false,
                                  false, false, false, true, true, true,
                                  false)), (String ((Ascii (true, false,
                                  false, false, false, true, true, false)),
                                  (String ((Ascii (true, false, false, true,
                                  false, true, true, false)), (String ((Ascii
                                  (false, true, false, false, true, true,
                                  true, false)), (String ((Ascii (false,
                                  false, false, false, false, true, false,
                                  false)), (String ((Ascii (false, false,
                                  true, false, false, true, true, false)),
                                  (String ((Ascii (true, true, true, true,
                                  false, true, true, false)), (String ((Ascii
                                  (true, false, true, false, false, true,
                                  true, false)), (String ((Ascii (true, true,
                                  false, false, true, true, true, false)),
                                  (String ((Ascii (false, false, false,
                                  false, false, true, false, false)), (String
                                  ((Ascii (false, true, true, true, false,
                                  true, true, false)), (String ((Ascii (true,
                                  true, true, true, false, true, true,
                                  false)), (String ((Ascii (false, false,
                                  true, false, true, true, true, false)),
                                  (String ((Ascii (false, false, false,
                                  false, false, true, false, false)), (String
                                  ((Ascii (false, false, true, false, false,
                                  true, true, false)), (String ((Ascii (true,
                                  false, true, false, false, true, true,
                                  false)), (String ((Ascii (false, true,
                                  true, true, false, true, true, false)),
                                  (String ((Ascii (true, true, true, true,
                                  false, true, true, false)), (String ((Ascii
                                  (false, false, true, false, true, true,
                                  true, false)), (String ((Ascii (true,
                                  false, true, false, false, true, true,
                                  false)), (String ((Ascii (false, false,
                                  false, false, false, true, false, false)),
                                  (String ((Ascii (true, false, false, false,
                                  false, true, true, false)), (String ((Ascii
                                  (false, true, true, true, false, true,
                                  true, false)), (String ((Ascii (false,
                                  false, false, false, false, true, false,
                                  false)), (String ((Ascii (true, false,
                                  true, false, false, true, true, false)),
                                  (String ((Ascii (false, false, true, true,
                                  false, true, true, false)), (String ((Ascii
                                  (true, false, true, false, false, true,
                                  true, false)), (String ((Ascii (true,
                                  false, true, true, false, true, true,
                                  false)), (String ((Ascii (true, false,
                                  true, false, false, true, true, false)),
                                  (String ((Ascii (false, true, true, true,
                                  false, true, true, false)), (String ((Ascii
                                  (false, false, true, false, true, true,
                                  true, false)), (String ((Ascii (false,
                                  false, false, false, false, true, false,
                                  false)), (String ((Ascii (true, true, true,
                                  true, false, true, true, false)), (String
                                  ((Ascii (false, true, true, false, false,
                                  true, true, false)), (String ((Ascii
                                  (false, false, false, false, false, true,
                                  false, false)), (String ((Ascii (false,
                                  true, false, false, false, true, true,
                                  false)),
                                  EmptyString)))))))))))))))))))))))))))))))))))))))))))))))))))))))))))))))))))))))))))))))))))))))))))))))))))))
                           | None -> Val (OK c))) (fun co ->
                    match co with
                    | OK c' ->
                      bind (kids (N.add i (Npos XH)) r) (fun ro ->
                        match ro with
                        | OK rr -> Val (OK ((Inl c') :: rr))
                        | ER e -> Val (ER e))
                    | ER e -> Val (ER e))
                | Inr d ->
                  bind (kids (N.add i (Npos XH)) r) (fun ro ->
                    match ro with
                    | OK rr -> Val (OK ((Inr d) :: rr))
                    | ER e -> Val (ER e)))
             in kids N0 (h_content a)) (fun c1o ->
            match c1o with
            | OK c1 ->
              bind
                (p_import t pty (h_content b) wk.wk_b_only N0 new_file
                  min_ver_b c1) (fun c2o ->
                match c2o with
                | OK c2 -> Val (OK (h_set_content a c2))
                | ER e -> Val (ER e))
            | ER e -> Val (ER e))
        | ER e -> Val (ER e)))

(** val pmerge_file :
    tables -> n -> n -> (n -> n option) -> htree -> n list -> htree -> n ->
    htree out res **)

let pmerge_file t lATEST name_definition_ref fver a files b new_file =
  bind
    (pmerge t lATEST name_definition_ref fver (S (S (S (S (S (S (S (S (S (S
      (S (S (S (S (S (S (S (S (S (S (S (S (S (S (S (S (S (S (S (S (S (S (S (S
      (S (S (S (S (S (S (S (S (S (S (S (S (S (S (S (S (S (S (S (S (S (S (S (S
      (S (S (S (S (S (S (S (S (S (S (S (S (S (S (S (S (S (S (S (S (S (S (S (S
      (S (S (S (S (S (S (S (S (S (S (S (S (S (S (S (S (S (S (S (S (S (S (S (S
      (S (S (S (S (S (S (S (S (S (S (S (S (S (S (S (S (S (S (S (S (S (S (S (S
      (S (S (S (S (S (S (S (S (S (S (S (S (S (S (S (S (S (S (S (S (S (S (S (S
      (S (S (S (S (S (S (S (S (S (S (S (S (S (S (S (S (S (S (S (S (S (S (S (S
      (S (S (S (S (S (S (S (S (S (S (S (S (S (S (S (S (S (S (S (S (S (S (S (S
      (S (S (S (S (S (S (S (S (S (S (S (S (S (S (S (S (S (S (S (S (S (S (S (S
      (S (S (S (S (S (S (S (S (S (S (S (S (S (S (S (S (S (S (S (S (S (S (S (S
      (S (S (S (S (S (S (S (S (S (S (S (S (S (S (S (S (S (S (S (S (S (S (S (S
      (S (S (S (S (S (S (S (S (S (S (S (S (S (S (S (S (S (S (S (S (S (S (S (S
      (S (S (S (S (S (S (S (S (S (S (S (S (S (S (S (S (S (S (S (S (S (S (S (S
      (S (S (S (S (S (S (S (S (S (S (S (S (S (S (S (S (S (S (S (S (S (S (S (S
      (S (S (S (S (S (S (S (S (S (S (S (S (S (S (S (S (S (S (S (S (S (S (S (S
      (S (S (S (S (S (S (S (S (S (S (S (S (S (S (S (S (S (S (S (S (S (S (S (S
      (S (S (S (S (S (S (S (S (S (S (S (S (S (S (S (S (S (S (S (S (S (S (S (S
      (S (S (S (S (S (S (S (S (S (S (S (S (S (S (S (S (S (S (S (S (S (S (S (S
      (S (S (S (S (S (S (S (S (S (S (S (S (S (S (S (S (S (S (S (S (S (S (S (S
      (S (S (S (S (S (S (S (S (S (S (S (S (S (S (S (S (S (S (S (S (S (S (S (S
      (S (S (S (S (S (S (S (S (S (S (S (S (S (S (S (S (S (S (S (S (S (S (S (S
      (S (S (S (S (S (S (S (S (S (S (S (S (S (S (S (S (S (S (S (S (S (S (S (S
      (S (S (S (S (S (S (S (S (S (S (S (S (S (S (S (S (S (S (S (S (S (S (S (S
      (S (S (S (S (S (S (S (S (S (S (S (S (S (S (S (S (S (S (S (S (S (S (S (S
      (S (S (S (S (S (S (S (S (S (S (S (S (S (S (S (S (S (S (S (S (S (S (S (S
      (S (S (S (S (S (S (S (S (S (S (S (S (S (S (S (S (S (S (S (S (S (S (S (S
      (S (S (S (S (S (S (S (S (S (S (S (S (S (S (S (S (S (S (S (S (S (S (S (S
      (S (S (S (S (S (S (S (S (S (S (S (S (S (S (S (S (S (S (S (S (S (S (S (S
      (S (S (S (S (S (S (S (S (S (S (S (S (S (S (S (S (S (S (S (S (S (S (S (S
      (S (S (S (S (S (S (S (S (S (S (S (S (S (S (S (S (S (S (S (S (S (S (S (S
      (S (S (S (S (S (S (S (S (S (S (S (S (S (S (S (S (S (S (S (S (S (S (S (S
      (S (S (S (S (S (S (S (S (S (S (S (S (S (S (S (S (S (S (S (S (S (S (S (S
      (S (S (S (S (S (S (S (S (S (S (S (S (S (S (S (S (S (S (S (S (S (S (S (S
      (S (S (S (S (S (S (S (S (S (S (S (S (S (S (S (S (S (S (S (S (S (S (S (S
      (S (S (S (S (S (S (S (S (S (S (S (S (S (S (S (S (S (S (S (S (S (S (S (S
      (S (S (S (S (S (S (S (S (S (S (S (S (S (S (S (S (S (S (S (S (S (S (S (S
      (S (S (S (S (S (S (S (S (S (S (S (S (S (S (S (S (S (S (S (S (S (S (S (S
      (S (S (S (S (S (S (S (S (S (S (S (S (S (S (S (S (S (S (S (S (S (S (S (S
      (S (S (S (S (S (S (S (S (S (S (S (S (S (S (S (S (S (S (S (S (S (S (S (S
      (S (S (S (S (S (S (S (S (S (S (S (S (S (S (S (S (S (S (S (S (S (S (S (S
      (S (S (S (S (S (S (S (S (S (S (S (S (S (S (S (S (S (S (S (S (S (S (S (S
      (S (S (S (S (S (S
      O))))))))))))))))))))))))))))))))))))))))))))))))))))))))))))))))))))))))))))))))))))))))))))))))))))))))))))))))))))))))))))))))))))))))))))))))))))))))))))))))))))))))))))))))))))))))))))))))))))))))))))))))))))))))))))))))))))))))))))))))))))))))))))))))))))))))))))))))))))))))))))))))))))))))))))))))))))))))))))))))))))))))))))))))))))))))))))))))))))))))))))))))))))))))))))))))))))))))))))))))))))))))))))))))))))))))))))))))))))))))))))))))))))))))))))))))))))))))))))))))))))))))))))))))))))))))))))))))))))))))))))))))))))))))))))))))))))))))))))))))))))))))))))))))))))))))))))))))))))))))))))))))))))))))))))))))))))))))))))))))))))))))))))))))))))))))))))))))))))))))))))))))))))))))))))))))))))))))))))))))))))))))))))))))))))))))))))))))))))))))))))))))))))))))))))))))))))))))))))))))))))))))))))))))))))))))))))))))))))))))))))))))))))))))))))))))))))))))))))))))))))))))))))))))))))))))))))))))))))))))))))))))))))))))))))))))))))))))))))))))))))))))))))))))))))))))))))))))))))))))
      a files b new_file) (fun r ->
    match r with
    | OK a' -> Val (OK (h_set_local a' (set_add new_file (h_local a'))))
    | ER e -> Val (ER e))

(** val check_load :
    tables -> n -> n -> world -> n -> etree -> n -> n out -> world -> string
    option **)

let check_load t lATEST name_definition_ref w0 m0 root version r w' =
  match nth_opt w0.w_models (N.to_nat m0) with
  | Some x ->
    if is_empty x.m_files
    then None
    else (match abs_model w0 m0 with
          | Some ha ->
            let fid = N.of_nat (length w0.w_files) in
            let fver = fun f ->
              if N.eqb f fid
              then Some version
              else (match nth_opt w0.w_files (N.to_nat f) with
                    | Some fl -> Some fl.f_version
                    | None -> None)
            in
            let files = fold_right set_add [] x.m_files in
            (match pmerge_file t lATEST name_definition_ref fver ha files
                     (htree_of_etree root) fid with
             | Val a ->
               (match a with
                | OK expected_tree ->
                  (match r with
                   | OK _ ->
                     (match abs_model w' m0 with
                      | Some h' ->
                        if htree_eqb h' expected_tree
                        then None
                        else Some (String ((Ascii (false, true, false, false,
                               true, true, true, false)), (String ((Ascii
                               (true, false, true, false, false, true, true,
                               false)), (String ((Ascii (false, true, true,
                               false, false, true, true, false)), (String
                               ((Ascii (true, false, false, true, false,
                               true, true, false)), (String ((Ascii (false,
                               true, true, true, false, true, true, false)),
                               (String ((Ascii (true, false, true, false,
                               false, true, true, false)), (String ((Ascii
                               (false, true, false, true, true, true, false,
                               false)), (String ((Ascii (false, false, false,
                               false, false, true, false, false)), (String
                               ((Ascii (false, false, false, true, false,
                               true, true, false)), (String ((Ascii (true,
                               false, true, false, false, true, true,
                               false)), (String ((Ascii (true, false, false,
                               false, false, true, true, false)), (String
                               ((Ascii (false, false, false, false, true,
                               true, true, false)), (String ((Ascii (false,
                               false, false, false, false, true, false,
                               false)), (String ((Ascii (true, false, true,
                               true, false, true, true, false)), (String
                               ((Ascii (true, false, true, false, false,
                               true, true, false)), (String ((Ascii (false,
                               true, false, false, true, true, true, false)),
                               (String ((Ascii (true, true, true, false,
                               false, true, true, false)), (String ((Ascii
                               (true, false, true, false, false, true, true,
                               false)), (String ((Ascii (false, false, false,
                               false, false, true, false, false)), (String
                               ((Ascii (true, false, false, false, false,
                               true, true, false)), (String ((Ascii (false,
                               true, true, true, false, true, true, false)),
                               (String ((Ascii (false, false, true, false,
                               false, true, true, false)), (String ((Ascii
                               (false, false, false, false, false, true,
                               false, false)), (String ((Ascii (false, false,
                               false, false, true, true, true, false)),
                               (String ((Ascii (true, false, true, false,
                               true, true, true, false)), (String ((Ascii
                               (false, true, false, false, true, true, true,
                               false)), (String ((Ascii (true, false, true,
                               false, false, true, true, false)), (String
                               ((Ascii (false, false, false, false, false,
                               true, false, false)), (String ((Ascii (true,
                               false, true, true, false, true, true, false)),
                               (String ((Ascii (true, false, true, false,
                               false, true, true, false)), (String ((Ascii
                               (false, true, false, false, true, true, true,
                               false)), (String ((Ascii (true, true, true,
                               false, false, true, true, false)), (String
                               ((Ascii (true, false, true, false, false,
                               true, true, false)), (String ((Ascii (false,
                               false, false, false, false, true, false,
                               false)), (String ((Ascii (false, false, true,
                               false, false, true, true, false)), (String
                               ((Ascii (true, false, false, true, false,
                               true, true, false)), (String ((Ascii (false,
                               true, true, false, false, true, true, false)),
                               (String ((Ascii (false, true, true, false,
                               false, true, true, false)), (String ((Ascii
                               (true, false, true, false, false, true, true,
                               false)), (String ((Ascii (false, true, false,
                               false, true, true, true, false)),
                               EmptyString))))))))))))))))))))))))))))))))))))))))))))))))))))))))))))))))))))))))))))))))
                      | None ->
                        Some (String ((Ascii (false, true, false, false,
                          true, true, true, false)), (String ((Ascii (true,
                          false, true, false, false, true, true, false)),
                          (String ((Ascii (false, true, true, false, false,
                          true, true, false)), (String ((Ascii (true, false,
                          false, true, false, true, true, false)), (String
                          ((Ascii (false, true, true, true, false, true,
                          true, false)), (String ((Ascii (true, false, true,
                          false, false, true, true, false)), (String ((Ascii
                          (false, true, false, true, true, true, false,
                          false)), (String ((Ascii (false, false, false,
                          false, false, true, false, false)), (String ((Ascii
                          (false, false, true, false, true, true, true,
                          false)), (String ((Ascii (false, false, false,
                          true, false, true, true, false)), (String ((Ascii
                          (true, false, true, false, false, true, true,
                          false)), (String ((Ascii (false, false, false,
                          false, false, true, false, false)), (String ((Ascii
                          (true, false, true, true, false, true, true,
                          false)), (String ((Ascii (true, true, true, true,
                          false, true, true, false)), (String ((Ascii (false,
                          false, true, false, false, true, true, false)),
                          (String ((Ascii (true, false, true, false, false,
                          true, true, false)), (String ((Ascii (false, false,
                          true, true, false, true, true, false)), (String
                          ((Ascii (false, false, false, false, false, true,
                          false, false)), (String ((Ascii (false, false,
                          true, false, true, true, true, false)), (String
                          ((Ascii (false, true, false, false, true, true,
                          true, false)), (String ((Ascii (true, false, true,
                          false, false, true, true, false)), (String ((Ascii
                          (true, false, true, false, false, true, true,
                          false)), (String ((Ascii (false, false, false,
                          false, false, true, false, false)), (String ((Ascii
                          (true, true, false, false, false, true, true,
                          false)), (String ((Ascii (true, false, false,
                          false, false, true, true, false)), (String ((Ascii
                          (false, true, true, true, false, true, true,
                          false)), (String ((Ascii (false, true, true, true,
                          false, true, true, false)), (String ((Ascii (true,
                          true, true, true, false, true, true, false)),
                          (String ((Ascii (false, false, true, false, true,
                          true, true, false)), (String ((Ascii (false, false,
                          false, false, false, true, false, false)), (String
                          ((Ascii (false, true, false, false, false, true,
                          true, false)), (String ((Ascii (true, false, true,
                          false, false, true, true, false)), (String ((Ascii
                          (false, false, false, false, false, true, false,
                          false)), (String ((Ascii (false, true, false,
                          false, true, true, true, false)), (String ((Ascii
                          (true, false, true, false, false, true, true,
                          false)), (String ((Ascii (true, false, false,
                          false, false, true, true, false)), (String ((Ascii
                          (false, false, true, false, false, true, true,
                          false)), (String ((Ascii (false, false, false,
                          false, false, true, false, false)), (String ((Ascii
                          (false, true, false, false, false, true, true,
                          false)), (String ((Ascii (true, false, false,
                          false, false, true, true, false)), (String ((Ascii
                          (true, true, false, false, false, true, true,
                          false)), (String ((Ascii (true, true, false, true,
                          false, true, true, false)), (String ((Ascii (false,
                          false, false, false, false, true, false, false)),
                          (String ((Ascii (true, false, false, false, false,
                          true, true, false)), (String ((Ascii (false, true,
                          true, false, false, true, true, false)), (String
                          ((Ascii (false, false, true, false, true, true,
                          true, false)), (String ((Ascii (true, false, true,
                          false, false, true, true, false)), (String ((Ascii
                          (false, true, false, false, true, true, true,
                          false)), (String ((Ascii (false, false, false,
                          false, false, true, false, false)), (String ((Ascii
                          (false, false, true, false, true, true, true,
                          false)), (String ((Ascii (false, false, false,
                          true, false, true, true, false)), (String ((Ascii
                          (true, false, true, false, false, true, true,
                          false)), (String ((Ascii (false, false, false,
                          false, false, true, false, false)), (String ((Ascii
                          (false, false, true, true, false, true, true,
                          false)), (String ((Ascii (true, true, true, true,
                          false, true, true, false)), (String ((Ascii (true,
                          false, false, false, false, true, true, false)),
                          (String ((Ascii (false, false, true, false, false,
                          true, true, false)),
                          EmptyString)))))))))))))))))))))))))))))))))))))))))))))))))))))))))))))))))))))))))))))))))))))))))))))))))))))))))))))))))))
                   | ER e ->
                     (match e with
                      | DuplicateFilenameError -> None
                      | OverlappingDataError -> None
                      | _ ->
                        Some (String ((Ascii (false, true, false, false,
                          true, true, true, false)), (String ((Ascii (true,
                          false, true, false, false, true, true, false)),
                          (String ((Ascii (false, true, true, false, false,
                          true, true, false)), (String ((Ascii (true, false,
                          false, true, false, true, true, false)), (String
                          ((Ascii (false, true, true, true, false, true,
                          true, false)), (String ((Ascii (true, false, true,
                          false, false, true, true, false)), (String ((Ascii
                          (false, true, false, true, true, true, false,
                          false)), (String ((Ascii (false, false, false,
                          false, false, true, false, false)), (String ((Ascii
                          (false, false, true, false, true, true, true,
                          false)), (String ((Ascii (false, false, false,
                          true, false, true, true, false)), (String ((Ascii
                          (true, false, true, false, false, true, true,
                          false)), (String ((Ascii (false, false, false,
                          false, false, true, false, false)), (String ((Ascii
                          (false, false, false, true, false, true, true,
                          false)), (String ((Ascii (true, false, true, false,
                          false, true, true, false)), (String ((Ascii (true,
                          false, false, false, false, true, true, false)),
                          (String ((Ascii (false, false, false, false, true,
                          true, true, false)), (String ((Ascii (false, false,
                          false, false, false, true, false, false)), (String
                          ((Ascii (true, false, true, true, false, true,
                          true, false)), (String ((Ascii (true, false, true,
                          false, false, true, true, false)), (String ((Ascii
                          (false, true, false, false, true, true, true,
                          false)), (String ((Ascii (true, true, true, false,
                          false, true, true, false)), (String ((Ascii (true,
                          false, true, false, false, true, true, false)),
                          (String ((Ascii (false, false, false, false, false,
                          true, false, false)), (String ((Ascii (false, true,
                          true, false, false, true, true, false)), (String
                          ((Ascii (true, false, false, false, false, true,
                          true, false)), (String ((Ascii (true, false, false,
                          true, false, true, true, false)), (String ((Ascii
                          (false, false, true, true, false, true, true,
                          false)), (String ((Ascii (true, false, true, false,
                          false, true, true, false)), (String ((Ascii (false,
                          false, true, false, false, true, true, false)),
                          (String ((Ascii (false, false, true, true, false,
                          true, false, false)), (String ((Ascii (false,
                          false, false, false, false, true, false, false)),
                          (String ((Ascii (false, false, true, false, true,
                          true, true, false)), (String ((Ascii (false, false,
                          false, true, false, true, true, false)), (String
                          ((Ascii (true, false, true, false, false, true,
                          true, false)), (String ((Ascii (false, false,
                          false, false, false, true, false, false)), (String
                          ((Ascii (false, false, false, false, true, true,
                          true, false)), (String ((Ascii (true, false, true,
                          false, true, true, true, false)), (String ((Ascii
                          (false, true, false, false, true, true, true,
                          false)), (String ((Ascii (true, false, true, false,
                          false, true, true, false)), (String ((Ascii (false,
                          false, false, false, false, true, false, false)),
                          (String ((Ascii (true, false, true, true, false,
                          true, true, false)), (String ((Ascii (true, false,
                          true, false, false, true, true, false)), (String
                          ((Ascii (false, true, false, false, true, true,
                          true, false)), (String ((Ascii (true, true, true,
                          false, false, true, true, false)), (String ((Ascii
                          (true, false, true, false, false, true, true,
                          false)), (String ((Ascii (false, false, false,
                          false, false, true, false, false)), (String ((Ascii
                          (true, true, false, false, true, true, true,
                          false)), (String ((Ascii (true, false, true, false,
                          true, true, true, false)), (String ((Ascii (true,
                          true, false, false, false, true, true, false)),
                          (String ((Ascii (true, true, false, false, false,
                          true, true, false)), (String ((Ascii (true, false,
                          true, false, false, true, true, false)), (String
                          ((Ascii (true, false, true, false, false, true,
                          true, false)), (String ((Ascii (false, false, true,
                          false, false, true, true, false)), (String ((Ascii
                          (true, false, true, false, false, true, true,
                          false)), (String ((Ascii (false, false, true,
                          false, false, true, true, false)),
                          EmptyString))))))))))))))))))))))))))))))))))))))))))))))))))))))))))))))))))))))))))))))))))))))))))))))))))))))))))))))))
                | ER e ->
                  (match e with
                   | InvalidFileMerge ->
                     (match r with
                      | OK _ ->
                        Some (String ((Ascii (false, true, false, false,
                          true, true, true, false)), (String ((Ascii (true,
                          false, true, false, false, true, true, false)),
                          (String ((Ascii (false, true, true, false, false,
                          true, true, false)), (String ((Ascii (true, false,
                          false, true, false, true, true, false)), (String
                          ((Ascii (false, true, true, true, false, true,
                          true, false)), (String ((Ascii (true, false, true,
                          false, false, true, true, false)), (String ((Ascii
                          (false, true, false, true, true, true, false,
                          false)), (String ((Ascii (false, false, false,
                          false, false, true, false, false)), (String ((Ascii
                          (false, false, true, false, true, true, true,
                          false)), (String ((Ascii (false, false, false,
                          true, false, true, true, false)), (String ((Ascii
                          (true, false, true, false, false, true, true,
                          false)), (String ((Ascii (false, false, false,
                          false, false, true, false, false)), (String ((Ascii
                          (false, false, false, false, true, true, true,
                          false)), (String ((Ascii (true, false, true, false,
                          true, true, true, false)), (String ((Ascii (false,
                          true, false, false, true, true, true, false)),
                          (String ((Ascii (true, false, true, false, false,
                          true, true, false)), (String ((Ascii (false, false,
                          false, false, false, true, false, false)), (String
                          ((Ascii (true, false, true, true, false, true,
                          true, false)), (String ((Ascii (true, false, true,
                          false, false, true, true, false)), (String ((Ascii
                          (false, true, false, false, true, true, true,
                          false)), (String ((Ascii (true, true, true, false,
                          false, true, true, false)), (String ((Ascii (true,
                          false, true, false, false, true, true, false)),
                          (String ((Ascii (false, false, false, false, false,
                          true, false, false)), (String ((Ascii (false, true,
                          true, false, false, true, true, false)), (String
                          ((Ascii (true, false, false, false, false, true,
                          true, false)), (String ((Ascii (true, false, false,
                          true, false, true, true, false)), (String ((Ascii
                          (false, false, true, true, false, true, true,
                          false)), (String ((Ascii (true, false, true, false,
                          false, true, true, false)), (String ((Ascii (false,
                          false, true, false, false, true, true, false)),
                          (String ((Ascii (false, false, true, true, false,
                          true, false, false)), (String ((Ascii (false,
                          false, false, false, false, true, false, false)),
                          (String ((Ascii (false, false, true, false, true,
                          true, true, false)), (String ((Ascii (false, false,
                          false, true, false, true, true, false)), (String
                          ((Ascii (true, false, true, false, false, true,
                          true, false)), (String ((Ascii (false, false,
                          false, false, false, true, false, false)), (String
                          ((Ascii (false, false, false, true, false, true,
                          true, false)), (String ((Ascii (true, false, true,
                          false, false, true, true, false)), (String ((Ascii
                          (true, false, false, false, false, true, true,
                          false)), (String ((Ascii (false, false, false,
                          false, true, true, true, false)), (String ((Ascii
                          (false, false, false, false, false, true, false,
                          false)), (String ((Ascii (true, false, true, true,
                          false, true, true, false)), (String ((Ascii (true,
                          false, true, false, false, true, true, false)),
                          (String ((Ascii (false, true, false, false, true,
                          true, true, false)), (String ((Ascii (true, true,
                          true, false, false, true, true, false)), (String
                          ((Ascii (true, false, true, false, false, true,
                          true, false)), (String ((Ascii (false, false,
                          false, false, false, true, false, false)), (String
                          ((Ascii (false, false, true, false, false, true,
                          true, false)), (String ((Ascii (true, false, false,
                          true, false, true, true, false)), (String ((Ascii
                          (false, false, true, false, false, true, true,
                          false)), (String ((Ascii (false, false, false,
                          false, false, true, false, false)), (String ((Ascii
                          (false, true, true, true, false, true, true,
                          false)), (String ((Ascii (true, true, true, true,
                          false, true, true, false)), (String ((Ascii (false,
                          false, true, false, true, true, true, false)),
                          (String ((Ascii (false, false, false, false, false,
                          true, false, false)), (String ((Ascii (false,
                          false, false, true, false, true, false, false)),
                          (String ((Ascii (true, true, true, true, false,
                          true, true, false)), (String ((Ascii (false, true,
                          false, false, true, true, true, false)), (String
                          ((Ascii (false, false, false, false, false, true,
                          false, false)), (String ((Ascii (true, true, true,
                          false, true, true, true, false)), (String ((Ascii
                          (true, false, false, true, false, true, true,
                          false)), (String ((Ascii (false, false, true,
                          false, true, true, true, false)), (String ((Ascii
                          (false, false, false, true, false, true, true,
                          false)), (String ((Ascii (false, false, false,
                          false, false, true, false, false)), (String ((Ascii
                          (true, false, false, false, false, true, true,
                          false)), (String ((Ascii (false, true, true, true,
                          false, true, true, false)), (String ((Ascii (true,
                          true, true, true, false, true, true, false)),
                          (String ((Ascii (false, false, true, false, true,
                          true, true, false)), (String ((Ascii (false, false,
                          false, true, false, true, true, false)), (String
                          ((Ascii (true, false, true, false, false, true,
                          true, false)), (String ((Ascii (false, true, false,
                          false, true, true, true, false)), (String ((Ascii
                          (false, false, false, false, false, true, false,
                          false)), (String ((Ascii (true, false, true, false,
                          false, true, true, false)), (String ((Ascii (false,
                          true, false, false, true, true, true, false)),
                          (String ((Ascii (false, true, false, false, true,
                          true, true, false)), (String ((Ascii (true, true,
                          true, true, false, true, true, false)), (String
                          ((Ascii (false, true, false, false, true, true,
                          true, false)), (String ((Ascii (true, false, false,
                          true, false, true, false, false)),
                          EmptyString))))))))))))))))))))))))))))))))))))))))))))))))))))))))))))))))))))))))))))))))))))))))))))))))))))))))))))))))))))))))))))))))))))))))))))))))))))))))))
                      | ER e0 ->
                        (match e0 with
                         | DuplicateFilenameError -> None
                         | InvalidFileMerge -> None
                         | OverlappingDataError -> None
                         | _ ->
                           Some (String ((Ascii (false, true, false, false,
                             true, true, true, false)), (String ((Ascii
                             (true, false, true, false, false, true, true,
                             false)), (String ((Ascii (false, true, true,
                             false, false, true, true, false)), (String
                             ((Ascii (true, false, false, true, false, true,
                             true, false)), (String ((Ascii (false, true,
                             true, true, false, true, true, false)), (String
                             ((Ascii (true, false, true, false, false, true,
                             true, false)), (String ((Ascii (false, true,
                             false, true, true, true, false, false)), (String
                             ((Ascii (false, false, false, false, false,
                             true, false, false)), (String ((Ascii (false,
                             false, true, false, true, true, true, false)),
                             (String ((Ascii (false, false, false, true,
                             false, true, true, false)), (String ((Ascii
                             (true, false, true, false, false, true, true,
                             false)), (String ((Ascii (false, false, false,
                             false, false, true, false, false)), (String
                             ((Ascii (false, false, false, false, true, true,
                             true, false)), (String ((Ascii (true, false,
                             true, false, true, true, true, false)), (String
                             ((Ascii (false, true, false, false, true, true,
                             true, false)), (String ((Ascii (true, false,
                             true, false, false, true, true, false)), (String
                             ((Ascii (false, false, false, false, false,
                             true, false, false)), (String ((Ascii (true,
                             false, true, true, false, true, true, false)),
                             (String ((Ascii (true, false, true, false,
                             false, true, true, false)), (String ((Ascii
                             (false, true, false, false, true, true, true,
                             false)), (String ((Ascii (true, true, true,
                             false, false, true, true, false)), (String
                             ((Ascii (true, false, true, false, false, true,
                             true, false)), (String ((Ascii (false, false,
                             false, false, false, true, false, false)),
                             (String ((Ascii (false, true, true, false,
                             false, true, true, false)), (String ((Ascii
                             (true, false, false, false, false, true, true,
                             false)), (String ((Ascii (true, false, false,
                             true, false, true, true, false)), (String
                             ((Ascii (false, false, true, true, false, true,
                             true, false)), (String ((Ascii (true, false,
                             true, false, false, true, true, false)), (String
                             ((Ascii (false, false, true, false, false, true,
                             true, false)), (String ((Ascii (false, false,
                             true, true, false, true, false, false)), (String
                             ((Ascii (false, false, false, false, false,
                             true, false, false)), (String ((Ascii (false,
                             false, true, false, true, true, true, false)),
                             (String ((Ascii (false, false, false, true,
                             false, true, true, false)), (String ((Ascii
                             (true, false, true, false, false, true, true,
                             false)), (String ((Ascii (false, false, false,
                             false, false, true, false, false)), (String
                             ((Ascii (false, false, false, true, false, true,
                             true, false)), (String ((Ascii (true, false,
                             true, false, false, true, true, false)), (String
                             ((Ascii (true, false, false, false, false, true,
                             true, false)), (String ((Ascii (false, false,
                             false, false, true, true, true, false)), (String
                             ((Ascii (false, false, false, false, false,
                             true, false, false)), (String ((Ascii (true,
                             false, true, true, false, true, true, false)),
                             (String ((Ascii (true, false, true, false,
                             false, true, true, false)), (String ((Ascii
                             (false, true, false, false, true, true, true,
                             false)), (String ((Ascii (true, true, true,
                             false, false, true, true, false)), (String
                             ((Ascii (true, false, true, false, false, true,
                             true, false)), (String ((Ascii (false, false,
                             false, false, false, true, false, false)),
                             (String ((Ascii (false, false, true, false,
                             false, true, true, false)), (String ((Ascii
                             (true, false, false, true, false, true, true,
                             false)), (String ((Ascii (false, false, true,
                             false, false, true, true, false)), (String
                             ((Ascii (false, false, false, false, false,
                             true, false, false)), (String ((Ascii (false,
                             true, true, true, false, true, true, false)),
                             (String ((Ascii (true, true, true, true, false,
                             true, true, false)), (String ((Ascii (false,
                             false, true, false, true, true, true, false)),
                             (String ((Ascii (false, false, false, false,
                             false, true, false, false)), (String ((Ascii
                             (false, false, false, true, false, true, false,
                             false)), (String ((Ascii (true, true, true,
                             true, false, true, true, false)), (String
                             ((Ascii (false, true, false, false, true, true,
                             true, false)), (String ((Ascii (false, false,
                             false, false, false, true, false, false)),
                             (String ((Ascii (true, true, true, false, true,
                             true, true, false)), (String ((Ascii (true,
                             false, false, true, false, true, true, false)),
                             (String ((Ascii (false, false, true, false,
                             true, true, true, false)), (String ((Ascii
                             (false, false, false, true, false, true, true,
                             false)), (String ((Ascii (false, false, false,
                             false, false, true, false, false)), (String
                             ((Ascii (true, false, false, false, false, true,
                             true, false)), (String ((Ascii (false, true,
                             true, true, false, true, true, false)), (String
                             ((Ascii (true, true, true, true, false, true,
                             true, false)), (String ((Ascii (false, false,
                             true, false, true, true, true, false)), (String
                             ((Ascii (false, false, false, true, false, true,
                             true, false)), (String ((Ascii (true, false,
                             true, false, false, true, true, false)), (String
                             ((Ascii (false, true, false, false, true, true,
                             true, false)), (String ((Ascii (false, false,
                             false, false, false, true, false, false)),
                             (String ((Ascii (true, false, true, false,
                             false, true, true, false)), (String ((Ascii
                             (false, true, false, false, true, true, true,
                             false)), (String ((Ascii (false, true, false,
                             false, true, true, true, false)), (String
                             ((Ascii (true, true, true, true, false, true,
                             true, false)), (String ((Ascii (false, true,
                             false, false, true, true, true, false)), (String
                             ((Ascii (true, false, false, true, false, true,
                             false, false)),
                             EmptyString))))))))))))))))))))))))))))))))))))))))))))))))))))))))))))))))))))))))))))))))))))))))))))))))))))))))))))))))))))))))))))))))))))))))))))))))))))))))))))
                   | _ ->
                     (match r with
                      | OK _ ->
                        Some (String ((Ascii (false, true, false, false,
                          true, true, true, false)), (String ((Ascii (true,
                          false, true, false, false, true, true, false)),
                          (String ((Ascii (false, true, true, false, false,
                          true, true, false)), (String ((Ascii (true, false,
                          false, true, false, true, true, false)), (String
                          ((Ascii (false, true, true, true, false, true,
                          true, false)), (String ((Ascii (true, false, true,
                          false, false, true, true, false)), (String ((Ascii
                          (false, true, false, true, true, true, false,
                          false)), (String ((Ascii (false, false, false,
                          false, false, true, false, false)), (String ((Ascii
                          (false, false, true, false, true, true, true,
                          false)), (String ((Ascii (false, false, false,
                          true, false, true, true, false)), (String ((Ascii
                          (true, false, true, false, false, true, true,
                          false)), (String ((Ascii (false, false, false,
                          false, false, true, false, false)), (String ((Ascii
                          (false, false, false, false, true, true, true,
                          false)), (String ((Ascii (true, false, true, false,
                          true, true, true, false)), (String ((Ascii (false,
                          true, false, false, true, true, true, false)),
                          (String ((Ascii (true, false, true, false, false,
                          true, true, false)), (String ((Ascii (false, false,
                          false, false, false, true, false, false)), (String
                          ((Ascii (true, false, true, true, false, true,
                          true, false)), (String ((Ascii (true, false, true,
                          false, false, true, true, false)), (String ((Ascii
                          (false, true, false, false, true, true, true,
                          false)), (String ((Ascii (true, true, true, false,
                          false, true, true, false)), (String ((Ascii (true,
                          false, true, false, false, true, true, false)),
                          (String ((Ascii (false, false, false, false, false,
                          true, false, false)), (String ((Ascii (false, true,
                          true, false, false, true, true, false)), (String
                          ((Ascii (true, false, false, false, false, true,
                          true, false)), (String ((Ascii (true, false, false,
                          true, false, true, true, false)), (String ((Ascii
                          (false, false, true, true, false, true, true,
                          false)), (String ((Ascii (true, false, true, false,
                          false, true, true, false)), (String ((Ascii (false,
                          false, true, false, false, true, true, false)),
                          (String ((Ascii (false, false, true, true, false,
                          true, false, false)), (String ((Ascii (false,
                          false, false, false, false, true, false, false)),
                          (String ((Ascii (false, false, true, false, true,
                          true, true, false)), (String ((Ascii (false, false,
                          false, true, false, true, true, false)), (String
                          ((Ascii (true, false, true, false, false, true,
                          true, false)), (String ((Ascii (false, false,
                          false, false, false, true, false, false)), (String
                          ((Ascii (false, false, false, true, false, true,
                          true, false)), (String ((Ascii (true, false, true,
                          false, false, true, true, false)), (String ((Ascii
                          (true, false, false, false, false, true, true,
                          false)), (String ((Ascii (false, false, false,
                          false, true, true, true, false)), (String ((Ascii
                          (false, false, false, false, false, true, false,
                          false)), (String ((Ascii (true, false, true, true,
                          false, true, true, false)), (String ((Ascii (true,
                          false, true, false, false, true, true, false)),
                          (String ((Ascii (false, true, false, false, true,
                          true, true, false)), (String ((Ascii (true, true,
                          true, false, false, true, true, false)), (String
                          ((Ascii (true, false, true, false, false, true,
                          true, false)), (String ((Ascii (false, false,
                          false, false, false, true, false, false)), (String
                          ((Ascii (false, false, true, false, false, true,
                          true, false)), (String ((Ascii (true, false, false,
                          true, false, true, true, false)), (String ((Ascii
                          (false, false, true, false, false, true, true,
                          false)), (String ((Ascii (false, false, false,
                          false, false, true, false, false)), (String ((Ascii
                          (false, true, true, true, false, true, true,
                          false)), (String ((Ascii (true, true, true, true,
                          false, true, true, false)), (String ((Ascii (false,
                          false, true, false, true, true, true, false)),
                          (String ((Ascii (false, false, false, false, false,
                          true, false, false)), (String ((Ascii (false,
                          false, false, true, false, true, false, false)),
                          (String ((Ascii (true, true, true, true, false,
                          true, true, false)), (String ((Ascii (false, true,
                          false, false, true, true, true, false)), (String
                          ((Ascii (false, false, false, false, false, true,
                          false, false)), (String ((Ascii (true, true, true,
                          false, true, true, true, false)), (String ((Ascii
                          (true, false, false, true, false, true, true,
                          false)), (String ((Ascii (false, false, true,
                          false, true, true, true, false)), (String ((Ascii
                          (false, false, false, true, false, true, true,
                          false)), (String ((Ascii (false, false, false,
                          false, false, true, false, false)), (String ((Ascii
                          (true, false, false, false, false, true, true,
                          false)), (String ((Ascii (false, true, true, true,
                          false, true, true, false)), (String ((Ascii (true,
                          true, true, true, false, true, true, false)),
                          (String ((Ascii (false, false, true, false, true,
                          true, true, false)), (String ((Ascii (false, false,
                          false, true, false, true, true, false)), (String
                          ((Ascii (true, false, true, false, false, true,
                          true, false)), (String ((Ascii (false, true, false,
                          false, true, true, true, false)), (String ((Ascii
                          (false, false, false, false, false, true, false,
                          false)), (String ((Ascii (true, false, true, false,
                          false, true, true, false)), (String ((Ascii (false,
                          true, false, false, true, true, true, false)),
                          (String ((Ascii (false, true, false, false, true,
                          true, true, false)), (String ((Ascii (true, true,
                          true, true, false, true, true, false)), (String
                          ((Ascii (false, true, false, false, true, true,
                          true, false)), (String ((Ascii (true, false, false,
                          true, false, true, false, false)),
                          EmptyString))))))))))))))))))))))))))))))))))))))))))))))))))))))))))))))))))))))))))))))))))))))))))))))))))))))))))))))))))))))))))))))))))))))))))))))))))))))))))
                      | ER e0 ->
                        (match e0 with
                         | DuplicateFilenameError -> None
                         | OverlappingDataError -> None
                         | _ ->
                           Some (String ((Ascii (false, true, false, false,
                             true, true, true, false)), (String ((Ascii
                             (true, false, true, false, false, true, true,
                             false)), (String ((Ascii (false, true, true,
                             false, false, true, true, false)), (String
                             ((Ascii (true, false, false, true, false, true,
                             true, false)), (String ((Ascii (false, true,
                             true, true, false, true, true, false)), (String
                             ((Ascii (true, false, true, false, false, true,
                             true, false)), (String ((Ascii (false, true,
                             false, true, true, true, false, false)), (String
                             ((Ascii (false, false, false, false, false,
                             true, false, false)), (String ((Ascii (false,
                             false, true, false, true, true, true, false)),
                             (String ((Ascii (false, false, false, true,
                             false, true, true, false)), (String ((Ascii
                             (true, false, true, false, false, true, true,
                             false)), (String ((Ascii (false, false, false,
                             false, false, true, false, false)), (String
                             ((Ascii (false, false, false, false, true, true,
                             true, false)), (String ((Ascii (true, false,
                             true, false, true, true, true, false)), (String
                             ((Ascii (false, true, false, false, true, true,
                             true, false)), (String ((Ascii (true, false,
                             true, false, false, true, true, false)), (String
                             ((Ascii (false, false, false, false, false,
                             true, false, false)), (String ((Ascii (true,
                             false, true, true, false, true, true, false)),
                             (String ((Ascii (true, false, true, false,
                             false, true, true, false)), (String ((Ascii
                             (false, true, false, false, true, true, true,
                             false)), (String ((Ascii (true, true, true,
                             false, false, true, true, false)), (String
                             ((Ascii (true, false, true, false, false, true,
                             true, false)), (String ((Ascii (false, false,
                             false, false, false, true, false, false)),
                             (String ((Ascii (false, true, true, false,
                             false, true, true, false)), (String ((Ascii
                             (true, false, false, false, false, true, true,
                             false)), (String ((Ascii (true, false, false,
                             true, false, true, true, false)), (String
                             ((Ascii (false, false, true, true, false, true,
                             true, false)), (String ((Ascii (true, false,
                             true, false, false, true, true, false)), (String
                             ((Ascii (false, false, true, false, false, true,
                             true, false)), (String ((Ascii (false, false,
                             true, true, false, true, false, false)), (String
                             ((Ascii (false, false, false, false, false,
                             true, false, false)), (String ((Ascii (false,
                             false, true, false, true, true, true, false)),
                             (String ((Ascii (false, false, false, true,
                             false, true, true, false)), (String ((Ascii
                             (true, false, true, false, false, true, true,
                             false)), (String ((Ascii (false, false, false,
                             false, false, true, false, false)), (String
                             ((Ascii (false, false, false, true, false, true,
                             true, false)), (String ((Ascii (true, false,
                             true, false, false, true, true, false)), (String
                             ((Ascii (true, false, false, false, false, true,
                             true, false)), (String ((Ascii (false, false,
                             false, false, true, true, true, false)), (String
                             ((Ascii (false, false, false, false, false,
                             true, false, false)), (String ((Ascii (true,
                             false, true, true, false, true, true, false)),
                             (String ((Ascii (true, false, true, false,
                             false, true, true, false)), (String ((Ascii
                             (false, true, false, false, true, true, true,
                             false)), (String ((Ascii (true, true, true,
                             false, false, true, true, false)), (String
                             ((Ascii (true, false, true, false, false, true,
                             true, false)), (String ((Ascii (false, false,
                             false, false, false, true, false, false)),
                             (String ((Ascii (false, false, true, false,
                             false, true, true, false)), (String ((Ascii
                             (true, false, false, true, false, true, true,
                             false)), (String ((Ascii (false, false, true,
                             false, false, true, true, false)), (String
                             ((Ascii (false, false, false, false, false,
                             true, false, false)), (String ((Ascii (false,
                             true, true, true, false, true, true, false)),
                             (String ((Ascii (true, true, true, true, false,
                             true, true, false)), (String ((Ascii (false,
                             false, true, false, true, true, true, false)),
                             (String ((Ascii (false, false, false, false,
                             false, true, false, false)), (String ((Ascii
                             (false, false, false, true, false, true, false,
                             false)), (String ((Ascii (true, true, true,
                             true, false, true, true, false)), (String
                             ((Ascii (false, true, false, false, true, true,
                             true, false)), (String ((Ascii (false, false,
                             false, false, false, true, false, false)),
                             (String ((Ascii (true, true, true, false, true,
                             true, true, false)), (String ((Ascii (true,
                             false, false, true, false, true, true, false)),
                             (String ((Ascii (false, false, true, false,
                             true, true, true, false)), (String ((Ascii
                             (false, false, false, true, false, true, true,
                             false)), (String ((Ascii (false, false, false,
                             false, false, true, false, false)), (String
                             ((Ascii (true, false, false, false, false, true,
                             true, false)), (String ((Ascii (false, true,
                             true, true, false, true, true, false)), (String
                             ((Ascii (true, true, true, true, false, true,
                             true, false)), (String ((Ascii (false, false,
                             true, false, true, true, true, false)), (String
                             ((Ascii (false, false, false, true, false, true,
                             true, false)), (String ((Ascii (true, false,
                             true, false, false, true, true, false)), (String
                             ((Ascii (false, true, false, false, true, true,
                             true, false)), (String ((Ascii (false, false,
                             false, false, false, true, false, false)),
                             (String ((Ascii (true, false, true, false,
                             false, true, true, false)), (String ((Ascii
                             (false, true, false, false, true, true, true,
                             false)), (String ((Ascii (false, true, false,
                             false, true, true, true, false)), (String
                             ((Ascii (true, true, true, true, false, true,
                             true, false)), (String ((Ascii (false, true,
                             false, false, true, true, true, false)), (String
                             ((Ascii (true, false, false, true, false, true,
                             false, false)),
                             EmptyString))))))))))))))))))))))))))))))))))))))))))))))))))))))))))))))))))))))))))))))))))))))))))))))))))))))))))))))))))))))))))))))))))))))))))))))))))))))))))))))
             | Pan _ ->
               (match r with
                | OK _ ->
                  Some (String ((Ascii (false, true, false, false, true,
                    true, true, false)), (String ((Ascii (true, false, true,
                    false, false, true, true, false)), (String ((Ascii
                    (false, true, true, false, false, true, true, false)),
                    (String ((Ascii (true, false, false, true, false, true,
                    true, false)), (String ((Ascii (false, true, true, true,
                    false, true, true, false)), (String ((Ascii (true, false,
                    true, false, false, true, true, false)), (String ((Ascii
                    (false, true, false, true, true, true, false, false)),
                    (String ((Ascii (false, false, false, false, false, true,
                    false, false)), (String ((Ascii (false, false, true,
                    false, true, true, true, false)), (String ((Ascii (false,
                    false, false, true, false, true, true, false)), (String
                    ((Ascii (true, false, true, false, false, true, true,
                    false)), (String ((Ascii (false, false, false, false,
                    false, true, false, false)), (String ((Ascii (false,
                    false, false, false, true, true, true, false)), (String
                    ((Ascii (true, false, true, false, true, true, true,
                    false)), (String ((Ascii (false, true, false, false,
                    true, true, true, false)), (String ((Ascii (true, false,
                    true, false, false, true, true, false)), (String ((Ascii
                    (false, false, false, false, false, true, false, false)),
                    (String ((Ascii (true, false, true, true, false, true,
                    true, false)), (String ((Ascii (true, false, true, false,
                    false, true, true, false)), (String ((Ascii (false, true,
                    false, false, true, true, true, false)), (String ((Ascii
                    (true, true, true, false, false, true, true, false)),
                    (String ((Ascii (true, false, true, false, false, true,
                    true, false)), (String ((Ascii (false, false, false,
                    false, false, true, false, false)), (String ((Ascii
                    (false, false, false, false, true, true, true, false)),
                    (String ((Ascii (true, false, false, false, false, true,
                    true, false)), (String ((Ascii (false, true, true, true,
                    false, true, true, false)), (String ((Ascii (true, false,
                    false, true, false, true, true, false)), (String ((Ascii
                    (true, true, false, false, false, true, true, false)),
                    (String ((Ascii (true, true, false, true, false, true,
                    true, false)), (String ((Ascii (true, false, true, false,
                    false, true, true, false)), (String ((Ascii (false,
                    false, true, false, false, true, true, false)),
                    EmptyString))))))))))))))))))))))))))))))))))))))))))))))))))))))))))))))
                | ER e ->
                  (match e with
                   | DuplicateFilenameError -> None
                   | OverlappingDataError -> None
                   | _ ->
                     Some (String ((Ascii (false, true, false, false, true,
                       true, true, false)), (String ((Ascii (true, false,
                       true, false, false, true, true, false)), (String
                       ((Ascii (false, true, true, false, false, true, true,
                       false)), (String ((Ascii (true, false, false, true,
                       false, true, true, false)), (String ((Ascii (false,
                       true, true, true, false, true, true, false)), (String
                       ((Ascii (true, false, true, false, false, true, true,
                       false)), (String ((Ascii (false, true, false, true,
                       true, true, false, false)), (String ((Ascii (false,
                       false, false, false, false, true, false, false)),
                       (String ((Ascii (false, false, true, false, true,
                       true, true, false)), (String ((Ascii (false, false,
                       false, true, false, true, true, false)), (String
                       ((Ascii (true, false, true, false, false, true, true,
                       false)), (String ((Ascii (false, false, false, false,
                       false, true, false, false)), (String ((Ascii (false,
                       false, false, false, true, true, true, false)),
                       (String ((Ascii (true, false, true, false, true, true,
                       true, false)), (String ((Ascii (false, true, false,
                       false, true, true, true, false)), (String ((Ascii
                       (true, false, true, false, false, true, true, false)),
                       (String ((Ascii (false, false, false, false, false,
                       true, false, false)), (String ((Ascii (true, false,
                       true, true, false, true, true, false)), (String
                       ((Ascii (true, false, true, false, false, true, true,
                       false)), (String ((Ascii (false, true, false, false,
                       true, true, true, false)), (String ((Ascii (true,
                       true, true, false, false, true, true, false)), (String
                       ((Ascii (true, false, true, false, false, true, true,
                       false)), (String ((Ascii (false, false, false, false,
                       false, true, false, false)), (String ((Ascii (false,
                       false, false, false, true, true, true, false)),
                       (String ((Ascii (true, false, false, false, false,
                       true, true, false)), (String ((Ascii (false, true,
                       true, true, false, true, true, false)), (String
                       ((Ascii (true, false, false, true, false, true, true,
                       false)), (String ((Ascii (true, true, false, false,
                       false, true, true, false)), (String ((Ascii (true,
                       true, false, true, false, true, true, false)), (String
                       ((Ascii (true, false, true, false, false, true, true,
                       false)), (String ((Ascii (false, false, true, false,
                       false, true, true, false)),
                       EmptyString))))))))))))))))))))))))))))))))))))))))))))))))))))))))))))))))
             | Fuel ->
               (match r with
                | OK _ ->
                  Some (String ((Ascii (false, true, false, false, true,
                    true, true, false)), (String ((Ascii (true, false, true,
                    false, false, true, true, false)), (String ((Ascii
                    (false, true, true, false, false, true, true, false)),
                    (String ((Ascii (true, false, false, true, false, true,
                    true, false)), (String ((Ascii (false, true, true, true,
                    false, true, true, false)), (String ((Ascii (true, false,
                    true, false, false, true, true, false)), (String ((Ascii
                    (false, true, false, true, true, true, false, false)),
                    (String ((Ascii (false, false, false, false, false, true,
                    false, false)), (String ((Ascii (false, false, true,
                    false, true, true, true, false)), (String ((Ascii (false,
                    false, false, true, false, true, true, false)), (String
                    ((Ascii (true, false, true, false, false, true, true,
                    false)), (String ((Ascii (false, false, false, false,
                    false, true, false, false)), (String ((Ascii (false,
                    false, false, false, true, true, true, false)), (String
                    ((Ascii (true, false, true, false, true, true, true,
                    false)), (String ((Ascii (false, true, false, false,
                    true, true, true, false)), (String ((Ascii (true, false,
                    true, false, false, true, true, false)), (String ((Ascii
                    (false, false, false, false, false, true, false, false)),
                    (String ((Ascii (true, false, true, true, false, true,
                    true, false)), (String ((Ascii (true, false, true, false,
                    false, true, true, false)), (String ((Ascii (false, true,
                    false, false, true, true, true, false)), (String ((Ascii
                    (true, true, true, false, false, true, true, false)),
                    (String ((Ascii (true, false, true, false, false, true,
                    true, false)), (String ((Ascii (false, false, false,
                    false, false, true, false, false)), (String ((Ascii
                    (false, true, false, false, true, true, true, false)),
                    (String ((Ascii (true, false, false, false, false, true,
                    true, false)), (String ((Ascii (false, true, true, true,
                    false, true, true, false)), (String ((Ascii (false,
                    false, false, false, false, true, false, false)), (String
                    ((Ascii (true, true, true, true, false, true, true,
                    false)), (String ((Ascii (true, false, true, false, true,
                    true, true, false)), (String ((Ascii (false, false, true,
                    false, true, true, true, false)), (String ((Ascii (false,
                    false, false, false, false, true, false, false)), (String
                    ((Ascii (true, true, true, true, false, true, true,
                    false)), (String ((Ascii (false, true, true, false,
                    false, true, true, false)), (String ((Ascii (false,
                    false, false, false, false, true, false, false)), (String
                    ((Ascii (false, true, true, false, false, true, true,
                    false)), (String ((Ascii (true, false, true, false, true,
                    true, true, false)), (String ((Ascii (true, false, true,
                    false, false, true, true, false)), (String ((Ascii
                    (false, false, true, true, false, true, true, false)),
                    EmptyString))))))))))))))))))))))))))))))))))))))))))))))))))))))))))))))))))))))))))))
                | ER e ->
                  (match e with
                   | DuplicateFilenameError -> None
                   | OverlappingDataError -> None
                   | _ ->
                     Some (String ((Ascii (false, true, false, false, true,
                       true, true, false)), (String ((Ascii (true, false,
                       true, false, false, true, true, false)), (String
                       ((Ascii (false, true, true, false, false, true, true,
                       false)), (String ((Ascii (true, false, false, true,
                       false, true, true, false)), (String ((Ascii (false,
                       true, true, true, false, true, true, false)), (String
                       ((Ascii (true, false, true, false, false, true, true,
                       false)), (String ((Ascii (false, true, false, true,
                       true, true, false, false)), (String ((Ascii (false,
                       false, false, false, false, true, false, false)),
                       (String ((Ascii (false, false, true, false, true,
                       true, true, false)), (String ((Ascii (false, false,
                       false, true, false, true, true, false)), (String
                       ((Ascii (true, false, true, false, false, true, true,
                       false)), (String ((Ascii (false, false, false, false,
                       false, true, false, false)), (String ((Ascii (false,
                       false, false, false, true, true, true, false)),
                       (String ((Ascii (true, false, true, false, true, true,
                       true, false)), (String ((Ascii (false, true, false,
                       false, true, true, true, false)), (String ((Ascii
                       (true, false, true, false, false, true, true, false)),
                       (String ((Ascii (false, false, false, false, false,
                       true, false, false)), (String ((Ascii (true, false,
                       true, true, false, true, true, false)), (String
                       ((Ascii (true, false, true, false, false, true, true,
                       false)), (String ((Ascii (false, true, false, false,
                       true, true, true, false)), (String ((Ascii (true,
                       true, true, false, false, true, true, false)), (String
                       ((Ascii (true, false, true, false, false, true, true,
                       false)), (String ((Ascii (false, false, false, false,
                       false, true, false, false)), (String ((Ascii (false,
                       true, false, false, true, true, true, false)), (String
                       ((Ascii (true, false, false, false, false, true, true,
                       false)), (String ((Ascii (false, true, true, true,
                       false, true, true, false)), (String ((Ascii (false,
                       false, false, false, false, true, false, false)),
                       (String ((Ascii (true, true, true, true, false, true,
                       true, false)), (String ((Ascii (true, false, true,
                       false, true, true, true, false)), (String ((Ascii
                       (false, false, true, false, true, true, true, false)),
                       (String ((Ascii (false, false, false, false, false,
                       true, false, false)), (String ((Ascii (true, true,
                       true, true, false, true, true, false)), (String
                       ((Ascii (false, true, true, false, false, true, true,
                       false)), (String ((Ascii (false, false, false, false,
                       false, true, false, false)), (String ((Ascii (false,
                       true, true, false, false, true, true, false)), (String
                       ((Ascii (true, false, true, false, true, true, true,
                       false)), (String ((Ascii (true, false, true, false,
                       false, true, true, false)), (String ((Ascii (false,
                       false, true, true, false, true, true, false)),
                       EmptyString)))))))))))))))))))))))))))))))))))))))))))))))))))))))))))))))))))))))))))))))
          | None ->
            Some (String ((Ascii (false, true, false, false, true, true,
              true, false)), (String ((Ascii (true, false, true, false,
              false, true, true, false)), (String ((Ascii (false, true, true,
              false, false, true, true, false)), (String ((Ascii (true,
              false, false, true, false, true, true, false)), (String ((Ascii
              (false, true, true, true, false, true, true, false)), (String
              ((Ascii (true, false, true, false, false, true, true, false)),
              (String ((Ascii (false, true, false, true, true, true, false,
              false)), (String ((Ascii (false, false, false, false, false,
              true, false, false)), (String ((Ascii (false, false, true,
              false, true, true, true, false)), (String ((Ascii (false,
              false, false, true, false, true, true, false)), (String ((Ascii
              (true, false, true, false, false, true, true, false)), (String
              ((Ascii (false, false, false, false, false, true, false,
              false)), (String ((Ascii (true, false, true, true, false, true,
              true, false)), (String ((Ascii (true, true, true, true, false,
              true, true, false)), (String ((Ascii (false, false, true,
              false, false, true, true, false)), (String ((Ascii (true,
              false, true, false, false, true, true, false)), (String ((Ascii
              (false, false, true, true, false, true, true, false)), (String
              ((Ascii (false, false, false, false, false, true, false,
              false)), (String ((Ascii (false, false, true, false, true,
              true, true, false)), (String ((Ascii (false, true, false,
              false, true, true, true, false)), (String ((Ascii (true, false,
              true, false, false, true, true, false)), (String ((Ascii (true,
              false, true, false, false, true, true, false)), (String ((Ascii
              (false, false, false, false, false, true, false, false)),
              (String ((Ascii (true, true, false, false, false, true, true,
              false)), (String ((Ascii (true, false, false, false, false,
              true, true, false)), (String ((Ascii (false, true, true, true,
              false, true, true, false)), (String ((Ascii (false, true, true,
              true, false, true, true, false)), (String ((Ascii (true, true,
              true, true, false, true, true, false)), (String ((Ascii (false,
              false, true, false, true, true, true, false)), (String ((Ascii
              (false, false, false, false, false, true, false, false)),
              (String ((Ascii (false, true, false, false, false, true, true,
              false)), (String ((Ascii (true, false, true, false, false,
              true, true, false)), (String ((Ascii (false, false, false,
              false, false, true, false, false)), (String ((Ascii (false,
              true, false, false, true, true, true, false)), (String ((Ascii
              (true, false, true, false, false, true, true, false)), (String
              ((Ascii (true, false, false, false, false, true, true, false)),
              (String ((Ascii (false, false, true, false, false, true, true,
              false)), (String ((Ascii (false, false, false, false, false,
              true, false, false)), (String ((Ascii (false, true, false,
              false, false, true, true, false)), (String ((Ascii (true,
              false, false, false, false, true, true, false)), (String
              ((Ascii (true, true, false, false, false, true, true, false)),
              (String ((Ascii (true, true, false, true, false, true, true,
              false)), (String ((Ascii (false, false, false, false, false,
              true, false, false)), (String ((Ascii (false, true, false,
              false, false, true, true, false)), (String ((Ascii (true,
              false, true, false, false, true, true, false)), (String ((Ascii
              (false, true, true, false, false, true, true, false)), (String
              ((Ascii (true, true, true, true, false, true, true, false)),
              (String ((Ascii (false, true, false, false, true, true, true,
              false)), (String ((Ascii (true, false, true, false, false,
              true, true, false)), (String ((Ascii (false, false, false,
              false, false, true, false, false)), (String ((Ascii (false,
              false, true, false, true, true, true, false)), (String ((Ascii
              (false, false, false, true, false, true, true, false)), (String
              ((Ascii (true, false, true, false, false, true, true, false)),
              (String ((Ascii (false, false, false, false, false, true,
              false, false)), (String ((Ascii (false, false, true, true,
              false, true, true, false)), (String ((Ascii (true, true, true,
              true, false, true, true, false)), (String ((Ascii (true, false,
              false, false, false, true, true, false)), (String ((Ascii
              (false, false, true, false, false, true, true, false)),
              EmptyString)))))))))))))))))))))))))))))))))))))))))))))))))))))))))))))))))))))))))))))))))))))))))))))))))))))))))))))))))))))
  | None -> None

(** val check_load_buffer :
    tables -> n -> n -> nametab -> nametab -> nametab -> (n -> n list -> bool
    res) -> (n list -> n option) -> world -> n -> n list -> bool -> n out ->
    world -> string option **)

let check_load_buffer t lATEST name_definition_ref tab_el tab_at tab_en check_fn float_parse w0 m0 buffer strict r w' =
  match load strict t tab_el tab_at tab_en check_fn float_parse buffer with
  | Val a ->
    (match a with
     | Ret (root, st) ->
       check_load t lATEST name_definition_ref w0 m0 root st.p_version r w'
     | Raise (_, _) -> None)
  | _ -> None

(** val in_range : n -> (n * n) -> bool **)

let in_range c r =
  (&&) (N.leb (fst r) c) (N.leb c (snd r))

(** val class_mem : (n * n) list -> n -> bool **)

let class_mem rs c =
  existsb (in_range c) rs

(** val dfa_go : n list list -> n list -> n -> n list -> bool option **)

let rec dfa_go tbl acc q = function
| [] -> Some (existsb (N.eqb q) acc)
| c :: s' ->
  (match nth_opt tbl (N.to_nat q) with
   | Some row ->
     (match nth_opt row (N.to_nat c) with
      | Some q' ->
        if N.eqb q' (Npos (XI (XI (XI (XI (XI (XI (XI XH))))))))
        then Some false
        else dfa_go tbl acc q' s'
      | None -> None)
   | None -> None)

(** val dfa_run : n list list -> n list -> n list -> bool option **)

let dfa_run tbl acc s =
  dfa_go tbl acc N0 s

type vexpr =
| VLenGe of nat
| VLenEq of nat
| VLenLe of nat
| VNonEmpty
| VStarts of n list
| VEq of n list
| VAll of (n * n) list
| VAt of nat * (n * n) list
| VSkip of nat * vexpr
| VAnd of vexpr * vexpr
| VOr of vexpr * vexpr
| VStripOpt of (n * n) list * vexpr
| VSplitAll of n * vexpr
| VSplitCount of n * nat

(** val prefixb : n list -> n list -> bool **)

let rec prefixb lit s =
  match lit with
  | [] -> true
  | c :: lit' ->
    (match s with
     | [] -> false
     | d :: s' -> if N.eqb c d then prefixb lit' s' else false)

(** val split : n -> n list -> n list list **)

let rec split sep = function
| [] -> [] :: []
| c :: s' ->
  if N.eqb c sep
  then [] :: (split sep s')
  else (match split sep s' with
        | [] -> (c :: []) :: []
        | p :: ps -> (c :: p) :: ps)

(** val all_opt : (n list -> bool option) -> n list list -> bool option **)

let rec all_opt f = function
| [] -> Some true
| p :: ps' ->
  (match f p with
   | Some b -> if b then all_opt f ps' else Some false
   | None -> None)

(** val veval : vexpr -> n list -> bool option **)

let rec veval e s =
  match e with
  | VLenGe k -> Some (Nat.leb k (length s))
  | VLenEq k -> Some (Nat.eqb (length s) k)
  | VLenLe k -> Some (Nat.leb (length s) k)
  | VNonEmpty -> Some (match s with
                       | [] -> false
                       | _ :: _ -> true)
  | VStarts lit -> Some (prefixb lit s)
  | VEq lit -> Some (bytes_eqb s lit)
  | VAll cls -> Some (forallb (class_mem cls) s)
  | VAt (k, cls) ->
    (match nth_opt s k with
     | Some c -> Some (class_mem cls c)
     | None -> None)
  | VSkip (k, e') ->
    if Nat.leb k (length s) then veval e' (skipn k s) else None
  | VAnd (a, b) ->
    (match veval a s with
     | Some b0 -> if b0 then veval b s else Some false
     | None -> None)
  | VOr (a, b) ->
    (match veval a s with
     | Some b0 -> if b0 then Some true else veval b s
     | None -> None)
  | VStripOpt (cls, e') ->
    (match s with
     | [] -> veval e' s
     | c :: t -> if class_mem cls c then veval e' t else veval e' s)
  | VSplitAll (sep, e') -> all_opt (veval e') (split sep s)
  | VSplitCount (sep, k) -> Some (Nat.eqb (length (split sep s)) k)

(** val sub_range : n -> n -> (n * n) -> (n * n) list **)

let sub_range lo hi r =
  app
    (if N.ltb (fst r) lo
     then ((fst r), (N.min (snd r) (N.sub lo (Npos XH)))) :: []
     else [])
    (if N.ltb hi (snd r)
     then ((N.max (fst r) (N.add hi (Npos XH))), (snd r)) :: []
     else [])

(** val complement : (n * n) list -> (n * n) list **)

let complement cls =
  fold_left (fun acc r -> flat_map (sub_range (fst r) (snd r)) acc) cls ((N0,
    (Npos (XI (XI (XI (XI (XI (XI (XI XH))))))))) :: [])

(** val v_1 : vexpr **)

let v_1 =
  VAnd ((VAnd ((VLenGe (S (S (S O)))), (VOr ((VStarts
    (bS (String ((Ascii (false, false, false, false, true, true, false,
      false)), (String ((Ascii (false, false, false, true, true, true, true,
      false)), EmptyString)))))), (VStarts
    (bS (String ((Ascii (false, false, false, false, true, true, false,
      false)), (String ((Ascii (false, false, false, true, true, false, true,
      false)), EmptyString)))))))))), (VSkip ((S (S O)), (VAll (((Npos (XO
    (XO (XO (XO (XI XH)))))), (Npos (XI (XO (XO (XI (XI XH))))))) :: (((Npos
    (XI (XO (XO (XO (XO (XI XH))))))), (Npos (XO (XI (XI (XO (XO (XI
    XH)))))))) :: (((Npos (XI (XO (XO (XO (XO (XO XH))))))), (Npos (XO (XI
    (XI (XO (XO (XO XH)))))))) :: [])))))))

(** val v_4 : vexpr **)

let v_4 =
  VOr ((VAnd (VNonEmpty, (VAll (((Npos (XO (XO (XO (XO (XI XH)))))), (Npos
    (XI (XO (XO (XI (XI XH))))))) :: [])))), (VEq
    (bS (String ((Ascii (true, false, false, false, false, false, true,
      false)), (String ((Ascii (false, true, true, true, false, false, true,
      false)), (String ((Ascii (true, false, false, true, true, false, true,
      false)), EmptyString)))))))))

(** val v_5 : vexpr **)

let v_5 =
  VOr ((VOr ((VAnd (VNonEmpty, (VAll (((Npos (XO (XO (XO (XO (XI XH)))))),
    (Npos (XI (XO (XO (XI (XI XH))))))) :: [])))), (VEq
    (bS (String ((Ascii (true, true, false, false, true, false, true,
      false)), (String ((Ascii (false, false, true, false, true, false, true,
      false)), (String ((Ascii (false, true, false, false, true, false, true,
      false)), (String ((Ascii (true, false, false, true, false, false, true,
      false)), (String ((Ascii (false, true, true, true, false, false, true,
      false)), (String ((Ascii (true, true, true, false, false, false, true,
      false)), EmptyString)))))))))))))))), (VEq
    (bS (String ((Ascii (true, false, false, false, false, false, true,
      false)), (String ((Ascii (false, true, false, false, true, false, true,
      false)), (String ((Ascii (false, true, false, false, true, false, true,
      false)), (String ((Ascii (true, false, false, false, false, false,
      true, false)), (String ((Ascii (true, false, false, true, true, false,
      true, false)), EmptyString)))))))))))))

(** val v_6 : vexpr **)

let v_6 =
  VOr ((VOr ((VOr ((VEq
    (bS (String ((Ascii (false, false, false, false, true, true, false,
      false)), EmptyString)))), (VEq
    (bS (String ((Ascii (true, false, false, false, true, true, false,
      false)), EmptyString)))))), (VEq
    (bS (String ((Ascii (false, false, true, false, true, true, true,
      false)), (String ((Ascii (false, true, false, false, true, true, true,
      false)), (String ((Ascii (true, false, true, false, true, true, true,
      false)), (String ((Ascii (true, false, true, false, false, true, true,
      false)), EmptyString)))))))))))), (VEq
    (bS (String ((Ascii (false, true, true, false, false, true, true,
      false)), (String ((Ascii (true, false, false, false, false, true, true,
      false)), (String ((Ascii (false, false, true, true, false, true, true,
      false)), (String ((Ascii (true, true, false, false, true, true, true,
      false)), (String ((Ascii (true, false, true, false, false, true, true,
      false)), EmptyString)))))))))))))

(** val v_7 : vexpr **)

let v_7 =
  VAnd ((VAnd (VNonEmpty, (VOr ((VAt (O, (((Npos (XI (XO (XO (XO (XO (XO
    XH))))))), (Npos (XO (XI (XO (XI (XI (XO XH)))))))) :: (((Npos (XI (XO
    (XO (XO (XO (XI XH))))))), (Npos (XO (XI (XO (XI (XI (XI
    XH)))))))) :: [])))), (VAt (O, (((Npos (XI (XI (XI (XI (XI (XO XH))))))),
    (Npos (XI (XI (XI (XI (XI (XO XH)))))))) :: []))))))), (VAll
    (app (((Npos (XO (XO (XO (XO (XI XH)))))), (Npos (XI (XO (XO (XI (XI
      XH))))))) :: (((Npos (XI (XO (XO (XO (XO (XO XH))))))), (Npos (XO (XI
      (XO (XI (XI (XO XH)))))))) :: (((Npos (XI (XO (XO (XO (XO (XI
      XH))))))), (Npos (XO (XI (XO (XI (XI (XI XH)))))))) :: []))) (((Npos
      (XI (XI (XI (XI (XI (XO XH))))))), (Npos (XI (XI (XI (XI (XI (XO
      XH)))))))) :: []))))

(** val v_8 : vexpr **)

let v_8 =
  VAnd ((VAnd (VNonEmpty, (VAt (O, (((Npos (XI (XO (XO (XO (XO (XO XH))))))),
    (Npos (XO (XI (XO (XI (XI (XO XH)))))))) :: (((Npos (XI (XO (XO (XO (XO
    (XI XH))))))), (Npos (XO (XI (XO (XI (XI (XI XH)))))))) :: [])))))),
    (VAll
    (app (((Npos (XO (XO (XO (XO (XI XH)))))), (Npos (XI (XO (XO (XI (XI
      XH))))))) :: (((Npos (XI (XO (XO (XO (XO (XO XH))))))), (Npos (XO (XI
      (XO (XI (XI (XO XH)))))))) :: (((Npos (XI (XO (XO (XO (XO (XI
      XH))))))), (Npos (XO (XI (XO (XI (XI (XI XH)))))))) :: []))) (((Npos
      (XI (XI (XI (XI (XI (XO XH))))))), (Npos (XI (XI (XI (XI (XI (XO
      XH)))))))) :: []))))

(** val v_10 : vexpr **)

let v_10 =
  VAnd ((VAnd (VNonEmpty, (VAt (O, (((Npos (XI (XO (XO (XO (XO (XO XH))))))),
    (Npos (XO (XI (XO (XI (XI (XO XH)))))))) :: (((Npos (XI (XO (XO (XO (XO
    (XI XH))))))), (Npos (XO (XI (XO (XI (XI (XI XH)))))))) :: [])))))),
    (VAll
    (app (((Npos (XO (XO (XO (XO (XI XH)))))), (Npos (XI (XO (XO (XI (XI
      XH))))))) :: (((Npos (XI (XO (XO (XO (XO (XO XH))))))), (Npos (XO (XI
      (XO (XI (XI (XO XH)))))))) :: (((Npos (XI (XO (XO (XO (XO (XI
      XH))))))), (Npos (XO (XI (XO (XI (XI (XI XH)))))))) :: []))) (((Npos
      (XI (XO (XI (XI (XO XH)))))), (Npos (XI (XO (XI (XI (XO
      XH))))))) :: []))))

(** val v_11 : vexpr **)

let v_11 =
  VAnd (VNonEmpty, (VAll
    (app (((Npos (XO (XO (XO (XO (XI XH)))))), (Npos (XI (XO (XO (XI (XI
      XH))))))) :: (((Npos (XI (XO (XO (XO (XO (XO XH))))))), (Npos (XO (XI
      (XO (XI (XI (XO XH)))))))) :: (((Npos (XI (XO (XO (XO (XO (XI
      XH))))))), (Npos (XO (XI (XO (XI (XI (XI XH)))))))) :: []))) (((Npos
      (XI (XI (XI (XI (XI (XO XH))))))), (Npos (XI (XI (XI (XI (XI (XO
      XH)))))))) :: (((Npos (XI (XO (XI (XI (XO XH)))))), (Npos (XI (XO (XI
      (XI (XO XH))))))) :: [])))))

(** val v_15 : vexpr **)

let v_15 =
  VOr ((VEq
    (bS (String ((Ascii (true, false, false, false, false, false, true,
      false)), (String ((Ascii (false, true, true, true, false, false, true,
      false)), (String ((Ascii (true, false, false, true, true, false, true,
      false)), EmptyString)))))))), (VAnd ((VSplitCount ((Npos (XO (XI (XO
    (XI (XI XH)))))), (S (S (S (S (S (S (S (S O)))))))))), (VSplitAll ((Npos
    (XO (XI (XO (XI (XI XH)))))), (VAnd ((VAnd (VNonEmpty, (VLenLe (S (S (S
    (S O))))))), (VAll (((Npos (XO (XO (XO (XO (XI XH)))))), (Npos (XI (XO
    (XO (XI (XI XH))))))) :: (((Npos (XI (XO (XO (XO (XO (XI XH))))))), (Npos
    (XO (XI (XI (XO (XO (XI XH)))))))) :: (((Npos (XI (XO (XO (XO (XO (XO
    XH))))))), (Npos (XO (XI (XI (XO (XO (XO XH)))))))) :: [])))))))))))

(** val v_17 : vexpr **)

let v_17 =
  VAnd ((VLenEq (S (S (S (S (S (S (S (S (S (S (S (S (S (S (S (S (S
    O)))))))))))))))))), (VSplitAll ((Npos (XO (XI (XO (XI (XI XH)))))),
    (VAnd ((VAnd ((VLenEq (S (S O))), (VAt (O, (((Npos (XO (XO (XO (XO (XI
    XH)))))), (Npos (XI (XO (XO (XI (XI XH))))))) :: (((Npos (XI (XO (XO (XO
    (XO (XI XH))))))), (Npos (XO (XI (XI (XO (XO (XI XH)))))))) :: (((Npos
    (XI (XO (XO (XO (XO (XO XH))))))), (Npos (XO (XI (XI (XO (XO (XO
    XH)))))))) :: []))))))), (VAt ((S O), (((Npos (XO (XO (XO (XO (XI
    XH)))))), (Npos (XI (XO (XO (XI (XI XH))))))) :: (((Npos (XI (XO (XO (XO
    (XO (XI XH))))))), (Npos (XO (XI (XI (XO (XO (XI XH)))))))) :: (((Npos
    (XI (XO (XO (XO (XO (XO XH))))))), (Npos (XO (XI (XI (XO (XO (XO
    XH)))))))) :: []))))))))))

(** val v_19 : vexpr **)

let v_19 =
  VAnd ((VAnd (VNonEmpty, (VAt (O, (((Npos (XI (XO (XO (XO (XO (XO XH))))))),
    (Npos (XO (XI (XO (XI (XI (XO XH)))))))) :: []))))), (VAll
    (app (((Npos (XO (XO (XO (XO (XI XH)))))), (Npos (XI (XO (XO (XI (XI
      XH))))))) :: (((Npos (XI (XO (XO (XO (XO (XO XH))))))), (Npos (XO (XI
      (XO (XI (XI (XO XH)))))))) :: (((Npos (XI (XO (XO (XO (XO (XI
      XH))))))), (Npos (XO (XI (XO (XI (XI (XI XH)))))))) :: []))) (((Npos
      (XI (XI (XI (XI (XI (XO XH))))))), (Npos (XI (XI (XI (XI (XI (XO
      XH)))))))) :: []))))

(** val v_20 : vexpr **)

let v_20 =
  VAnd ((VAnd (VNonEmpty, (VAt (O,
    (complement (((Npos (XO (XO (XO (XO (XI XH)))))), (Npos (XO (XO (XO (XO
      (XI XH))))))) :: [])))))), (VAll (((Npos (XO (XO (XO (XO (XI XH)))))),
    (Npos (XI (XO (XO (XI (XI XH))))))) :: [])))

(** val v_23 : vexpr **)

let v_23 =
  VStripOpt ((((Npos (XI (XO (XI (XI (XO XH)))))), (Npos (XI (XO (XI (XI (XO
    XH))))))) :: []), (VAnd (VNonEmpty, (VOr ((VOr ((VAll (((Npos (XO (XO (XO
    (XO (XI XH)))))), (Npos (XI (XO (XO (XI (XI XH))))))) :: [])), (VEq
    (bS (String ((Ascii (true, false, true, true, false, false, true,
      false)), (String ((Ascii (true, false, false, false, false, false,
      true, false)), (String ((Ascii (false, false, false, true, true, false,
      true, false)), (String ((Ascii (true, false, true, true, false, true,
      false, false)), (String ((Ascii (false, false, true, false, true,
      false, true, false)), (String ((Ascii (true, false, true, false, false,
      false, true, false)), (String ((Ascii (false, false, false, true, true,
      false, true, false)), (String ((Ascii (false, false, true, false, true,
      false, true, false)), (String ((Ascii (true, false, true, true, false,
      true, false, false)), (String ((Ascii (true, true, false, false, true,
      false, true, false)), (String ((Ascii (true, false, false, true, false,
      false, true, false)), (String ((Ascii (false, true, false, true, true,
      false, true, false)), (String ((Ascii (true, false, true, false, false,
      false, true, false)), EmptyString)))))))))))))))))))))))))))))), (VEq
    (bS (String ((Ascii (true, false, false, false, false, false, true,
      false)), (String ((Ascii (false, true, false, false, true, false, true,
      false)), (String ((Ascii (false, true, false, false, true, false, true,
      false)), (String ((Ascii (true, false, false, false, false, false,
      true, false)), (String ((Ascii (true, false, false, true, true, false,
      true, false)), (String ((Ascii (true, false, true, true, false, true,
      false, false)), (String ((Ascii (true, true, false, false, true, false,
      true, false)), (String ((Ascii (true, false, false, true, false, false,
      true, false)), (String ((Ascii (false, true, false, true, true, false,
      true, false)), (String ((Ascii (true, false, true, false, false, false,
      true, false)), EmptyString)))))))))))))))))))))))))))

(** val v_24 : vexpr **)

let v_24 =
  VAnd (VNonEmpty, (VStripOpt ((((Npos (XI (XI (XI (XI (XO XH)))))), (Npos
    (XI (XI (XI (XI (XO XH))))))) :: []), (VSplitAll ((Npos (XI (XI (XI (XI
    (XO XH)))))), (VAnd ((VLenLe (S (S (S (S (S (S (S (S (S (S (S (S (S (S (S
    (S (S (S (S (S (S (S (S (S (S (S (S (S (S (S (S (S (S (S (S (S (S (S (S
    (S (S (S (S (S (S (S (S (S (S (S (S (S (S (S (S (S (S (S (S (S (S (S (S
    (S (S (S (S (S (S (S (S (S (S (S (S (S (S (S (S (S (S (S (S (S (S (S (S
    (S (S (S (S (S (S (S (S (S (S (S (S (S (S (S (S (S (S (S (S (S (S (S (S
    (S (S (S (S (S (S (S (S (S (S (S (S (S (S (S (S (S
    O))))))))))))))))))))))))))))))))))))))))))))))))))))))))))))))))))))))))))))))))))))))))))))))))))))))))))))))))))))))))))))))))),
    (VAnd ((VAnd (VNonEmpty, (VAt (O, (((Npos (XI (XO (XO (XO (XO (XO
    XH))))))), (Npos (XO (XI (XO (XI (XI (XO XH)))))))) :: (((Npos (XI (XO
    (XO (XO (XO (XI XH))))))), (Npos (XO (XI (XO (XI (XI (XI
    XH)))))))) :: [])))))), (VAll
    (app (((Npos (XO (XO (XO (XO (XI XH)))))), (Npos (XI (XO (XO (XI (XI
      XH))))))) :: (((Npos (XI (XO (XO (XO (XO (XO XH))))))), (Npos (XO (XI
      (XO (XI (XI (XO XH)))))))) :: (((Npos (XI (XO (XO (XO (XO (XI
      XH))))))), (Npos (XO (XI (XO (XI (XI (XI XH)))))))) :: []))) (((Npos
      (XI (XI (XI (XI (XI (XO XH))))))), (Npos (XI (XI (XI (XI (XI (XO
      XH)))))))) :: []))))))))))))

(** val v_27 : vexpr **)

let v_27 =
  VAnd ((VLenEq (S O)), (VOr ((VAt (O, (((Npos (XO (XO (XO (XO (XI XH)))))),
    (Npos (XO (XO (XO (XO (XI XH))))))) :: []))), (VAt (O, (((Npos (XI (XO
    (XO (XO (XI XH)))))), (Npos (XI (XO (XO (XO (XI XH))))))) :: []))))))

(** val xml_vexpr : n -> vexpr option **)

let xml_vexpr = function
| N0 -> None
| Npos p ->
  (match p with
   | XI p0 ->
     (match p0 with
      | XI p1 ->
        (match p1 with
         | XI p2 ->
           (match p2 with
            | XI _ -> None
            | XO p3 -> (match p3 with
                        | XH -> Some v_23
                        | _ -> None)
            | XH -> Some v_15)
         | XO p2 ->
           (match p2 with
            | XI p3 -> (match p3 with
                        | XH -> Some v_27
                        | _ -> None)
            | XO p3 -> (match p3 with
                        | XH -> Some v_19
                        | _ -> None)
            | XH -> Some v_11)
         | XH -> Some v_7)
      | XO p1 ->
        (match p1 with
         | XI _ -> None
         | XO p2 ->
           (match p2 with
            | XO p3 -> (match p3 with
                        | XH -> Some v_17
                        | _ -> None)
            | _ -> None)
         | XH -> Some v_5)
      | XH -> None)
   | XO p0 ->
     (match p0 with
      | XI p1 ->
        (match p1 with
         | XI _ -> None
         | XO p2 -> (match p2 with
                     | XH -> Some v_10
                     | _ -> None)
         | XH -> Some v_6)
      | XO p1 ->
        (match p1 with
         | XI p2 ->
           (match p2 with
            | XO p3 -> (match p3 with
                        | XH -> Some v_20
                        | _ -> None)
            | _ -> None)
         | XO p2 ->
           (match p2 with
            | XI p3 -> (match p3 with
                        | XH -> Some v_24
                        | _ -> None)
            | XO _ -> None
            | XH -> Some v_8)
         | XH -> Some v_4)
      | XH -> None)
   | XH -> Some v_1)

(** val check_fn_model :
    (n -> (n list list * n list) option) -> n -> n list -> bool res **)

let check_fn_model dfas n0 s =
  match xml_vexpr n0 with
  | Some v ->
    (match veval v s with
     | Some b -> Val b
     | None ->
       Pan (String ((Ascii (false, true, false, false, true, true, true,
         false)), (String ((Ascii (true, false, true, false, false, true,
         true, false)), (String ((Ascii (true, true, true, false, false,
         true, true, false)), (String ((Ascii (true, false, true, false,
         false, true, true, false)), (String ((Ascii (false, false, false,
         true, true, true, true, false)), (String ((Ascii (false, true, true,
         true, false, true, false, false)), (String ((Ascii (false, true,
         false, false, true, true, true, false)), (String ((Ascii (true,
         true, false, false, true, true, true, false)), (String ((Ascii
         (false, true, false, true, true, true, false, false)), (String
         ((Ascii (false, false, false, false, false, true, false, false)),
         (String ((Ascii (false, false, false, true, false, true, true,
         false)), (String ((Ascii (true, false, false, false, false, true,
         true, false)), (String ((Ascii (false, true, true, true, false,
         true, true, false)), (String ((Ascii (false, false, true, false,
         false, true, true, false)), (String ((Ascii (true, false, true,
         true, false, true, false, false)), (String ((Ascii (true, true,
         true, false, true, true, true, false)), (String ((Ascii (false,
         true, false, false, true, true, true, false)), (String ((Ascii
         (true, false, false, true, false, true, true, false)), (String
         ((Ascii (false, false, true, false, true, true, true, false)),
         (String ((Ascii (false, false, true, false, true, true, true,
         false)), (String ((Ascii (true, false, true, false, false, true,
         true, false)), (String ((Ascii (false, true, true, true, false,
         true, true, false)), (String ((Ascii (false, false, false, false,
         false, true, false, false)), (String ((Ascii (false, true, true,
         false, true, true, true, false)), (String ((Ascii (true, false,
         false, false, false, true, true, false)), (String ((Ascii (false,
         false, true, true, false, true, true, false)), (String ((Ascii
         (true, false, false, true, false, true, true, false)), (String
         ((Ascii (false, false, true, false, false, true, true, false)),
         (String ((Ascii (true, false, false, false, false, true, true,
         false)), (String ((Ascii (false, false, true, false, true, true,
         true, false)), (String ((Ascii (true, true, true, true, false, true,
         true, false)), (String ((Ascii (false, true, false, false, true,
         true, true, false)), (String ((Ascii (false, false, false, false,
         false, true, false, false)), (String ((Ascii (true, false, false,
         true, false, true, true, false)), (String ((Ascii (false, true,
         true, true, false, true, true, false)), (String ((Ascii (false,
         false, true, false, false, true, true, false)), (String ((Ascii
         (true, false, true, false, false, true, true, false)), (String
         ((Ascii (false, false, false, true, true, true, true, false)),
         EmptyString)))))))))))))))))))))))))))))))))))))))))))))))))))))))))))))))))))))))))))))
  | None ->
    (match dfas n0 with
     | Some p ->
       let (tbl, acc) = p in
       (match dfa_run tbl acc s with
        | Some b -> Val b
        | None ->
          Pan (String ((Ascii (false, true, false, false, true, true, true,
            false)), (String ((Ascii (true, false, true, false, false, true,
            true, false)), (String ((Ascii (true, true, true, false, false,
            true, true, false)), (String ((Ascii (true, false, true, false,
            false, true, true, false)), (String ((Ascii (false, false, false,
            true, true, true, true, false)), (String ((Ascii (false, true,
            true, true, false, true, false, false)), (String ((Ascii (false,
            true, false, false, true, true, true, false)), (String ((Ascii
            (true, true, false, false, true, true, true, false)), (String
            ((Ascii (false, true, false, true, true, true, false, false)),
            (String ((Ascii (false, false, false, false, false, true, false,
            false)), (String ((Ascii (false, true, false, false, true, false,
            true, false)), (String ((Ascii (true, false, true, false, false,
            false, true, false)), (String ((Ascii (true, true, true, false,
            false, false, true, false)), (String ((Ascii (true, false, true,
            false, false, false, true, false)), (String ((Ascii (false,
            false, false, true, true, false, true, false)), (String ((Ascii
            (true, true, true, true, true, false, true, false)), (String
            ((Ascii (false, true, true, true, false, true, true, false)),
            (String ((Ascii (true, true, true, true, true, false, true,
            false)), (String ((Ascii (false, false, true, false, true, false,
            true, false)), (String ((Ascii (true, false, false, false, false,
            false, true, false)), (String ((Ascii (false, true, false, false,
            false, false, true, false)), (String ((Ascii (false, false, true,
            true, false, false, true, false)), (String ((Ascii (true, false,
            true, false, false, false, true, false)), (String ((Ascii (false,
            false, false, false, false, true, false, false)), (String ((Ascii
            (true, false, false, true, false, true, true, false)), (String
            ((Ascii (false, true, true, true, false, true, true, false)),
            (String ((Ascii (false, false, true, false, false, true, true,
            false)), (String ((Ascii (true, false, true, false, false, true,
            true, false)), (String ((Ascii (false, false, false, true, true,
            true, true, false)),
            EmptyString)))))))))))))))))))))))))))))))))))))))))))))))))))))))))))
     | None ->
       Pan (String ((Ascii (true, true, false, false, false, true, true,
         false)), (String ((Ascii (false, false, false, true, false, true,
         true, false)), (String ((Ascii (true, false, true, false, false,
         true, true, false)), (String ((Ascii (true, true, false, false,
         false, true, true, false)), (String ((Ascii (true, true, false,
         true, false, true, true, false)), (String ((Ascii (true, true, true,
         true, true, false, true, false)), (String ((Ascii (false, true,
         true, false, false, true, true, false)), (String ((Ascii (false,
         true, true, true, false, true, true, false)), (String ((Ascii
         (false, true, false, true, true, true, false, false)), (String
         ((Ascii (false, false, false, false, false, true, false, false)),
         (String ((Ascii (false, true, true, true, false, true, true,
         false)), (String ((Ascii (true, true, true, true, false, true, true,
         false)), (String ((Ascii (false, false, false, false, false, true,
         false, false)), (String ((Ascii (true, true, false, false, true,
         true, true, false)), (String ((Ascii (true, false, true, false,
         true, true, true, false)), (String ((Ascii (true, true, false,
         false, false, true, true, false)), (String ((Ascii (false, false,
         false, true, false, true, true, false)), (String ((Ascii (false,
         false, false, false, false, true, false, false)), (String ((Ascii
         (false, true, true, false, true, true, true, false)), (String
         ((Ascii (true, false, false, false, false, true, true, false)),
         (String ((Ascii (false, false, true, true, false, true, true,
         false)), (String ((Ascii (true, false, false, true, false, true,
         true, false)), (String ((Ascii (false, false, true, false, false,
         true, true, false)), (String ((Ascii (true, false, false, false,
         false, true, true, false)), (String ((Ascii (false, false, true,
         false, true, true, true, false)), (String ((Ascii (true, true, true,
         true, false, true, true, false)), (String ((Ascii (false, true,
         false, false, true, true, true, false)),
         EmptyString)))))))))))))))))))))))))))))))))))))))))))))))))))))))
